"""Memo fields: hidden per-object caches written by queries.

A query that stores a computed value on its receiver (`self._area = area`) is
not a mutation in the sense of C20 when the field is a *memo field*:

  M1  the constructor (or a constructor-internal helper) only ever stores the
      sentinel None into it -- or does not mention it at all (the attribute is
      absent until the first access);
  M2  every other store happens in a method of the same class that tests the
      sentinel (`self.f is None` / `is not None`), or that reads `self.f`
      inside a `try:` with an `except AttributeError:` handler
      -- a memo accessor -- or stores the sentinel again / deletes the
      attribute (an invalidation, e.g. in move);
  M3  the field is read nowhere else in the package: not by __eq__, __hash__,
      __repr__, other classes or module functions -- only by its accessors and
      invalidators, so it is invisible except through the accessor's result;
  M4  an accessor returns either values that do not expose the cached object,
      or the cached value itself, which must then be immutable (numbers,
      strings, tuples of such): a caller cannot modify what later calls return;
  M5  the cached value cannot go stale: every value stored is translation
      invariant (transl.py), or every in-place mutator of the class (move,
      __setitem__) re-assigns the field.

  M6  the cached value does not depend on the tolerance configuration (no
      call that reaches get_eps / get_sig_figures takes part in computing it):
      a memoised hash or comparison result would survive set_eps.

Everything else stored by a query stays a reported write (R20.1).
"""
from __future__ import annotations

import ast
from typing import Dict, List, Set, Tuple

from .astutil import txt
from .model import FunctionInfo, walk_local

MUTATORS = ("move", "__setitem__")
IMMUTABLE = {"num", "bool", "str", "None"}


def _immutable(tags) -> bool:
    for t in tags:
        if isinstance(t, tuple):
            if t[0] in ("tuple",):
                if not _immutable(t[1]):
                    return False
            elif t[0] == "ftuple":
                if not all(_immutable(x) for x in t[1]):
                    return False
            else:
                return False
        elif str(t) not in IMMUTABLE:
            return False
    return True


def _dbg(cname, f, why):
    import os
    if os.environ.get("G3DSA_DEBUG_MEMO"):
        print("memo: %s.%s rejected: %s" % (cname, f, why))


def _self_attr(n: ast.AST, sn: str):
    if isinstance(n, ast.Attribute) and isinstance(n.value, ast.Name) and n.value.id == sn:
        return n.attr
    return None


def memo_fields(ctx) -> Dict[Tuple[str, str], str]:
    """(class, field) -> reason, for the fields that satisfy M1-M5"""
    if "memo_fields" in ctx.cache:
        return ctx.cache["memo_fields"]
    from .rules.c20 import ctor_internal_cached
    from .transl import invariant
    repo, eng = ctx.repo, ctx.types
    out: Dict[Tuple[str, str], str] = {}
    ctx.cache["memo_fields"] = out  # (ctor_internal_cached may re-enter)
    # all attribute accesses by attribute name
    loads: Dict[str, List[Tuple[FunctionInfo, ast.Attribute]]] = {}
    stores: Dict[str, List[Tuple[FunctionInfo, ast.AST, ast.AST]]] = {}
    for fi in repo.functions(include_visualization=True):
        for n in walk_local(fi.node):
            if isinstance(n, ast.Attribute):
                if isinstance(n.ctx, ast.Load):
                    loads.setdefault(n.attr, []).append((fi, n))
            if isinstance(n, ast.Assign):
                for t in n.targets:
                    base = t
                    while isinstance(base, ast.Subscript):
                        base = base.value
                    if isinstance(base, ast.Attribute):
                        stores.setdefault(base.attr, []).append((fi, t, n.value))
            elif isinstance(n, ast.AugAssign):
                base = n.target
                while isinstance(base, ast.Subscript):
                    base = base.value
                if isinstance(base, ast.Attribute):
                    stores.setdefault(base.attr, []).append((fi, n.target, None))
    deleters: Dict[str, Set[str]] = {}
    for fi in repo.functions(include_visualization=True):
        if fi.self_name is None:
            continue
        for n in walk_local(fi.node):
            if isinstance(n, ast.Delete):
                for t in n.targets:
                    a = _self_attr(t, fi.self_name)
                    if a is not None:
                        deleters.setdefault(a, set()).add(fi.qual)
    for c in [c for m in repo.core_modules() for c in m.classes.values()]:
        cands = {f for (k, f) in eng.fields if k == c.name}
        for f in sorted(cands):
            sts = stores.get(f, [])
            if not sts:
                continue
            ok = True
            accessors: Set[str] = set()
            invalidators: Set[str] = set()
            why = ""
            for fi, t, v in sts:
                if fi.cls is not None and fi.cls is not c and fi.self_name is not None \
                        and _self_attr(t if not isinstance(t, ast.Subscript) else _base(t), fi.self_name) == f \
                        and c not in fi.cls.mro() and fi.cls not in c.mro():
                    continue  # the same attribute name on the objects of an unrelated class: another field
                if fi.cls is not c or fi.self_name is None or _self_attr(t if not isinstance(t, ast.Subscript) else _base(t), fi.self_name) != f:
                    ok, why = False, "stored from outside the class"
                    break
                is_none = isinstance(v, ast.Constant) and v.value is None and not isinstance(t, ast.Subscript)
                if fi.name == "__init__" or ctor_internal_cached(ctx, fi):
                    if not is_none:
                        ok, why = False, "the constructor stores a value"
                        break
                    continue
                if is_none:
                    invalidators.add(fi.qual)
                    continue
                tests = [x for x in walk_local(fi.node) if isinstance(x, ast.Compare) and len(x.ops) == 1
                         and isinstance(x.ops[0], (ast.Is, ast.IsNot)) and _self_attr(x.left, fi.self_name) == f
                         and isinstance(x.comparators[0], ast.Constant) and x.comparators[0].value is None]
                if not tests:
                    # the sentinel read into a local first (`cached = self.f` / `getattr(self, "f", None)`), or presence tested with hasattr
                    from .astutil import single_defs
                    sd = single_defs(fi.node, fi.params)
                    for x in walk_local(fi.node):
                        if isinstance(x, ast.Compare) and len(x.ops) == 1 and isinstance(x.ops[0], (ast.Is, ast.IsNot)) \
                                and isinstance(x.left, ast.Name) and x.left.id in sd \
                                and isinstance(x.comparators[0], ast.Constant) and x.comparators[0].value is None \
                                and any(_self_attr(y, fi.self_name) == f for y in ast.walk(sd[x.left.id])):
                            tests.append(x)
                        elif isinstance(x, ast.Call) and isinstance(x.func, ast.Name) and x.func.id == "hasattr" and len(x.args) == 2 \
                                and isinstance(x.args[0], ast.Name) and x.args[0].id == fi.self_name \
                                and isinstance(x.args[1], ast.Constant) and x.args[1].value == f:
                            tests.append(x)
                if not tests:
                    # the attribute-absent style:  try: x = self.f  except AttributeError: ...; self.f = x
                    for tr in [x for x in walk_local(fi.node) if isinstance(x, ast.Try)]:
                        reads_f = any(_self_attr(y, fi.self_name) == f and isinstance(y.ctx, ast.Load) for b in tr.body for y in ast.walk(b))
                        handles = any(isinstance(h.type, ast.Name) and h.type.id == "AttributeError" for h in tr.handlers)
                        if reads_f and handles:
                            tests = [tr]
                if not tests and fi.name not in MUTATORS:
                    ok, why = False, "%s stores it without testing the sentinel" % fi.short
                    break
                if fi.name in MUTATORS:
                    invalidators.add(fi.qual)
                else:
                    accessors.add(fi.qual)
            if not ok or not accessors:
                _dbg(c.name, f, why or "no accessor")
                continue
            invalidators |= {q for q in deleters.get(f, ()) if eng.fn_by_qual[q].cls is c}
            # a mutator that calls an invalidating method on itself (`self._forget_measures()`) invalidates too
            grew = True
            while grew:
                grew = False
                for m_ in c.methods.values():
                    if m_.qual in invalidators or m_.self_name is None:
                        continue
                    for x in walk_local(m_.node):
                        if isinstance(x, ast.Call) and isinstance(x.func, ast.Attribute) and isinstance(x.func.value, ast.Name) \
                                and x.func.value.id == m_.self_name:
                            tgt = c.lookup(x.func.attr)
                            if tgt is not None and tgt.qual in invalidators and tgt.qual not in accessors:
                                invalidators.add(m_.qual)
                                grew = True
                                break
            # M3 reads
            for fi, n in loads.get(f, []):
                if fi.qual in accessors or fi.qual in invalidators:
                    if fi.cls is c and _self_attr(n, fi.self_name or "") == f:
                        continue
                # the same attribute name on another class' object is another field -- decided by the E1 type of the base
                bt = {str(t) for t in eng.types_at(fi, n.value) if not isinstance(t, tuple)}
                if bt and c.name not in bt and not any(repo.has_cls(b) and c in repo.cls(b).mro() for b in bt if repo.has_cls(b)):
                    continue
                ok, why = False, "read by %s" % fi.short
                break
            if not ok:
                _dbg(c.name, f, why)
                continue
            # M4 exposure
            ty = eng.fields.get((c.name, f), frozenset())
            for q in accessors:
                fi = eng.fn_by_qual[q]
                for r in walk_local(fi.node):
                    if isinstance(r, ast.Return) and r.value is not None:
                        exposes = any(_self_attr(x, fi.self_name) == f for x in ast.walk(r.value))
                        stored_names = {txt(v) for g, t, v in sts if g is fi and v is not None and isinstance(v, ast.Name)}
                        exposes = exposes or (isinstance(r.value, ast.Name) and r.value.id in stored_names)
                        if exposes and not _immutable(ty):
                            ok, why = False, "%s hands the cached mutable object to its caller" % fi.short
            if not ok:
                _dbg(c.name, f, why)
                continue
            # M6 tolerance
            from .rules.c15 import cond_deps
            tol = ctx.cache.get("tolerance_functions")
            if tol is None:
                roots = {repo.fn(nm, "utils.constant").qual for nm in ("get_eps", "get_sig_figures")}
                tol = ctx.cache["tolerance_functions"] = eng.transitive_callers_of(roots) | roots
            for g_, t_, v_ in sts:
                if v_ is None or g_.qual not in accessors:
                    continue
                visited: List[ast.AST] = []
                cond_deps(ctx, g_, v_, visited)
                if any(eng.targets_in(g_, x) & tol for x in visited):
                    # ... unless the accessor re-validates what it remembered against a key that reads the tolerance itself:
                    #     if remembered[0] != (..., get_eps()): recompute
                    from .astutil import assigned_names
                    sd_ = {nm_: ast.Tuple(elts=[d_.value for d_ in defs_ if isinstance(d_, ast.Assign)], ctx=ast.Load())
                           for nm_, defs_ in assigned_names(g_.node).items()}
                    keyed = False
                    for cmp_ in walk_local(g_.node):
                        if not (isinstance(cmp_, ast.Compare) and len(cmp_.ops) == 1 and isinstance(cmp_.ops[0], (ast.Eq, ast.NotEq))):
                            continue
                        for memo_side, key_side in ((cmp_.left, cmp_.comparators[0]), (cmp_.comparators[0], cmp_.left)):
                            base_ = memo_side
                            while isinstance(base_, ast.Subscript):
                                base_ = base_.value
                            reads_memo = _self_attr(base_, g_.self_name) == f or (
                                isinstance(base_, ast.Name) and base_.id in sd_ and any(_self_attr(y, g_.self_name) == f for y in ast.walk(sd_[base_.id])))
                            if not reads_memo or not isinstance(memo_side, ast.Subscript):
                                continue
                            kv: List[ast.AST] = []
                            cond_deps(ctx, g_, key_side, kv)
                            if any(eng.targets_in(g_, x) & tol for x in kv):
                                keyed = True
                    if not keyed:
                        ok, why = False, "the cached value depends on the tolerance configuration"
            if not ok:
                _dbg(c.name, f, why)
                continue
            # M5 staleness
            k = ctx.transl.field_kind(c.name, f)
            muts = [m for m in c.methods.values() if m.name in MUTATORS]
            refreshed = all(m.qual in invalidators for m in muts) if muts else True
            if not (invariant(k) or refreshed):
                _dbg(c.name, f, "neither translation invariant (%s) nor re-assigned by every mutator" % (k,))
                continue
            out[(c.name, f)] = "memo field (%s; %s)" % (
                "accessors: " + ", ".join(sorted(q.split(":")[-1] for q in accessors)),
                "translation invariant" if invariant(k) else "re-assigned by every in-place mutator")
    return out


def _base(t):
    while isinstance(t, ast.Subscript):
        t = t.value
    return t
