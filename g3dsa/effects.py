"""E3 -- effect and ownership summaries.

Abstract value of an expression = (S, E): S = the roots the object itself may
*be or belong to*, E = the roots it may *reach* through fields / elements.
Roots are 'P:<parameter>' (self included) and 'G:<module global>'.  Empty sets
mean a fresh object.  Mutating an expression affects S only.

Per function (bottom-up fixpoint over the whole package):
  mut    roots that may be written (attribute / subscript store, augmented
         assignment on a mutable, container mutators, calls whose summary
         mutates the corresponding argument), each with a witness chain
  retS/retE   what the return value may be / may reach
  cap    parameters stored by reference into `self`
  gwrite / gread   module globals written / mutable globals read
Callees are resolved with the type-set inference (E1); unresolved method names
fall back to every method of that name (conservative).  Every expression or
statement kind that is not modelled is an analysis error, never a default.
"""
from __future__ import annotations

import ast
from typing import Dict, FrozenSet, List, Optional, Set, Tuple

from .model import AnalysisError, FunctionInfo, Repo, norm_text, walk_local

FS = frozenset
E0: FrozenSet = FS()

CONT_MUT = {"add", "append", "pop", "extend", "update", "remove", "sort", "insert", "clear", "discard", "reverse",
            "popitem", "setdefault"}
COPYING = {"list", "tuple", "set", "sorted", "dict", "frozenset", "reversed", "enumerate", "zip", "iter", "filter", "map"}
PURE_BUILTIN = {"len", "abs", "round", "hash", "isinstance", "min", "max", "sum", "float", "int", "range", "all", "any",
                "type", "str", "repr", "print", "format", "bool", "issubclass", "callable", "id", "divmod", "pow",
                "super", "hasattr"}
PURE_CONT_METHODS = {"union", "intersection", "difference", "copy", "index", "count", "format", "upper", "lower",
                     "items", "keys", "values", "get", "join", "split", "strip", "startswith", "endswith", "title",
                     "issubset", "issuperset"}
LOGGER_METHODS = {"debug", "info", "warning", "error", "critical", "exception", "log"}


class V:
    __slots__ = ("S", "E")

    def __init__(self, S=E0, E=E0):
        self.S = FS(S)
        self.E = FS(E)

    def all(self) -> FrozenSet:
        return self.S | self.E

    def __eq__(self, o):
        return isinstance(o, V) and self.S == o.S and self.E == o.E

    def __repr__(self):
        return "V(S=%s,E=%s)" % (sorted(self.S), sorted(self.E))


FRESH = V()


def vjoin(a: V, b: V) -> V:
    return V(a.S | b.S, a.E | b.E)


def join_env(a: Optional[dict], b: Optional[dict]) -> Optional[dict]:
    if a is None:
        return b
    if b is None:
        return a
    out = {}
    for k in set(a) | set(b):
        if k in a and k in b:
            out[k] = vjoin(a[k], b[k])
        else:
            out[k] = a.get(k) or b.get(k)
    return out


class Summary:
    def __init__(self):
        self.mut: Dict[str, Tuple[str, str]] = {}  # root -> (where, what)
        self.retS: Set[str] = set()
        self.retE: Set[str] = set()
        self.cap: Dict[str, Tuple[str, str]] = {}
        self.gwrite: Dict[str, Tuple[str, str]] = {}
        self.gread: Dict[str, Tuple[str, str]] = {}
        self.field_writes: Set[str] = set()  # self fields stored (attribute store) directly
        self.calls_mutators: List[Tuple[str, str, str]] = []


class EffectEngine:
    def __init__(self, repo: Repo, ctx):
        self.repo = repo
        self.ctx = ctx
        self.types = ctx.types
        self.funcs: List[FunctionInfo] = list(repo.functions())
        self.summ: Dict[str, Summary] = {f.qual: Summary() for f in self.funcs}
        self.by_name: Dict[str, List[FunctionInfo]] = {}
        for f in self.funcs:
            if f.cls is not None:
                self.by_name.setdefault(f.name, []).append(f)
        self.changed = False
        self.iterations = 0
        self.mutable_globals: Set[Tuple[str, str]] = set()
        self.memo_stores: List[Tuple[str, str, str, str]] = []
        for f in self.funcs:
            for n in walk_local(f.node):
                if isinstance(n, ast.Global):
                    for nm in n.names:
                        self.mutable_globals.add((f.module.name, nm))
        self.mutator_sites: List[dict] = []  # calls to in-place mutators with the receiver's value

    def solve(self, max_iter=40):
        for it in range(max_iter):
            self.changed = False
            self.mutator_sites = []
            for f in self.funcs:
                Analysis(self, f).run()
            self.iterations = it + 1
            if not self.changed:
                return
        raise AnalysisError("effect analysis did not converge")

    def add(self, d: dict, key: str, wit: Tuple[str, str]):
        if key not in d:
            d[key] = wit
            self.changed = True

    def addset(self, s: set, key: str):
        if key not in s:
            s.add(key)
            self.changed = True

    def chain(self, qual: str, root: str, depth=0) -> List[str]:
        """witness chain for a mutation of `root` in function `qual`"""
        s = self.summ[qual]
        if root not in s.mut or depth > 8:
            return []
        where, what = s.mut[root]
        out = ["%s %s: %s" % (where, qual.split(":")[-1], what)]
        if what.startswith("call of ") and "{" in what:
            # what = "call of <qual> {root}"
            cq = what[len("call of "):].split(" ")[0]
            cr = what.split("{")[1].split("}")[0]
            if cq in self.summ:
                out += self.chain(cq, cr, depth + 1)
        return out


class Analysis:
    def __init__(self, eng: EffectEngine, fi: FunctionInfo, summary: Optional[Summary] = None,
                 reached: Optional[Set[int]] = None, branches=None):
        self.eng = eng
        self.fi = fi
        self.me = summary if summary is not None else eng.summ[fi.qual]
        self.reached = reached  # statements reached in one E1 context (path-restricted run)
        self.branches = branches  # feasible (if-stmt, outcome) pairs of that context
        self.glob: Set[str] = set()
        for n in walk_local(fi.node):
            if isinstance(n, ast.Global):
                self.glob |= set(n.names)
        self.loop_envs: List[dict] = []

    def where(self, node) -> str:
        return self.fi.where(node)

    # ---- recording
    def mutate(self, v: V, node, what: str):
        for r in v.S:
            self.eng.add(self.me.mut, r, (self.where(node), what))

    # ---- driver
    def run(self):
        fi = self.fi
        env: Dict[str, V] = {}
        for p in fi.params + fi.kwonly:
            env[p] = V({"P:" + p}, {"P:" + p})
        if fi.vararg:
            env[fi.vararg] = V(E0, {"P:" + fi.vararg})
        if fi.kwarg:
            env[fi.kwarg] = V(E0, {"P:" + fi.kwarg})
        self.block(fi.node.body, env)

    def block(self, stmts, env: Optional[dict]) -> Optional[dict]:
        for s in stmts:
            if env is None:
                return None
            env = self.stmt(s, env)
        return env

    def stmt(self, s, env: dict) -> Optional[dict]:
        if self.reached is not None and id(s) not in self.reached:
            return None  # not executed in the selected context
        if isinstance(s, ast.Assign):
            v = self.ev(s.value, env)
            env = dict(env)
            for t in s.targets:
                self.assign(t, v, env, s)
            return env
        if isinstance(s, ast.AnnAssign):
            if s.value is not None:
                v = self.ev(s.value, env)
                env = dict(env)
                self.assign(s.target, v, env, s)
            return env
        if isinstance(s, ast.AugAssign):
            v = self.ev(s.value, env)
            env = dict(env)
            t = s.target
            if isinstance(t, ast.Name):
                cur = env.get(t.id, FRESH)
                # in-place only for mutable containers (list += ...); numbers and our value classes rebind
                ty = self.eng.types.types_at(self.fi, t)
                if any(isinstance(x, tuple) and x[0] in ("list", "set", "dict") for x in ty):
                    self.mutate(cur, s, "augmented assignment on a mutable container `%s`" % norm_text(s)[:50])
                if t.id in self.glob:
                    self.eng.add(self.me.gwrite, "G:" + t.id, (self.where(s), norm_text(s)[:60]))
                env[t.id] = vjoin(cur, V(E0, v.all()))
            else:
                self.assign(t, v, env, s)
            return env
        if isinstance(s, ast.Expr):
            self.ev(s.value, env)
            return env
        if isinstance(s, ast.Return):
            if s.value is not None:
                v = self.ev(s.value, env)
                for r in v.S:
                    self.eng.addset(self.me.retS, r)
                for r in v.E:
                    self.eng.addset(self.me.retE, r)
            return None
        if isinstance(s, ast.Raise):
            if s.exc is not None:
                self.ev(s.exc, env)
            return None
        if isinstance(s, ast.If):
            self.ev(s.test, env)
            a = b = None
            if self.branches is None or (id(s), True) in self.branches:
                a = self.block(s.body, dict(env))
            if self.branches is None or (id(s), False) in self.branches:
                b = self.block(s.orelse, dict(env))
            return join_env(a, b)
        if isinstance(s, (ast.For, ast.AsyncFor)):
            it = self.ev(s.iter, env)
            a = it.all()
            e0 = dict(env)
            self.loop_envs.append(None)
            for _ in range(4):
                e1 = dict(e0)
                self.assign(s.target, V(a, a), e1, s)
                out = self.block(s.body, e1)
                out = join_env(out, self.loop_envs[-1])
                new = join_env(e0, out)
                if new == e0:
                    break
                e0 = new
            self.loop_envs.pop()
            if s.orelse:
                return self.block(s.orelse, e0)
            return e0
        if isinstance(s, ast.While):
            e0 = dict(env)
            self.loop_envs.append(None)
            for _ in range(4):
                self.ev(s.test, e0)
                out = self.block(s.body, dict(e0))
                out = join_env(out, self.loop_envs[-1])
                new = join_env(e0, out)
                if new == e0:
                    break
                e0 = new
            self.loop_envs.pop()
            return e0
        if isinstance(s, (ast.Continue, ast.Break)):
            if self.loop_envs:
                self.loop_envs[-1] = join_env(self.loop_envs[-1], env)
            return None
        if isinstance(s, ast.Assert):
            self.ev(s.test, env)
            return env
        if isinstance(s, (ast.Pass, ast.Import, ast.ImportFrom, ast.Global, ast.Nonlocal)):
            return env
        if isinstance(s, ast.Delete):
            for t in s.targets:
                if isinstance(t, (ast.Attribute, ast.Subscript)):
                    self.mutate(self.ev(t.value, env), s, "del %s" % norm_text(t)[:40])
            return env
        if isinstance(s, ast.Try):
            a = self.block(s.body, dict(env))
            outs = a
            for h in s.handlers:
                outs = join_env(outs, self.block(h.body, dict(env)))
            if s.orelse and a is not None:
                outs = join_env(outs, self.block(s.orelse, a))
            if s.finalbody and outs is not None:
                outs = self.block(s.finalbody, outs)
            return outs
        if isinstance(s, ast.With):
            env = dict(env)
            for item in s.items:
                v = self.ev(item.context_expr, env)
                if item.optional_vars is not None:
                    self.assign(item.optional_vars, V(v.all(), v.all()), env, s)
            return self.block(s.body, env)
        if isinstance(s, (ast.FunctionDef, ast.ClassDef)):
            env = dict(env)
            env[s.name] = FRESH
            return env
        raise AnalysisError("%s: effect analysis does not model statement kind %s" % (self.where(s), type(s).__name__))

    def assign(self, t, v: V, env: dict, node):
        if isinstance(t, ast.Name):
            if t.id in self.glob:
                self.eng.add(self.me.gwrite, "G:" + t.id, (self.where(node), norm_text(node)[:60]))
            env[t.id] = v
            return
        if isinstance(t, (ast.Tuple, ast.List)):
            a = v.all()
            for x in t.elts:
                self.assign(x, V(a, a), env, node)
            return
        if isinstance(t, ast.Starred):
            self.assign(t.value, v, env, node)
            return
        if isinstance(t, (ast.Attribute, ast.Subscript)):
            b = self.ev(t.value, env)
            if not self._memo_store(t):
                self.mutate(b, node, "store `%s = ...`" % norm_text(t)[:50])
            if isinstance(t, ast.Subscript):
                self.ev(t.slice, env)
            sn = self.fi.self_name
            if sn is not None and ("P:" + sn) in b.S:
                for r in v.all():
                    if r != "P:" + sn:
                        self.eng.add(self.me.cap, r, (self.where(node), "stored by reference into `%s`" % norm_text(t)[:40]))
                if isinstance(t, ast.Attribute) and isinstance(t.value, ast.Name) and t.value.id == sn:
                    self.eng.addset(self.me.field_writes, t.attr)
            # the container now reaches v
            root = t.value
            while isinstance(root, (ast.Attribute, ast.Subscript)):
                root = root.value
            if isinstance(root, ast.Name) and root.id in env:
                cur = env[root.id]
                env[root.id] = V(cur.S, cur.E | v.all())
            return
        raise AnalysisError("%s: effect analysis does not model assignment target %s" % (self.where(node), type(t).__name__))

    def _memo_store(self, t) -> bool:
        """the store target is a memo field of the receiver (memo.py): a hidden cache, not an observable attribute"""
        sn = self.fi.self_name
        if sn is None or self.fi.cls is None:
            return False
        base = t
        while isinstance(base, ast.Subscript):
            base = base.value
        if isinstance(base, ast.Attribute) and isinstance(base.value, ast.Name) and base.value.id == sn:
            from .memo import memo_fields
            mf = memo_fields(self.eng.ctx)
            for c in self.fi.cls.mro():
                if (c.name, base.attr) in mf:
                    self.eng.memo_stores.append((self.where(t), self.fi.short, base.attr, mf[(c.name, base.attr)]))
                    return True
        return False

    # ---- expressions
    IMMUTABLE = {"num", "bool", "str", "None", "Exc", "type"}

    def _deep_immutable(self, t, depth=0) -> bool:
        if isinstance(t, str):
            return t in self.IMMUTABLE
        if isinstance(t, tuple) and t and t[0] in ("list", "tuple", "set", "iter") and depth < 3:
            return all(self._deep_immutable(x, depth + 1) for x in t[1])
        if isinstance(t, tuple) and t and t[0] == "ftuple" and depth < 3:
            return all(self._deep_immutable(x, depth + 1) for v in t[1] for x in v)
        return False

    def ev(self, e, env: dict) -> V:
        v = self._ev(e, env)
        if v.S or v.E:
            ty = self.eng.types.types_at(self.fi, e)
            if ty:
                if all(isinstance(t, str) and t in self.IMMUTABLE for t in ty):
                    return FRESH  # numbers / strings / None are values, not shared objects
                if all(self._deep_immutable(t) for t in ty) and all(not isinstance(t, str) for t in ty):
                    return V(v.S, v.S)  # a container of plain values reaches nothing but itself
        return v

    def _ev(self, e, env: dict) -> V:
        if e is None:
            return FRESH
        if isinstance(e, ast.Name):
            if e.id in env:
                return env[e.id]
            b = self.fi.resolve(e.id)
            if b is not None and b.kind == "var":
                mod, name, vals = b.target
                if (mod.name, name) in self.eng.mutable_globals:
                    self.eng.add(self.me.gread, "G:%s.%s" % (mod.name.split(".")[-1], name), (self.where(e), "read of mutable global " + name))
                    return V({"G:" + name}, {"G:" + name})
                # a module-level mutable object (dict / list / set / object) is shared state
                if any(isinstance(vn, (ast.Dict, ast.List, ast.Set, ast.ListComp, ast.DictComp, ast.SetComp, ast.Call))
                       for vn in vals):
                    key = "G:%s.%s" % (mod.name.split(".")[-1], name)
                    self.eng.add(self.me.gread, key, (self.where(e), "read of module-level mutable object " + name))
                    return V({key}, {key})
                # module-level constant (numbers, strings, tuples of them)
                return FRESH
            return FRESH
        if isinstance(e, ast.Constant):
            return FRESH
        if isinstance(e, (ast.Attribute, ast.Subscript)):
            if isinstance(e, ast.Attribute) and isinstance(e.value, ast.Name) and e.value.id not in env:
                b = self.fi.resolve(e.value.id)
                if b is not None and b.kind in ("ext", "module", "class"):
                    return FRESH
            b = self.ev(e.value, env)
            if isinstance(e, ast.Attribute):
                # a property read is a call of the getter on the object (resolved by E1)
                tg = self.eng.types.call_targets.get((self.fi.qual, id(e)), set())
                props = [self.eng.types.fn_by_qual[q] for q in tg if q in self.eng.types.fn_by_qual
                         and "property" in self.eng.types.fn_by_qual[q].decorators]
                if props:
                    out = FRESH
                    for fi2 in props:
                        out = vjoin(out, self.apply(fi2, [b], {}, e, recv_first=True))
                    return out
            if isinstance(e, ast.Subscript):
                if isinstance(e.slice, ast.Slice):
                    for p in (e.slice.lower, e.slice.upper, e.slice.step):
                        if p is not None:
                            self.ev(p, env)
                    return V(E0, b.all())  # a slice is a new container
                self.ev(e.slice, env)
            a = b.all()
            return V(a, a)
        if isinstance(e, (ast.BinOp,)):
            l = self.ev(e.left, env)
            r = self.ev(e.right, env)
            return self.op_call(e, [l, r], env)
        if isinstance(e, ast.UnaryOp):
            v = self.ev(e.operand, env)
            return self.op_call(e, [v], env)
        if isinstance(e, ast.BoolOp):
            out = FRESH
            for x in e.values:
                out = vjoin(out, self.ev(x, env))
            return out
        if isinstance(e, ast.Compare):
            vals = [self.ev(e.left, env)] + [self.ev(c, env) for c in e.comparators]
            self.op_call(e, vals, env)
            return FRESH
        if isinstance(e, ast.IfExp):
            self.ev(e.test, env)
            # arms that the type analysis found infeasible in this context contribute nothing
            t_ok = self.branches is None or (id(e), True) in self.branches
            f_ok = self.branches is None or (id(e), False) in self.branches
            if t_ok and not f_ok:
                return self.ev(e.body, env)
            if f_ok and not t_ok:
                return self.ev(e.orelse, env)
            return vjoin(self.ev(e.body, env), self.ev(e.orelse, env))
        if isinstance(e, (ast.Tuple, ast.List, ast.Set)):
            E = set()
            for x in e.elts:
                E |= self.ev(x, env).all()
            return V(E0, E)
        if isinstance(e, ast.Dict):
            E = set()
            for k, v in zip(e.keys, e.values):
                if k is not None:
                    E |= self.ev(k, env).all()
                E |= self.ev(v, env).all()
            return V(E0, E)
        if isinstance(e, (ast.ListComp, ast.SetComp, ast.GeneratorExp, ast.DictComp)):
            e2 = dict(env)
            for g in e.generators:
                it = self.ev(g.iter, e2)
                a = it.all()
                self.assign(g.target, V(a, a), e2, g.iter)
                for c in g.ifs:
                    self.ev(c, e2)
            if isinstance(e, ast.DictComp):
                r = vjoin(self.ev(e.key, e2), self.ev(e.value, e2))
            else:
                r = self.ev(e.elt, e2)
            return V(E0, r.all())
        if isinstance(e, ast.JoinedStr):
            for x in e.values:
                if isinstance(x, ast.FormattedValue):
                    self.ev(x.value, env)
            return FRESH
        if isinstance(e, ast.Lambda):
            return FRESH
        if isinstance(e, ast.Starred):
            return self.ev(e.value, env)
        if isinstance(e, (ast.Yield, ast.YieldFrom)):
            if e.value is not None:
                v = self.ev(e.value, env)
                for r in v.all():
                    self.eng.addset(self.me.retE, r)
            return FRESH
        if isinstance(e, ast.Call):
            return self.call(e, env)
        if isinstance(e, ast.NamedExpr):
            v = self.ev(e.value, env)
            env[e.target.id] = v
            return v
        if isinstance(e, ast.Slice):
            return FRESH
        raise AnalysisError("%s: effect analysis does not model expression kind %s" % (self.where(e), type(e).__name__))

    def op_call(self, node, vals: List[V], env) -> V:
        """operator / protocol dispatch resolved by E1"""
        tg = self.eng.types.op_targets.get((self.fi.qual, id(node)), set())
        out = FRESH
        for q in tg:
            fi2 = self.eng.types.fn_by_qual[q]
            args = list(vals)
            # reflected operators and `in`: the receiver is the right operand
            if fi2.name.startswith("__r") and fi2.name not in ("__repr__",) and len(args) == 2:
                args = args[::-1]
            if fi2.name == "__contains__" and len(args) == 2:
                args = args[::-1]
            out = vjoin(out, self.apply(fi2, args, {}, node, recv_first=True))
        return out

    def apply(self, fi2: FunctionInfo, args: List[V], kwargs: Dict[str, V], node, recv_first=False, is_ctor=False) -> V:
        s2 = self.eng.summ[fi2.qual]
        ps = fi2.params
        amap: Dict[str, V] = {}
        for p, v in zip(ps, args):
            amap["P:" + p] = v
        if fi2.vararg and len(args) > len(ps):
            vv = FRESH
            for x in args[len(ps):]:
                vv = vjoin(vv, x)
            amap["P:" + fi2.vararg] = V(E0, vv.all())
        for k, v in kwargs.items():
            amap["P:" + k] = v
        self_root = ("P:" + ps[0]) if (fi2.cls is not None and ps and not fi2.is_classmethod) else None
        for r, wit in list(s2.mut.items()):
            if r in amap:
                if is_ctor and r == self_root:
                    continue  # the object under construction
                if amap[r].S:
                    self.mutate(amap[r], node, "call of %s {%s}" % (fi2.qual, r))
            elif r.startswith("G:"):
                self.eng.add(self.me.mut, r, (self.where(node), "call of %s {%s}" % (fi2.qual, r)))
        for r, wit in list(s2.gwrite.items()):
            self.eng.add(self.me.gwrite, r, (self.where(node), "call of %s" % fi2.qual))
        for r, wit in list(s2.gread.items()):
            self.eng.add(self.me.gread, r, (self.where(node), "call of %s" % fi2.qual))
        # captures by a method into its receiver: the receiver now reaches the argument
        if not is_ctor and self_root is not None and self_root in amap:
            recv = amap[self_root]
            sn = self.fi.self_name
            if sn is not None and ("P:" + sn) in recv.S:
                for r in s2.cap:
                    if r in amap:
                        for rr in amap[r].all():
                            if rr != "P:" + sn:
                                self.eng.add(self.me.cap, rr, (self.where(node), "captured through %s" % fi2.short))
        if is_ctor:
            E = set()
            for r in s2.cap:
                if r in amap:
                    E |= amap[r].all()
            return V(E0, E)
        S, E = set(), set()
        for r in s2.retS:
            if r in amap:
                S |= amap[r].S
            elif r.startswith("G:"):
                S.add(r)
        for r in s2.retE:
            if r in amap:
                E |= amap[r].all()
            elif r.startswith("G:"):
                E.add(r)
        return V(S, E)

    def call(self, e: ast.Call, env: dict) -> V:
        eng = self.eng
        args: List[V] = []
        for a in e.args:
            v = self.ev(a, env)
            if isinstance(a, ast.Starred):
                v = V(v.all(), v.all())
            args.append(v)
        kwargs: Dict[str, V] = {}
        for k in e.keywords:
            v = self.ev(k.value, env)
            if k.arg is None:
                args.append(V(v.all(), v.all()))
            else:
                kwargs[k.arg] = v
        fn = e.func
        targets = eng.types.call_targets.get((self.fi.qual, id(e)), set())
        # --- module functions / known externals by name
        if isinstance(fn, ast.Attribute) and isinstance(fn.value, ast.Name) and fn.value.id not in env:
            b = self.fi.resolve(fn.value.id)
            if b is not None and b.kind == "ext":
                full = "%s.%s" % (b.target, fn.attr)
                if full in ("copy.deepcopy",):
                    return FRESH
                if full == "copy.copy":
                    a = args[0].all() if args else E0
                    return V(E0, a)
                return FRESH  # math.*, logging.* ...: pure w.r.t. our objects
        if isinstance(fn, ast.Name) and fn.id not in env:
            b = self.fi.resolve(fn.id)
            if b is None:
                n = fn.id
                if n in COPYING:
                    E = set()
                    for a in args:
                        E |= a.all()
                    return V(E0, E)
                if n in PURE_BUILTIN:
                    return FRESH
                if n == "setattr":
                    if args:
                        self.mutate(args[0], e, "setattr")
                        sn = self.fi.self_name
                        if sn is not None and ("P:" + sn) in args[0].S and len(args) == 3:
                            for r in args[2].all():
                                if r != "P:" + sn:
                                    eng.add(self.me.cap, r, (self.where(e), "setattr into self"))
                    return FRESH
                if n in ("getattr",):
                    a = args[0].all() if args else E0
                    return V(a, a)
                import builtins
                if hasattr(builtins, n):
                    return FRESH
                raise AnalysisError("%s: call of unresolved name %s" % (self.where(e), n))
            if b.kind == "ext":
                if str(b.target) in ("copy.deepcopy",):
                    return FRESH
                return FRESH
        # --- resolved package callees
        if targets:
            out = FRESH
            recv = None
            if isinstance(fn, ast.Attribute):
                recv = self.ev(fn.value, env)
            for q in sorted(targets):
                fi2 = eng.types.fn_by_qual[q]
                if fi2.name == "__init__":
                    out = vjoin(out, self.apply(fi2, [FRESH] + args, kwargs, e, is_ctor=True))
                elif fi2.is_classmethod:
                    out = vjoin(out, self.apply(fi2, [FRESH] + args, kwargs, e))
                elif fi2.cls is not None and recv is not None and not self._is_class_expr(fn.value, env):
                    self._note_mutator(fi2, recv, e, env)
                    out = vjoin(out, self.apply(fi2, [recv] + args, kwargs, e))
                elif fi2.cls is not None and isinstance(fn, ast.Name) and fn.id in env:
                    # a callable object held in a local (Solution instance): __call__
                    out = vjoin(out, self.apply(fi2, [env[fn.id]] + args, kwargs, e))
                else:
                    out = vjoin(out, self.apply(fi2, args, kwargs, e))
            return out
        # --- unresolved: methods on containers / externals, or name-based fallback
        if isinstance(fn, ast.Attribute):
            recv = self.ev(fn.value, env)
            cands = eng.by_name.get(fn.attr, [])
            rt = eng.types.types_at(self.fi, fn.value)
            is_container = any(isinstance(t, tuple) and t[0] in ("list", "set", "dict", "tuple", "iter", "ftuple") for t in rt) \
                or any(t == "str" for t in rt)
            is_ext = any(t == "Ext" or (isinstance(t, tuple) and t[0] in ("extattr",)) for t in rt)
            if fn.attr in CONT_MUT and (is_container or not rt or not cands):
                self.mutate(recv, e, "container mutator .%s() on `%s`" % (fn.attr, norm_text(fn.value)[:40]))
                E = set()
                for a in args:
                    E |= a.all()
                root = fn.value
                while isinstance(root, (ast.Attribute, ast.Subscript)):
                    root = root.value
                if isinstance(root, ast.Name) and root.id in env:
                    cur = env[root.id]
                    env[root.id] = V(cur.S, cur.E | E)
                sn = self.fi.self_name
                if sn is not None and ("P:" + sn) in recv.S:
                    for r in E:
                        if r != "P:" + sn:
                            eng.add(self.me.cap, r, (self.where(e), "added by reference to `%s`" % norm_text(fn.value)[:40]))
                if fn.attr in ("pop", "popitem", "setdefault"):
                    return V(recv.all(), recv.all())
                return FRESH
            if is_container or is_ext or fn.attr in LOGGER_METHODS:
                if fn.attr in PURE_CONT_METHODS or is_ext or fn.attr in LOGGER_METHODS:
                    E = set(recv.all())
                    for a in args:
                        E |= a.all()
                    return V(E0, E) if not (fn.attr in LOGGER_METHODS or is_ext) else FRESH
            if cands and rt and not is_container:
                # E1 saw the receiver but resolved no callee (e.g. attribute missing): conservative by name
                out = FRESH
                for fi2 in cands:
                    if fi2.name in CONT_MUT:
                        self.mutate(recv, e, "ambiguous .%s()" % fn.attr)
                    out = vjoin(out, self.apply(fi2, [recv] + args, kwargs, e))
                return out
            if not rt:
                # code never reached by the type analysis (unreferenced function): conservative by name
                out = FRESH
                for fi2 in cands:
                    out = vjoin(out, self.apply(fi2, [recv] + args, kwargs, e))
                if fn.attr in CONT_MUT:
                    self.mutate(recv, e, "container mutator .%s()" % fn.attr)
                return out
            E = set(recv.all())
            for a in args:
                E |= a.all()
            return V(E0, E)
        if isinstance(fn, ast.Name):
            if fn.id in env:
                return FRESH  # call of a local callable (lambda / class object)
            b = self.fi.resolve(fn.id)
            if b is not None and b.kind == "func":
                fi2 = b.target
                pre = [FRESH] if fi2.is_classmethod else []
                return self.apply(fi2, pre + args, kwargs, e)
            if b is not None and b.kind == "class":
                init = b.target.lookup("__init__")
                if init is not None:
                    return self.apply(init, [FRESH] + args, kwargs, e, is_ctor=True)
                return FRESH
            return FRESH
        # call of a call result etc.
        self.ev(fn, env)
        return FRESH

    def _is_class_expr(self, e, env) -> bool:
        if isinstance(e, ast.Name) and e.id not in env:
            b = self.fi.resolve(e.id)
            return b is not None and b.kind == "class"
        return False

    def _note_mutator(self, fi2: FunctionInfo, recv: V, e: ast.Call, env):
        s2 = self.eng.summ[fi2.qual]
        if fi2.params and ("P:" + fi2.params[0]) in s2.mut:
            self.eng.mutator_sites.append({
                "caller": self.fi.qual, "callee": fi2.qual, "where": self.where(e), "recv": recv,
                "text": norm_text(e)[:70],
            })
