"""C18 -- vector arithmetic is exact component algebra and preserves numeric type.

Decides: R18.1 the component formulas of +, -, dot, scalar * (both sides),
negation, cross, Vector(P1, P2), Point.pv, Point.move and the constant vectors
by polynomial normal forms of the real code over symbolic coordinates (holds
for all inputs of any ring type; any algebraically equal rewrite is accepted);
R18.2 no silent coercion inside those operations; R18.3 the promotion table of
unify_types and that every constructor stores promoted coordinates;
R18.4 the acos clamp.  |normalized(v)| = 1 etc. over magnitudes is numeric and
NOT decided.
"""
from __future__ import annotations

import ast
from typing import Dict, List

from ..algebra import C, P, SymInterp, padd, pmul, pneg, pshow, sym_point, sym_vector, vec_components
from ..astutil import txt
from ..model import AnalysisError, walk_local
from ..rcross import check_acos

COERCERS = {"float", "int", "round", "Decimal", "Fraction", "complex", "str"}
EXACT_OPS = ["Vector.__init__", "Vector.__add__", "Vector.__sub__", "Vector.__mul__", "Vector.__rmul__", "Vector.__neg__",
             "Vector.__getitem__", "Vector.cross", "Point.__init__", "Point.pv", "Point.move", "Point.__getitem__",
             "Vector.zero", "Vector.x_unit_vector", "Vector.y_unit_vector", "Vector.z_unit_vector"]
# coercion sites of vector.py that are outside the exact algebra, with the reason
OUTSIDE_EXACT = {
    "Vector.length": "square root (** 0.5): a length is not a ring element",
    "Vector.normalized": "float(1 / |v|): normalisation is a floating-point operation by definition",
    "Vector.angle": "acos of the cosine",
    "Vector.__hash__": "rounding for hashing",
    "Vector.__repr__": "formatting",
    "Vector.__eq__": "tolerance comparison",
    "Vector.parallel": "tolerance comparison",
    "Vector.orthogonal": "tolerance comparison",
}


def _cmp(res, fi, label, got: List, want: List, where=None):
    ok = got == want
    res.ob("R18.1", where or fi.where(), label, ok,
           "normal form = (%s)" % ", ".join(pshow(c) for c in got) if ok else "got (%s), textbook (%s)" % (
               ", ".join(pshow(c) for c in got), ", ".join(pshow(c) for c in want)))
    if not ok:
        bad = [i for i in range(len(want)) if i >= len(got) or got[i] != want[i]]
        res.violation("R18.1", fi, fi.node,
                      "%s does not compute the textbook formula: component(s) %s are (%s), expected (%s)" % (
                          label, bad, ", ".join(pshow(got[i]) if i < len(got) else "-" for i in bad),
                          ", ".join(pshow(want[i]) for i in bad)),
                      construct=label + " formula")
    return ok


def r181(ctx, res):
    repo = ctx.repo
    a_ = [P("a%d" % i) for i in range(3)]
    b_ = [P("b%d" % i) for i in range(3)]
    s = P("s")

    def fresh():
        it = SymInterp(repo)
        return it, sym_vector(it, "a"), sym_vector(it, "b")

    V = repo.cls("Vector")
    n = 0
    it, a, b = fresh()
    _cmp(res, V.lookup("__add__"), "Vector + Vector", vec_components(it, it.method(a, "__add__", b)), [padd(a_[i], b_[i]) for i in range(3)])
    it, a, b = fresh()
    _cmp(res, V.lookup("__sub__"), "Vector - Vector", vec_components(it, it.method(a, "__sub__", b)), [padd(a_[i], b_[i], -1) for i in range(3)])
    it, a, b = fresh()
    dot = padd(padd(pmul(a_[0], b_[0]), pmul(a_[1], b_[1])), pmul(a_[2], b_[2]))
    _cmp(res, V.lookup("__mul__"), "Vector * Vector (dot)", [it.method(a, "__mul__", b)], [dot])
    it, a, b = fresh()
    _cmp(res, V.lookup("__mul__"), "Vector * scalar", vec_components(it, it.method(a, "__mul__", s)), [pmul(a_[i], s) for i in range(3)])
    it, a, b = fresh()
    _cmp(res, V.lookup("__rmul__"), "scalar * Vector", vec_components(it, it.method(a, "__rmul__", s)), [pmul(a_[i], s) for i in range(3)])
    it, a, b = fresh()
    _cmp(res, V.lookup("__neg__"), "-Vector", vec_components(it, it.method(a, "__neg__")), [pneg(a_[i]) for i in range(3)])
    it, a, b = fresh()
    cross = [padd(pmul(a_[1], b_[2]), pmul(a_[2], b_[1]), -1), padd(pmul(a_[2], b_[0]), pmul(a_[0], b_[2]), -1),
             padd(pmul(a_[0], b_[1]), pmul(a_[1], b_[0]), -1)]
    cr = it.method(a, "cross", b)
    ok_cross = _cmp(res, V.lookup("cross"), "Vector.cross", vec_components(it, cr), cross)
    it, a, b = fresh()
    p, q = sym_point(it, "p"), sym_point(it, "q")
    pc = [P("p" + c) for c in "xyz"]
    qc = [P("q" + c) for c in "xyz"]
    _cmp(res, V.lookup("__init__"), "Vector(P1, P2)", vec_components(it, it.new("Vector", p, q)), [padd(qc[i], pc[i], -1) for i in range(3)])
    _cmp(res, V.lookup("__init__"), "Vector(x, y, z)", vec_components(it, it.new("Vector", P("x"), P("y"), P("z"))), [P("x"), P("y"), P("z")])
    _cmp(res, V.lookup("__init__"), "Vector([x, y, z])", vec_components(it, it.new("Vector", [P("x"), P("y"), P("z")])), [P("x"), P("y"), P("z")])
    Pt = repo.cls("Point")
    _cmp(res, Pt.lookup("pv"), "Point.pv", vec_components(it, it.method(p, "pv")), pc)
    _cmp(res, Pt.lookup("__init__"), "Point(Vector)", vec_components(it, it.new("Point", sym_vector(it, "a"))), a_)
    it2 = SymInterp(repo)
    p2 = sym_point(it2, "p")
    v2 = sym_vector(it2, "a")
    ret = it2.method(p2, "move", v2)
    want = [padd(pc[i], a_[i]) for i in range(3)]
    _cmp(res, Pt.lookup("move"), "Point.move (receiver)", vec_components(it2, p2), want)
    _cmp(res, Pt.lookup("move"), "Point.move (return value)", vec_components(it2, ret), want)
    for name, want in (("zero", (0, 0, 0)), ("x_unit_vector", (1, 0, 0)), ("y_unit_vector", (0, 1, 0)), ("z_unit_vector", (0, 0, 1))):
        it3 = SymInterp(repo)
        m = V.lookup(name)
        if m is None:
            raise AnalysisError("Vector.%s not found" % name)
        z = it3.call_fn(m, [("class", "Vector")])
        _cmp(res, m, "Vector.%s()" % name, vec_components(it3, z), [C(c) for c in want])
    # identities re-derived on the normal forms (self-check of E4, and of the cross formula)
    if ok_cross and not any(f.rule == "R18.1" for f in res.findings):
        it, a, b = fresh()
        cr = it.method(a, "cross", b)
        t1 = it.method(a, "__mul__", cr)
        it4, a4, b4 = fresh()
        cr2 = it4.method(b4, "cross", a4)
        anti = [padd(x, y) for x, y in zip(vec_components(it, cr), vec_components(it4, cr2))]
        ok = t1 == {} and all(c == {} for c in anti)
        # Lagrange: |a x b|^2 = |a|^2 |b|^2 - (a.b)^2
        cc = vec_components(it, cr)
        lhs = padd(padd(pmul(cc[0], cc[0]), pmul(cc[1], cc[1])), pmul(cc[2], cc[2]))
        aa = padd(padd(pmul(a_[0], a_[0]), pmul(a_[1], a_[1])), pmul(a_[2], a_[2]))
        bb = padd(padd(pmul(b_[0], b_[0]), pmul(b_[1], b_[1])), pmul(b_[2], b_[2]))
        rhs = padd(pmul(aa, bb), pmul(dot, dot), -1)
        ok = ok and lhs == rhs
        res.ob("R18.1", V.lookup("cross").where(), "identities a.(a x b)=0, a x b=-(b x a), Lagrange", ok,
               "hold as identities of normal forms")
        if not ok:
            raise AnalysisError("E4 self-check failed: identities do not hold although the cross formula matched")
    ctx.require(res, "R18.1", res.instances.get("R18.1", 0), 18, "formula comparisons")


def r182(ctx, res):
    repo = ctx.repo
    n = 0
    for short in EXACT_OPS:
        fi = repo.fn(short)
        n += 1
        bad = []
        for c in walk_local(fi.node):
            if isinstance(c, ast.Call):
                name = txt(c.func)
                if (name in COERCERS and fi.resolve(name) is None) or name.startswith("math.") or name in ("Decimal", "Fraction"):
                    bad.append(c)
            if isinstance(c, ast.BinOp) and isinstance(c.op, ast.Pow) and isinstance(c.right, ast.Constant) \
                    and isinstance(c.right.value, float):
                bad.append(c)
            if isinstance(c, ast.BinOp) and isinstance(c.op, (ast.Div, ast.FloorDiv)):
                bad.append(c)
            if isinstance(c, ast.Constant) and isinstance(c.value, float):
                bad.append(c)
        ok = not bad
        res.ob("R18.2", fi.where(), fi.short, ok, "no coercion, division or float literal" if ok else "contains `%s`" % txt(bad[0])[:50])
        for c in bad[:1]:
            res.violation("R18.2", fi, c, "%s is part of the exact component algebra but contains `%s`, which converts or "
                          "leaves the coordinates' numeric type" % (fi.short, txt(c)[:60]), construct="%s coercion" % fi.short)
    ctx.require(res, "R18.2", n, 14, "exact operations")
    # the private helpers the exact operations call (`_scale`, `_combine`, `_dot`, ...) are part of the exact algebra too
    eng = ctx.types
    by_qual = {f.qual: f for f in repo.functions(include_visualization=False)}
    exact = [repo.fn(sn) for sn in EXACT_OPS]
    seen = {f.qual for f in exact}
    todo = list(exact)
    while todo:
        f = todo.pop()
        for c in walk_local(f.node):
            if not isinstance(c, ast.Call):
                continue
            for q in sorted(eng.call_targets.get((f.qual, id(c)), ())):
                h = by_qual.get(q)
                if h is None or q in seen or not h.module.name.endswith(("utils.vector", "geometry.point")):
                    continue
                if h.short in OUTSIDE_EXACT or (h.name.startswith("__") and h.name not in ("__init__",)):
                    continue  # length / normalized / ... are float operations by definition; they are not reached for exact results
                seen.add(q)
                todo.append(h)
                bad = [x for x in walk_local(h.node) if (isinstance(x, ast.Call) and ((txt(x.func) in COERCERS and h.resolve(txt(x.func)) is None)
                                                                                      or txt(x.func).startswith("math.")))
                       or (isinstance(x, ast.BinOp) and isinstance(x.op, (ast.Div, ast.FloorDiv)))
                       or (isinstance(x, ast.Constant) and isinstance(x.value, float))]
                ok = not bad
                res.ob("R18.2", h.where(), "%s (helper of %s)" % (h.short, f.short), ok,
                       "no coercion, division or float literal" if ok else "contains `%s`" % txt(bad[0])[:50])
                for x in bad[:1]:
                    res.violation("R18.2", h, x, "%s is called by the exact operation %s but contains `%s`, which converts or leaves "
                                  "the coordinates' numeric type" % (h.short, f.short, txt(x)[:60]), construct="%s coercion" % h.short)
    # (methods outside the exact algebra -- length, normalized, angle, hash, comparisons, and any new float-valued
    # convenience method -- may convert: the property is about the ring operations)
    vm = repo.module("utils.vector")
    for c in vm.classes.values():
        for m in c.methods.values():
            if m.short in EXACT_OPS or m.qual in seen:
                continue
            has = any(isinstance(x, ast.Call) and (txt(x.func) in COERCERS or txt(x.func).startswith("math.")) for x in walk_local(m.node))
            if has:
                res.ob("R18.2", m.where(), m.short + " (outside the exact algebra)", True,
                       OUTSIDE_EXACT.get(m.short, "a float-valued operation, not a ring operation"), nontrivial=False)


def r183(ctx, res):
    repo = ctx.repo
    fi = repo.fn("unify_types", "utils.util")
    table = None
    default = None
    # the rank table may be a local of unify_types, of a helper of its module that it calls, or a module-level constant
    cands = [n for n in walk_local(fi.node)]
    for c in walk_local(fi.node):
        if isinstance(c, ast.Call) and isinstance(c.func, ast.Name):
            b = fi.resolve(c.func.id)
            if b is not None and b.kind == "func" and b.target.module is fi.module:
                cands += list(walk_local(b.target.node))
    cands += [n for n in fi.module.tree.body if isinstance(n, ast.Assign)]
    for n in cands:
        if isinstance(n, ast.Assign) and isinstance(n.value, ast.Dict) and n.value.keys and all(isinstance(k, ast.Name) for k in n.value.keys) \
                and all(isinstance(v, ast.Constant) and isinstance(v.value, int) for v in n.value.values):
            table = {k.id: v.value for k, v in zip(n.value.keys, n.value.values)}
            table_name = n.targets[0].id
        elif isinstance(n, ast.Assign) and isinstance(n.value, (ast.Tuple, ast.List)) and len(n.value.elts) >= 3 and all(
                isinstance(p_, ast.Tuple) and len(p_.elts) == 2 for p_ in n.value.elts):
            # a sequence of (type, rank) / (rank, type) pairs
            pairs = {}
            for p_ in n.value.elts:
                a_, b_ = p_.elts
                if isinstance(a_, ast.Name) and isinstance(b_, ast.Constant) and isinstance(b_.value, int):
                    pairs[a_.id] = b_.value
                elif isinstance(b_, ast.Name) and isinstance(a_, ast.Constant) and isinstance(a_.value, int):
                    pairs[b_.id] = a_.value
            if len(pairs) == len(n.value.elts):
                table = pairs
                table_name = n.targets[0].id if isinstance(n.targets[0], ast.Name) else "?"
    # the fall-back rank: a pair (<const>, type(item)) in unify_types or in a function of its module that it calls
    bodies = [fi]
    for c in walk_local(fi.node):
        if isinstance(c, ast.Call) and isinstance(c.func, ast.Name):
            b = fi.resolve(c.func.id)
            if b is not None and b.kind == "func" and b.target.module is fi.module and all(b.target is not y for y in bodies):
                bodies.append(b.target)
    defaults = set()
    for fb in bodies:
        for c in walk_local(fb.node):
            if isinstance(c, ast.Tuple) and len(c.elts) == 2 and isinstance(c.elts[0], ast.Constant) \
                    and isinstance(c.elts[0].value, int) and txt(c.elts[1]).startswith("type("):
                defaults.add(c.elts[0].value)
    if len(defaults) == 1:
        default = defaults.pop()
    if table is None or default is None:
        raise AnalysisError("utils/util.py: the promotion table of unify_types has an unrecognised shape")
    want = ["Fraction", "Decimal", "float", "int"]
    ok = all(k in table for k in want) and table["Fraction"] < table["Decimal"] < table["float"] < table["int"] \
        and default < min(table.values())
    res.ob("R18.3", fi.where(), "promotion ranks", ok, "user(%s) < %s" % (default, " < ".join("%s(%s)" % (k, table.get(k)) for k in want)))
    if not ok:
        res.violation("R18.3", fi, fi.node, "promotion order is not user type > Fraction > Decimal > float > int: ranks %s, "
                      "user default %s (the result type is the minimum rank)" % (table, default), construct="promotion table order")
    # result type = min(...)[1], applied to every item
    src = [txt(n) for n in walk_local(fi.node) if isinstance(n, (ast.Assign, ast.Return))]
    uses_min = any("= min(" in s and s.endswith("[1]") for s in src)
    rets = [n for n in walk_local(fi.node) if isinstance(n, ast.Return)]
    applies = len(rets) == 1 and isinstance(rets[0].value, (ast.ListComp, ast.GeneratorExp)) and isinstance(rets[0].value.elt, ast.Call) \
        and len(rets[0].value.elt.args) == 1
    res.ob("R18.3", fi.where(), "result type is the minimum rank, applied to every item", uses_min and applies,
           "min(types)[1] converted over all items" if uses_min and applies else "shape not recognised")
    if not (uses_min and applies):
        if any("= max(" in s for s in src):
            res.violation("R18.3", fi, fi.node, "unify_types picks the maximum rank: the least general type wins", construct="promotion picks max")
        else:
            raise AnalysisError("utils/util.py: cannot recognise how unify_types selects / applies the result type")
    # constructors store promoted coordinates on every normal path
    for short, fields in (("Vector.__init__", {"_v"}), ("Point.__init__", {"x", "y", "z"})):
        ci = repo.fn(short)
        g = ctx.cfg(ci)
        good = set()
        from ..astutil import assigned_names

        def promoted(f, e, depth=0) -> bool:
            """the value is the result of unify_types(...): directly, through a local all of whose definitions are, or through
            a function / method of the package every return of which is (`coords = self._from_iterable(*args)`)"""
            if isinstance(e, ast.Call) and txt(e.func) == "unify_types":
                return True
            if isinstance(e, ast.Name) and e.id not in f.params:
                ds = assigned_names(f.node).get(e.id, [])
                return bool(ds) and all(isinstance(d, ast.Assign) and len(d.targets) == 1 and promoted(f, d.value, depth) for d in ds)
            if isinstance(e, ast.Call) and depth < 3:
                tgs = ctx.types.call_targets.get((f.qual, id(e)), set())
                hs = [ctx.types.fn_by_qual.get(q) for q in tgs]
                if not hs or any(h is None for h in hs):
                    return False
                for h in hs:
                    rets = [r for r in walk_local(h.node) if isinstance(r, ast.Return)]
                    if not rets or not all(r.value is not None and promoted(h, r.value, depth + 1) for r in rets):
                        return False
                return True
            return False

        for n in g.nodes.values():
            if isinstance(n.ast, ast.Assign) and promoted(ci, n.ast.value):
                tg = {x.attr for t in n.ast.targets for x in ast.walk(t) if isinstance(x, ast.Attribute)}
                if fields <= tg:
                    good.add(n.id)
        # no later store to the fields without promotion
        later = False
        for n in g.nodes.values():
            if isinstance(n.ast, ast.Assign) and n.id not in good:
                tg = {x.attr for t in n.ast.targets for x in ast.walk(t) if isinstance(x, ast.Attribute)}
                if tg & fields and any(n.id in g.reach([gid]) for gid in good):
                    later = True
        ok = bool(good) and g.must_pass(g.entry, g.exit, through_nodes=good) and not later
        res.ob("R18.3", ci.where(), short + " stores unify_types(...)", ok,
               "every normal path ends with the promoted coordinates" if ok else "a path stores unpromoted coordinates")
        if not ok:
            res.violation("R18.3", ci, ci.node, "%s can finish without promoting the coordinates to one common type" % short,
                          construct=short + " promotion bypass")


def r185_fresh_constants(ctx, res):
    """zero() and the unit vectors are what their names say on *every* call: each call builds a fresh Vector"""
    repo = ctx.repo
    ef = ctx.effects
    for name in ("zero", "x_unit_vector", "y_unit_vector", "z_unit_vector"):
        m = repo.cls("Vector").lookup(name)
        s_ = ef.summ[m.qual]
        shared = sorted(r for r in (s_.retS | s_.retE) if r.startswith("G:"))
        rets = [r for r in walk_local(m.node) if isinstance(r, ast.Return)]
        fresh_ctor = bool(rets) and all(isinstance(r.value, ast.Call) and txt(r.value.func) in ("cls", "Vector") for r in rets)
        ok = not m.memoized and not shared and fresh_ctor
        why = "builds a new Vector on every call" if ok else (
            "memoised (%s)" % ", ".join(m.decorators) if m.memoized else ("returns shared state %s" % shared if shared else "does not construct a new Vector"))
        res.ob("R18.5", m.where(), "Vector.%s() returns a fresh object" % name, ok, why)
        if not ok:
            res.violation("R18.5", m, m.node,
                          "Vector.%s() does not build a new Vector per call (%s): Vectors are mutable (v[i] = x, Line.move on a stored "
                          "support vector), so after one caller changes its copy the constant is no longer what its name says" % (name, why),
                          construct="Vector.%s shared instance" % name)


def r186_scale_covariant(ctx, res):
    """length is homogeneous of degree 1, normalized/unit and angle of degree 0, over the whole claimed range of
    magnitudes: none of them may decide anything by comparing a quantity of positive degree in the vector(s) with an
    absolute threshold (the tolerance or a non-zero literal) -- such a branch treats short vectors differently from
    long ones.  An exact comparison with zero (the zero vector has no direction) is not a threshold."""
    from ..astutil import expand_locals
    from .c15 import _degrees

    n = 0
    done = set()
    for name in ("length", "normalized", "unit", "angle"):
        m = ctx.repo.cls("Vector").lookup(name)
        if m is None:
            raise AnalysisError("Vector.%s not found" % name)
        vecs = tuple(m.params[:2])
        bad = []
        k = 0
        if m.qual in done:
            n += 1
            continue
        done.add(m.qual)
        for c in walk_local(m.node):
            if not (isinstance(c, ast.Compare) and len(c.ops) == 1):
                continue
            k += 1
            e = expand_locals(m.node, c, m.params)
            l, r = _degrees(e.left, vecs), _degrees(e.comparators[0], vecs)
            for a, b in ((l, r), (r, l)):
                if isinstance(a, tuple) and any(x > 0 for x in a) and (b == "eps" or (isinstance(b, tuple) and not any(b))):
                    bad.append((c, a))
        n += 1
        ok = not bad
        res.ob("R18.6", m.where(), "Vector.%s has no absolute threshold" % name, ok,
               "%d comparison(s), none of a positive-degree quantity with an absolute threshold" % k if ok else
               "`%s` (degree %s) compared with an absolute threshold" % (txt(bad[0][0])[:50], bad[0][1]))
        for c, a in bad[:1]:
            res.violation("R18.6", m, c, "Vector.%s branches on `%s`: a quantity of degree %s in the vector compared with an absolute "
                          "threshold, so vectors at the small end of the claimed range of magnitudes are treated as degenerate "
                          "(|normalized(v)| = 1 / the direction is lost for them)" % (name, txt(c)[:60], a),
                          construct="Vector.%s absolute threshold `%s`" % (name, txt(c)[:40]))
    ctx.require(res, "R18.6", n, 4, "scale-covariant operations")


def r187_constant_angle(ctx, res):
    """Vector.angle is acos(a.b / (|a||b|)) on its whole domain.  A branch that returns a *constant* angle (0, pi, ...) is
    the limit of that formula only where the sign of the cosine is known: every such return must be dominated by a
    condition that reads the dot product of the two operands (directly or through a local), or by an identity /
    equality test of the two operands (angle 0).  A constant returned under any other guard (a cross-product or
    parallel() test, a tolerance test on lengths) gives anti-parallel operands the angle of parallel ones."""
    from ..astutil import expand_locals
    from ..rcross import const_num

    m = ctx.repo.fn("Vector.angle")
    a, b = (tuple(m.params[:2]) + ("self", "other"))[:2]
    g = ctx.cfg(m)
    consts = [r for r in walk_local(m.node) if isinstance(r, ast.Return) and r.value is not None and
              (const_num(r.value) is not None or txt(r.value) in ("math.pi", "pi"))]
    bad = []
    for r in consts:
        nodes = g.nodes_of(r)
        aware = False
        for cn, _, _lab in (g.dominating_edges(nodes[0]) if nodes else []):
            e = g.nodes[cn].ast
            if not isinstance(e, ast.AST):
                continue
            e = expand_locals(m.node, e, m.params)
            for x in ast.walk(e):
                if isinstance(x, ast.BinOp) and isinstance(x.op, (ast.Mult, ast.MatMult)) and {txt(x.left), txt(x.right)} == {a, b}:
                    aware = True
                if isinstance(x, ast.Call) and isinstance(x.func, ast.Attribute) and x.func.attr in ("dot", "__mul__") and \
                        len(x.args) == 1 and {txt(x.func.value), txt(x.args[0])} == {a, b}:
                    aware = True
                if isinstance(x, ast.Compare) and len(x.ops) == 1 and isinstance(x.ops[0], (ast.Is, ast.Eq)) and \
                        {txt(x.left), txt(x.comparators[0])} == {a, b} and const_num(r.value) == 0:
                    aware = True
        if not aware:
            bad.append(r)
    ok = not bad
    res.ob("R18.7", m.where(), "Vector.angle: constant results only where the sign of the cosine is known", ok,
           "%d constant return(s), each dominated by a condition on the dot product of the operands" % len(consts) if ok else
           "`%s` is returned under a guard that does not read the dot product" % txt(bad[0])[:50])
    for r in bad[:1]:
        res.violation("R18.7", m, r, "Vector.angle returns the constant `%s` on a branch whose guards do not read the dot product of the "
                      "operands: collinear operands of opposite direction (cos = -1, angle pi) get the same constant as operands of "
                      "the same direction, so the result is not acos(a.b / (|a||b|))" % txt(r.value)[:30],
                      construct="Vector.angle constant return `%s`" % txt(r.value)[:30])


def run(ctx, res):
    res.explanation = (
        "The real code of the vector algebra (vector.py, point.py, util.py) is interpreted over symbolic coordinates "
        "(indeterminates of a polynomial ring with exact rational coefficients) and the resulting normal forms are "
        "compared with the textbook component formulas, for +, -, dot, scalar product from both sides, negation, "
        "cross, Vector(P1, P2), the two other constructor forms, Point.pv, Point(Vector), Point.move and the constant "
        "vectors; the identities a.(a x b)=0, a x b=-(b x a) and Lagrange are re-derived. The exact operations contain "
        "no coercion / division / float literal, the promotion ranks are user < Fraction < Decimal < float < int with "
        "the minimum selected and applied to every item, and both constructors store promoted coordinates on every "
        "path. No code is executed. |normalized(v)| = 1, direction preservation and Decimal behaviour are numeric and "
        "NOT decided."
    )
    r182(ctx, res)
    r185_fresh_constants(ctx, res)
    try:
        r181(ctx, res)
    except AnalysisError as e:
        if any(f.rule == "R18.2" for f in res.findings):
            res.note("R18.1 could not normalise an operation that R18.2 already reports as leaving the exact algebra: %s" % e)
        else:
            raise
    r183(ctx, res)
    r186_scale_covariant(ctx, res)
    k = check_acos(ctx, res, ctx.repo.fn("Vector.angle"), "R18.4")
    ctx.require(res, "R18.4", k, 1, "acos sites")
    r187_constant_angle(ctx, res)
    res.undecided_ob("|normalized(v)| = 1 and same direction over magnitudes 1e-6..1e6; angle in [0, pi] numerically; Decimal")
