"""C03 -- {polygon, polyhedron} x {polygon, polyhedron}.

Decides: R3.1 confinement for the three handlers; R3.2 swap closure of the
candidate collection (vertices of a in b AND vertices of b in a; faces of cph1
clipped by cph2 AND faces of cph2 clipped by cph1, feeding the same sets; the
edge-crossing family is symmetric through the helper); R3.3 the result
selection is ordered by dimension and the cardinality ladders map 0/1/2/more
elements to None / element / Segment / hull.
That the vertex set is the true one, Euler reassembly, hash deduplication and
the measures are NOT decided.
"""
from __future__ import annotations

import ast
import copy
from typing import Dict, List, Optional, Tuple

from ..astutil import chain_heads, if_chain, txt
from ..confinement import handler_functions, report_bypass, report_function, run_confinement
from ..model import AnalysisError, FunctionInfo, walk_local
from .c01 import BODY, handlers_of


def alpha_swap(node: ast.AST, a: str, b: str, extra: Dict[str, str]) -> str:
    class R(ast.NodeTransformer):
        def visit_Name(self, n):
            if n.id == a:
                return ast.copy_location(ast.Name(id=b, ctx=n.ctx), n)
            if n.id == b:
                return ast.copy_location(ast.Name(id=a, ctx=n.ctx), n)
            if n.id in extra:
                return ast.copy_location(ast.Name(id=extra[n.id], ctx=n.ctx), n)
            return n
    return txt(R().visit(copy.deepcopy(node)))


def r32(ctx, res):
    repo = ctx.repo
    n = 0
    # --- coplanar polygon/polygon branch
    fi = repo.fn("inter_convexpolygon_convexpolygon", "calc.intersection")
    a, b = fi.params[:2]
    loops = [x for x in walk_local(fi.node) if isinstance(x, ast.For)]
    vert = {}
    edge = []
    for lp in loops:
        it = txt(lp.iter)
        if it in ("%s.points" % a, "%s.points" % b) and isinstance(lp.target, ast.Name):
            v = lp.target.id
            owner = it.split(".")[0]
            other = b if owner == a else a
            ok = any(isinstance(s, ast.If) and txt(s.test) == "%s in %s" % (v, other) and any(
                isinstance(c, ast.Call) and isinstance(c.func, ast.Attribute) and c.func.attr == "add" and c.args
                and txt(c.args[0]) == v for x in s.body for c in ast.walk(x)) for s in lp.body)
            if ok:
                vert[owner] = lp
        if it in ("%s.segments()" % a, "%s.segments()" % b):
            edge.append(lp)
    for owner, other in ((a, b), (b, a)):
        n += 1
        ok = owner in vert
        res.ob("R3.2", fi.where(vert.get(owner, fi.node)), "%s: vertices of %s inside %s" % (fi.short, owner, other), ok,
               "loop `for p in %s.points: if p in %s: add`" % (owner, other) if ok else "family missing")
        if not ok:
            res.violation("R3.2", fi, fi.node, "coplanar polygons: the vertices of %s that lie in %s are never collected; a polygon "
                          "nested in the other (or overlapping with its corner inside) loses vertices of the result" % (owner, other),
                          construct="%s: vertex family of %s" % (fi.short, owner))
    if a in vert and b in vert:
        t1 = txt(vert[a])
        t2 = alpha_swap(vert[b], a, b, {vert[b].target.id: vert[a].target.id})
        if t1 != t2:
            res.note("%s: the two vertex-collection loops are not textual mirror images (both have the required shape "
                     "`for p in X.points: if p in Y: add p`)" % fi.short)
    n += 1
    ok = False
    why = "no loop over an edge cycle feeding the crossing helper"
    for lp in edge:
        owner = txt(lp.iter).split(".")[0]
        other = b if owner == a else a
        for c in ast.walk(lp):
            if isinstance(c, ast.Call) and isinstance(c.func, ast.Name) and c.func.id == "get_segment_convexpolygon_intersection_point_set" \
                    and len(c.args) == 2 and txt(c.args[0]) == lp.target.id and txt(c.args[1]) == other:
                ok = True
                why = ("edges of %s against the edge cycle of %s (the helper iterates %s.segments(), so every edge pair is "
                       "tested once: symmetric by construction)" % (owner, other, other))
    res.ob("R3.2", fi.where(), "%s: edge-crossing family" % fi.short, ok, why)
    if not ok:
        res.violation("R3.2", fi, fi.node, "coplanar polygons: edge x edge crossings are not collected: %s" % why,
                      construct="%s: edge crossing family" % fi.short)
    # every result of the coplanar branch lies behind all three families
    fams = [vert[x] for x in (a, b) if x in vert] + edge
    if fams:
        par_if = None
        for st in walk_local(fi.node):
            if isinstance(st, ast.If) and any(f_ in ast.walk(st) for f_ in fams[:1]):
                par_if = st
        scope = [fi.node]
        if par_if is not None:
            # innermost statement list that contains the families
            for st in walk_local(fi.node):
                if isinstance(st, ast.If):
                    for body in (st.body, st.orelse):
                        if all(any(f_ is x for x in body) for f_ in fams):
                            scope = body
        n += report_bypass(ctx, res, fi, "R3.2", fams, scope, "vertices of a in b, vertices of b in a, edge crossings")
    # --- polyhedron/polyhedron
    fj = repo.fn("inter_convexpolyhedron_convexpolyhedron", "calc.intersection")
    p, q = fj.params[:2]
    lps = [x for x in fj.node.body if isinstance(x, ast.For) and txt(x.iter) in ("%s.convex_polygons" % p, "%s.convex_polygons" % q)]
    owners = {txt(x.iter).split(".")[0]: x for x in lps}
    for owner, other in ((p, q), (q, p)):
        n += 1
        lp = owners.get(owner)
        ok = False
        if lp is not None:
            for c in ast.walk(lp):
                if isinstance(c, ast.Call) and isinstance(c.func, ast.Name) and c.func.id in (
                        "inter_convexpolygon_convexPolyhedron", "intersection") and len(c.args) == 2 \
                        and {txt(c.args[0]), txt(c.args[1])} == {other, lp.target.id}:
                    ok = True
        res.ob("R3.2", fj.where(lp or fj.node), "%s: faces of %s clipped by %s" % (fj.short, owner, other), ok,
               "loop present" if ok else "family missing")
        if not ok:
            res.violation("R3.2", fj, fj.node, "polyhedron x polyhedron: the faces of %s are never clipped by %s; the part of the "
                          "result's boundary that lies on %s is lost" % (owner, other, owner),
                          construct="%s: faces of %s" % (fj.short, owner))
    if owners:
        n += report_bypass(ctx, res, fj, "R3.2", list(owners.values()), fj.node.body, "faces of each polyhedron clipped by the other")
    if p in owners and q in owners:
        n += 1

        def routing(lp):
            """type of the clipped face -> set it is added to"""
            m = {}
            for st in ast.walk(lp):
                if isinstance(st, ast.If):
                    for test, body in if_chain(st)[0]:
                        for c in ast.walk(test):
                            if isinstance(c, ast.Call) and isinstance(c.func, ast.Name) and c.func.id == "isinstance" and len(c.args) == 2:
                                tys = [c.args[1].id] if isinstance(c.args[1], ast.Name) else [e.id for e in getattr(c.args[1], "elts", []) if isinstance(e, ast.Name)]
                                for b_ in body:
                                    for cc in ast.walk(b_):
                                        if isinstance(cc, ast.Call) and isinstance(cc.func, ast.Attribute) and cc.func.attr == "add" \
                                                and isinstance(cc.func.value, ast.Name):
                                            for t_ in tys:
                                                m[t_] = cc.func.value.id
            return m

        r1, r2 = routing(owners[p]), routing(owners[q])
        same = r1 == r2 and set(r1) >= {"Point", "Segment", "ConvexPolygon"}
        res.ob("R3.2", fj.where(owners[p]), "%s: both face loops route the clipped faces to the same sets" % fj.short, same,
               "routing %s" % r1 if same else "%s vs %s" % (r1, r2))
        if not same:
            res.violation("R3.2", fj, owners[q], "the two face-clipping loops of %s route their results differently (%s vs %s): parts found "
                          "from one side only are dropped or mis-filed" % (fj.short, r1, r2), construct="%s: face loops differ" % fj.short)
    ctx.require(res, "R3.2", n, 7, "swap-closure obligations")


DIM = {"Point": 0, "Segment": 1, "ConvexPolygon": 2, "ConvexPolyhedron": 3}


def r33(ctx, res):
    eng = ctx.types
    repo = ctx.repo
    n = 0
    # dimension-ordered selection in polyhedron x polyhedron
    fj = repo.fn("inter_convexpolyhedron_convexpolyhedron", "calc.intersection")
    chains = [x for x in fj.node.body if isinstance(x, ast.If)]
    sel = None
    for c in chains:
        rows, els = if_chain(c)
        if len(rows) >= 4 and all("len(" in txt(t) for t, _ in rows):
            sel = (rows, els)
    if sel is None:
        raise AnalysisError("%s: result-selection chain not found" % fj.where())
    rows, els = sel
    dims = []
    for test, body in rows:
        names = [x.args[0].id for x in ast.walk(test) if isinstance(x, ast.Call) and isinstance(x.func, ast.Name)
                 and x.func.id == "len" and x.args and isinstance(x.args[0], ast.Name)]
        if not names:
            raise AnalysisError("%s: unrecognised selection test `%s`" % (fj.where(test), txt(test)))
        names = names[:1]  # a compound test is classified by the first collection it looks at
        ty = set()
        for nm in ast.walk(test):
            if isinstance(nm, ast.Name) and nm.id == names[0]:
                for t in eng.types_at(fj, nm):
                    if isinstance(t, tuple) and t[0] in ("set", "list", "tuple"):
                        ty |= {str(x) for x in t[1]}
        ds = {DIM[t] for t in ty if t in DIM}
        if len(ds) != 1:
            raise AnalysisError("%s: element type of %s unresolved (%s)" % (fj.where(test), names[0], ty))
        dims.append((ds.pop(), names[0], test))
    n += 1
    order = [d for d, _, _ in dims]
    ok = all(order[i] >= order[i + 1] for i in range(len(order) - 1)) and order[0] == 2 and order[-1] == 0
    res.ob("R3.3", fj.where(rows[0][0]), "%s: selection ordered by dimension" % fj.short, ok,
           "tests in the order %s" % [(nm, d) for d, nm, _ in dims])
    if not ok:
        res.violation("R3.3", fj, rows[0][0], "the result selection of %s does not prefer the higher-dimensional parts: order of "
                      "the tested sets is %s" % (fj.short, [(nm, d) for d, nm, _ in dims]), construct="%s: selection order" % fj.short)
    # cardinality ladders:  len(X) == 0 -> None, == 1 -> element, == 2 -> Segment / longest segment, more -> hull
    handlers, helpers, inter = handler_functions(ctx)
    for fi in handlers:
        if not eng.summaries_of(fi):
            continue
        for st in chain_heads(fi.node):
            rows, els = if_chain(st)
            ladder = {}
            var = None
            for test, body in rows:
                if isinstance(test, ast.Compare) and len(test.ops) == 1 and isinstance(test.ops[0], ast.Eq) \
                        and isinstance(test.left, ast.Call) and txt(test.left.func) == "len" and isinstance(test.left.args[0], ast.Name) \
                        and isinstance(test.comparators[0], ast.Constant) and isinstance(test.comparators[0].value, int):
                    var = test.left.args[0].id
                    ladder[test.comparators[0].value] = body
            if var is None or not ({1, 2} & set(ladder)):
                continue
            ty = set()
            for nm in ast.walk(st.test):
                if isinstance(nm, ast.Name) and nm.id == var:
                    for t in eng.types_at(fi, nm):
                        if isinstance(t, tuple) and t[0] in ("set", "list", "tuple"):
                            ty |= {str(x) for x in t[1]}
            if ty != {"Point"}:
                continue
            n += 1
            problems = []
            if 0 in ladder:
                r = [x for x in ladder[0] if isinstance(x, ast.Return)]
                if not (r and (r[0].value is None or txt(r[0].value) == "None")):
                    problems.append("0 points must give None")
            if 1 in ladder:
                r = [x for x in ladder[1] if isinstance(x, ast.Return)]
                tv = eng.types_at(fi, r[0].value) if r and r[0].value is not None else frozenset()
                if not r or set(map(str, tv)) != {"Point"}:
                    problems.append("1 point must give that Point (got %s)" % sorted(map(str, tv)))
            if 2 in ladder:
                r = [x for x in ladder[2] if isinstance(x, ast.Return)]
                tv = eng.types_at(fi, r[0].value) if r and r[0].value is not None else frozenset()
                if not r or set(map(str, tv)) != {"Segment"}:
                    problems.append("2 points must give a Segment (got %s)" % sorted(map(str, tv)))
            ok = not problems
            res.ob("R3.3", fi.where(st), "%s: cardinality ladder on %s" % (fi.short, var), ok,
                   "0 -> None, 1 -> Point, 2 -> Segment" if ok else "; ".join(problems))
            if not ok:
                res.violation("R3.3", fi, st, "%s maps the number of collected points to the wrong kind of result: %s" % (
                    fi.short, "; ".join(problems)), construct="%s: ladder on %s" % (fi.short, var))
    ctx.require(res, "R3.3", n, 8, "selection obligations")


def run(ctx, res):
    res.explanation = (
        "Compositional confinement analysis of the three body x body handlers (every returned vertex set / hull lies in "
        "both operands), swap closure of the candidate collection (vertices of a in b and of b in a, alpha-equivalent; "
        "edge crossings through the symmetric helper; faces of each polyhedron clipped by the other feeding the same "
        "sets), dimension-ordered result selection and the cardinality ladders 0/1/2 points -> None/Point/Segment in all "
        "handlers. NOT decided: that the collected vertex set is the true one, Euler reassembly, hash deduplication of "
        "faces found from both sides, areas and volumes."
    )
    cf = run_confinement(ctx)
    hs = handlers_of(ctx, lambda t: t[0] in BODY and t[1] in BODY)
    ctx.require(res, "R3.1", len(hs), 3, "body x body handlers")
    total = 0
    for fi in hs:
        total += report_function(ctx, res, cf, fi, "R3.1")
    res.count("return sites", total)
    r32(ctx, res)
    r33(ctx, res)
    res.undecided_ob("the collected vertex set is the true vertex set; Euler reassembly; dedup of faces by hash; measures")
