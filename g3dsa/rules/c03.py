"""C03 -- {polygon, polyhedron} x {polygon, polyhedron}.

Decides: R3.1 confinement for the three handlers; R3.2 swap closure of the
candidate collection (vertices of a in b AND vertices of b in a; faces of cph1
clipped by cph2 AND faces of cph2 clipped by cph1, feeding the same sets; the
edge-crossing family is symmetric through the helper); R3.3 the result
selection is ordered by dimension and the cardinality ladders map 0/1/2/more
elements to None / element / Segment / hull.
That the vertex set is the true one, Euler reassembly, hash deduplication and
the measures are NOT decided.
"""
from __future__ import annotations

import ast
import copy
from typing import Dict, List, Optional, Tuple

from ..astutil import chain_heads, if_chain, txt
from ..confinement import handler_functions, report_bypass, report_function, run_confinement
from ..model import AnalysisError, FunctionInfo, walk_local
from .c01 import BODY, handlers_of


def alpha_swap(node: ast.AST, a: str, b: str, extra: Dict[str, str]) -> str:
    class R(ast.NodeTransformer):
        def visit_Name(self, n):
            if n.id == a:
                return ast.copy_location(ast.Name(id=b, ctx=n.ctx), n)
            if n.id == b:
                return ast.copy_location(ast.Name(id=a, ctx=n.ctx), n)
            if n.id in extra:
                return ast.copy_location(ast.Name(id=extra[n.id], ctx=n.ctx), n)
            return n
    return txt(R().visit(copy.deepcopy(node)))


def r32(ctx, res):
    """swap closure and completeness of the candidate collection, on origin families"""
    from ..origins import check_families

    repo = ctx.repo
    n = 0
    fi = repo.fn("inter_convexpolygon_convexpolygon", "calc.intersection")
    a, b = fi.params[:2]
    edge = "hit(%s)" % " | ".join(sorted(["%s.segments()[*]" % a, "%s.segments()[*]" % b]))
    n += check_families(ctx, res, "R3.2", fi, ["%s.points[*]" % a, "%s.points[*]" % b, edge],
                        "vertices of a in b, vertices of b in a, edge x edge crossings (coplanar case)")
    fj = repo.fn("inter_convexpolyhedron_convexpolyhedron", "calc.intersection")
    p, q = fj.params[:2]
    req = ["hit(%s)" % " | ".join(sorted(["%s.convex_polygons[*]" % p, q])),
           "hit(%s)" % " | ".join(sorted(["%s.convex_polygons[*]" % q, p]))]
    n += check_families(ctx, res, "R3.2", fj, req, "faces of each polyhedron clipped by the other", quick_rejection=True)
    ctx.require(res, "R3.2", n, 7, "swap-closure obligations")


DIM = {"Point": 0, "Segment": 1, "ConvexPolygon": 2, "ConvexPolyhedron": 3}


def r33(ctx, res):
    eng = ctx.types
    repo = ctx.repo
    n = 0
    # dimension-ordered selection in polyhedron x polyhedron
    fj = repo.fn("inter_convexpolyhedron_convexpolyhedron", "calc.intersection")
    # the selection is an if/elif chain, or a sequence of `if len(X) ...: return / raise` statements at body level:
    # either way the tests are evaluated in source order
    from ..astutil import unrolled_body
    from .c15 import expand_guard as _eg
    chains = [x for x in unrolled_body(fj.node, fj.params) if isinstance(x, ast.If)]
    rows = []
    for c in chains:
        rws, els = if_chain(c)
        rws = [(_eg(fj, t), b) for t, b in rws]  # a hoisted count (`num = len(cpg_set); if num > 1`) reads as the len() test
        if all("len(" in txt(t) for t, _ in rws):
            terminating = all(b and isinstance(b[-1], (ast.Return, ast.Raise)) for _, b in rws)
            if len(rws) >= 4 or terminating:
                rows += rws
            if not terminating and len(rws) < 4:
                rows = []
    if len(rows) < 4:
        raise AnalysisError("%s: result-selection chain not found" % fj.where())
    dims = []
    for test, body in rows:
        names = [x.args[0].id for x in ast.walk(test) if isinstance(x, ast.Call) and isinstance(x.func, ast.Name)
                 and x.func.id == "len" and x.args and isinstance(x.args[0], ast.Name)]
        if not names:
            raise AnalysisError("%s: unrecognised selection test `%s`" % (fj.where(test), txt(test)))
        names = names[:1]  # a compound test is classified by the first collection it looks at
        ty = set()
        for nm in walk_local(fj.node):
            if isinstance(nm, ast.Name) and nm.id == names[0]:
                for t in eng.types_at(fj, nm):
                    if isinstance(t, tuple) and t[0] in ("set", "list", "tuple"):
                        ty |= {str(x) for x in t[1]}
        ds = {DIM[t] for t in ty if t in DIM}
        if len(ds) != 1:
            raise AnalysisError("%s: element type of %s unresolved (%s)" % (fj.where(test), names[0], ty))
        dims.append((ds.pop(), names[0], test))
    n += 1
    order = [d for d, _, _ in dims]
    ok = all(order[i] >= order[i + 1] for i in range(len(order) - 1)) and order[0] == 2 and order[-1] == 0
    res.ob("R3.3", fj.where(rows[0][0]), "%s: selection ordered by dimension" % fj.short, ok,
           "tests in the order %s" % [(nm, d) for d, nm, _ in dims])
    if not ok:
        res.violation("R3.3", fj, rows[0][0], "the result selection of %s does not prefer the higher-dimensional parts: order of "
                      "the tested sets is %s" % (fj.short, [(nm, d) for d, nm, _ in dims]), construct="%s: selection order" % fj.short)
    # cardinality ladders:  len(X) == 0 -> None, == 1 -> element, == 2 -> Segment / longest segment, more -> hull
    handlers, helpers, inter = handler_functions(ctx)
    from .c15 import expand_guard
    mod = repo.module("calc.intersection")
    for fi in [f for f in mod.functions.values() if f is not inter]:
        if not eng.summaries_of(fi):
            continue
        # one ladder per counted collection: an if/elif chain, or consecutive `if len(X) == k: return ...` statements
        groups = {}
        for st in [x for x in walk_local(fi.node) if isinstance(x, ast.If)]:
            test = expand_guard(fi, st.test)
            if isinstance(test, ast.Compare) and len(test.ops) == 1 and isinstance(test.ops[0], ast.Eq) \
                    and isinstance(test.left, ast.Call) and txt(test.left.func) == "len" and isinstance(test.left.args[0], ast.Name) \
                    and isinstance(test.comparators[0], ast.Constant) and isinstance(test.comparators[0].value, int):
                groups.setdefault(test.left.args[0].id, []).append((test.comparators[0].value, st))
        for var0, items in sorted(groups.items()):
            st = min((x[1] for x in items), key=lambda z: z.lineno)
            ladder = {k: s_.body for k, s_ in items}
            var = var0
            if var is None or not ({1, 2} & set(ladder)):
                continue
            ty = set()
            for nm in walk_local(fi.node):
                if isinstance(nm, ast.Name) and nm.id == var:
                    for t in eng.types_at(fi, nm):
                        if isinstance(t, tuple) and t[0] in ("set", "list", "tuple"):
                            ty |= {str(x) for x in t[1]}
            if ty != {"Point"}:
                continue
            n += 1
            problems = []
            if 0 in ladder:
                r = [x for x in ladder[0] if isinstance(x, ast.Return)]
                if not (r and (r[0].value is None or txt(r[0].value) == "None")):
                    problems.append("0 points must give None")
            if 1 in ladder:
                r = [x for x in ladder[1] if isinstance(x, ast.Return)]
                tv = eng.types_at(fi, r[0].value) if r and r[0].value is not None else frozenset()
                if not r or set(map(str, tv)) != {"Point"}:
                    problems.append("1 point must give that Point (got %s)" % sorted(map(str, tv)))
            if 2 in ladder:
                r = [x for x in ladder[2] if isinstance(x, ast.Return)]
                tv = eng.types_at(fi, r[0].value) if r and r[0].value is not None else frozenset()
                if not r or set(map(str, tv)) != {"Segment"}:
                    problems.append("2 points must give a Segment (got %s)" % sorted(map(str, tv)))
            ok = not problems
            res.ob("R3.3", fi.where(st), "%s: cardinality ladder on %s" % (fi.short, var), ok,
                   "0 -> None, 1 -> Point, 2 -> Segment" if ok else "; ".join(problems))
            if not ok:
                res.violation("R3.3", fi, st, "%s maps the number of collected points to the wrong kind of result: %s" % (
                    fi.short, "; ".join(problems)), construct="%s: ladder on %s" % (fi.short, var))
    ctx.require(res, "R3.3", n, 2, "selection obligations")


def run(ctx, res):
    res.explanation = (
        "Compositional confinement analysis of the three body x body handlers (every returned vertex set / hull lies in "
        "both operands), swap closure of the candidate collection (vertices of a in b and of b in a, alpha-equivalent; "
        "edge crossings through the symmetric helper; faces of each polyhedron clipped by the other feeding the same "
        "sets), dimension-ordered result selection and the cardinality ladders 0/1/2 points -> None/Point/Segment in all "
        "handlers. NOT decided: that the collected vertex set is the true one, Euler reassembly, hash deduplication of "
        "faces found from both sides, areas and volumes."
    )
    cf = run_confinement(ctx)
    hs = handlers_of(ctx, lambda t: t[0] in BODY and t[1] in BODY)
    from .c04 import report_binding_slips
    ctx.require(res, "R3.9", report_binding_slips(ctx, res, "R3.9", hs), 2, "handlers bound by the dispatcher")
    from ..confinement import numeric_rejections
    res.count("numeric rejections", numeric_rejections(ctx, res, "R3.4", hs, "body x body handlers"))
    # R3.5 vertices / faces found from both sides are merged by the objects' tolerant equality, never by raw coordinates
    from ..exact import report_coordinate_keys
    from ..confinement import handler_functions
    _h, helpers_, _i = handler_functions(ctx)
    k5 = report_coordinate_keys(ctx, res, "R3.5", hs + [h for h in helpers_ if h not in hs], "the intersection code")
    ctx.require(res, "R3.5", k5, 4, "functions of the intersection code scanned")
    ctx.require(res, "R3.1", len(hs), 3, "body x body handlers")
    total = 0
    for fi in hs:
        total += report_function(ctx, res, cf, fi, "R3.1")
    res.count("return sites", total)
    r32(ctx, res)
    r33(ctx, res)
    # R3.6 the collinearity helper that guards the coplanar polygon / polygon routine tests every point (coverage.py)
    from ..coverage import check_collinearity_helper
    kc = check_collinearity_helper(ctx, res, "R3.6")
    ctx.require(res, "R3.6", kc, 2, "return sites of points_in_a_line")
    # R3.8 the handlers' internal sanity raises ('Bug detected') are unreachable: by the E1 types of the value switched on,
    # by an equality the callee already decided, propositionally, or by the number of add sites (the analysis of C04 R4.7)
    from .c04 import r47
    r47(ctx, res, scope=list(hs), rule="R3.8", need=1)
    # R3.10 positions and directions are not confused in the handlers and in the constructors of the operands (affine.py)
    from ..affine import affine_scope, report_affine
    k10 = report_affine(ctx, res, "R3.10", affine_scope(ctx, hs, ("Segment", "ConvexPolygon", "ConvexPolyhedron")), "the intersection")
    ctx.require(res, "R3.10", k10, 10, "function contexts examined for position / direction mismatches")
    # R3.11 no computed value is rounded on its way into the result (exact.report_rounding)
    from ..exact import report_rounding
    from ..affine import affine_scope as _ascope
    kr = report_rounding(ctx, res, "R3.11", _ascope(ctx, hs, ()), "the intersection")
    ctx.require(res, "R3.11", kr, 5, "functions scanned for rounding")
    # R3.7 the linear solver picks its pivot row by the pivot column (coverage.py)
    from ..coverage import check_pivot_choice
    check_pivot_choice(ctx, res, "R3.7")
    res.undecided_ob("the collected vertex set is the true vertex set; Euler reassembly; dedup of faces by hash; measures")
