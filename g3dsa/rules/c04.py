"""C04 -- intersection is total, symmetric and typed over all operand type pairs.

Decides (for all inputs, from the shape of the code): R4.1 totality of the
dispatch over the 49 ordered type pairs, R4.2 handler binding, R4.3 symmetry by
construction, R4.4 method form, R4.5 None absorbing, R4.6 result types within
the documented sets, R4.7 internal raises unreachable (by types, by equality
correlation, by propositional exhaustiveness, by add-count), R4.8 membership
tests used by the handlers never fall through to NotImplementedError.
Undecided: raises guarded only by runtime cardinalities / numeric geometry
(listed), and "denotes the same set" for a handler applied to swapped operands
of one type.
"""
from __future__ import annotations

import ast
import itertools
import os
import re
from typing import Dict, List, Optional, Set, Tuple

from ..astutil import enclosing_chain_else, if_chain, parents, root_name, txt
from ..membership import is_type_test, resolve
from ..model import GEOM7, AnalysisError, FunctionInfo, norm_text, walk_local
from ..types import BOT, S, has_unknown, is_unknown, show

CALC_MODS = ("Geometry3D.calc.intersection", "Geometry3D.calc.aux_calc")


def is_type_forwarder(fi) -> bool:
    """a sub-dispatcher: isinstance tests on its parameters guarding returns that forward the parameters to another
    function (e.g. `_inter_line_any(l, other)`), nothing else"""
    has_test = False
    for st in walk_local(fi.node):
        if isinstance(st, ast.Return):
            v = st.value
            if not (isinstance(v, ast.Call) and isinstance(v.func, ast.Name) and v.args and not v.keywords
                    and all(isinstance(a, ast.Name) and a.id in fi.params for a in v.args)):
                return False
        elif isinstance(st, ast.If):
            if any(isinstance(c, ast.Call) and isinstance(c.func, ast.Name) and c.func.id == "isinstance" for c in ast.walk(st.test)):
                has_test = True
        elif isinstance(st, ast.stmt) and not isinstance(st, (ast.Raise, ast.Pass, ast.FunctionDef)) \
                and not (isinstance(st, ast.Expr) and isinstance(st.value, ast.Constant)):
            return False
    return has_test


def dispatch_info(ctx):
    """pair -> list of (return stmt of the dispatcher, handler qual or None, (type param0, type param1), operand names).
    Rows that forward to a sub-dispatcher (a type-dispatching forwarder) are resolved through it to the handler that
    finally runs, with the operand each of its parameters receives."""
    if "c04.dispatch" in ctx.cache:
        return ctx.cache["c04.dispatch"]
    repo, eng = ctx.repo, ctx.types
    inter = repo.fn("intersection", "calc.intersection")
    rets = [n for n in walk_local(inter.node) if isinstance(n, ast.Return)]
    raises = [n for n in walk_local(inter.node) if isinstance(n, ast.Raise)]
    info = {}
    pa, pb = inter.params[:2]

    def resolve(fn, bound, call, names, depth=0):
        """-> (handler qual, ptypes, operand names) for `call` evaluated in (fn, bound); names: local name -> operand"""
        tg = sorted(eng.call_targets.get((fn.qual, id(call)), ()))
        h = tg[0] if len(tg) == 1 else None
        ptypes = tuple(eng.ctx_node_types.get((fn.qual, bound, id(a)), BOT) for a in call.args)
        argn = tuple(names.get(a.id, a.id) if isinstance(a, ast.Name) else txt(a) for a in call.args)
        if h is None or depth >= 3:
            return h, ptypes, argn
        hf = eng.fn_by_qual.get(h)
        if hf is None or hf.cls is not None or not is_type_forwarder(hf) or len(hf.params) != len(call.args):
            return h, ptypes, argn
        if not all(len(t) == 1 for t in ptypes):
            return h, ptypes, argn
        hb = eng._bind(hf, ptypes, {})
        hs = eng.memo.get((hf.qual, hb))
        if hs is None:
            return h, ptypes, argn
        rr = [x for x in walk_local(hf.node) if isinstance(x, ast.Return) and id(x) in hs.reached]
        if len(rr) != 1 or any(id(x) in hs.reached for x in walk_local(hf.node) if isinstance(x, ast.Raise)):
            return h, ptypes, argn
        return resolve(hf, hb, rr[0].value, dict(zip(hf.params, argn)), depth + 1)

    for ta, tb in itertools.product(GEOM7 + ["None"], repeat=2):
        bound = eng._bind(inter, (S(ta), S(tb)), {})
        sm = eng.memo.get((inter.qual, bound))
        if sm is None:
            raise AnalysisError("no summary for intersection(%s, %s)" % (ta, tb))
        rows = []
        for r in rets:
            if id(r) not in sm.reached:
                continue
            h, ptypes, argn = None, None, None
            if isinstance(r.value, ast.Call):
                # locals that hold an operand (`first, second = b, a`): identified by their type in this context
                names = {pa: pa, pb: pb}
                k = 0
                for a in r.value.args:
                    if isinstance(a, ast.Name) and a.id not in names:
                        ty = set(map(str, eng.ctx_node_types.get((inter.qual, bound, id(a)), BOT)))
                        if ta != tb and ty == {ta}:
                            names[a.id] = pa
                        elif ta != tb and ty == {tb}:
                            names[a.id] = pb
                        elif ta == tb and ty == {ta}:
                            names[a.id] = (pa, pb)[min(k, 1)]
                            k += 1
                h, ptypes, argn = resolve(inter, bound, r.value, names)
            rows.append((r, h, ptypes, argn))
        rz = [x for x in raises if id(x) in sm.reached]
        info[(ta, tb)] = {"returns": rows, "raises": rz, "summary": sm, "bound": bound}
    ctx.cache["c04.dispatch"] = (inter, rets, raises, info)
    return ctx.cache["c04.dispatch"]


def scope_functions(ctx) -> List[FunctionInfo]:
    """functions of calc/intersection.py and calc/aux_calc.py reachable from intersection()"""
    if "c04.scope" in ctx.cache:
        return ctx.cache["c04.scope"]
    repo, eng = ctx.repo, ctx.types
    inter = repo.fn("intersection", "calc.intersection")
    graph: Dict[str, Set[str]] = {}
    for (q, _), tgs in eng.call_targets.items():
        graph.setdefault(q, set()).update(tgs)
    seen = set()
    todo = [inter.qual]
    while todo:
        q = todo.pop()
        if q in seen:
            continue
        seen.add(q)
        todo.extend(graph.get(q, ()))
    out = [eng.fn_by_qual[q] for q in sorted(seen) if eng.fn_by_qual[q].module.name in CALC_MODS]
    ctx.cache["c04.scope"] = out
    return out


def report_binding_slips(ctx, res, rule: str, hs) -> int:
    """the handlers in hs are called by the dispatcher with one orientation of their operand types (no (a, b)/(b, a) slip)"""
    inter, rets, raises, info = dispatch_info(ctx)
    eng = ctx.types
    handler_bind: Dict[str, Set] = {}
    for (ta, tb), d in info.items():
        if ta == "None" or tb == "None" or d["raises"] or len(d["returns"]) != 1:
            continue
        r, h, pt, an = d["returns"][0]
        if h is None or pt is None or len(pt) != 2:
            continue
        handler_bind.setdefault(h, set()).add(tuple(show(x) for x in pt))
    n = 0
    for fi in hs:
        bs = handler_bind.get(fi.qual)
        if not bs:
            continue
        n += 1
        ok = not any((y, x) in bs for (x, y) in bs if x != y)
        res.ob(rule, fi.where(), "%s: operand binding" % fi.short, ok, "bound operand types %s at every dispatch row" % sorted(bs))
        if not ok:
            res.violation(rule, fi, fi.node,
                          "handler %s is called by the dispatcher with its operands in both orders %s (an (a, b)/(b, a) slip in a "
                          "dispatch row): one of the two orders hands it a %s where it expects a %s"
                          % (fi.short, sorted(bs), sorted(bs)[0][0], sorted(bs)[0][1]), construct="binding of " + fi.short)
    return n


# ---------------------------------------------------------------- R4.1 - R4.3
def r41_r43(ctx, res):
    inter, rets, raises, info = dispatch_info(ctx)
    eng = ctx.types
    n_pairs = sum(1 for (ta, tb), d in info.items() if ta != "None" and tb != "None" and len(d["returns"]) == 1 and not d["raises"])
    ctx.require(res, "R4.1", max(n_pairs, 1), 1, "ordered operand pairs that reach a handler")
    bindings: Dict[Tuple[str, str], Set] = {}
    handler_bind: Dict[str, Set] = {}
    reached_rets = set()
    for (ta, tb), d in info.items():
        for r, h, pt, an in d["returns"]:
            reached_rets.add(id(r))
        if ta == "None" or tb == "None":
            continue
        where = "%s (%s, %s)" % (inter.where(), ta, tb)
        if d["raises"]:
            rz = d["raises"][0]
            res.ob("R4.1", where, "pair (%s, %s)" % (ta, tb), False, "falls through to `%s`" % txt(rz)[:60])
            res.violation(
                "R4.1", inter, rz,
                "intersection(%s, %s) reaches no handler: first-match evaluation of the dispatch falls through to `%s`"
                % (ta, tb, txt(rz)[:50]),
                construct="pair (%s, %s) -> raise" % (ta, tb),
                detail={"rule": "every ordered pair of the 7 operand types must reach a handler call"},
            )
            continue
        if len(d["returns"]) != 1:
            raise AnalysisError("pair (%s,%s) reaches %d returns in the dispatcher" % (ta, tb, len(d["returns"])))
        r, h, pt, an = d["returns"][0]
        res.ob("R4.1", where, "pair (%s, %s)" % (ta, tb), True,
               "first matching row: line %d -> %s%s" % (r.lineno, (h or "?").split(":")[-1], an))
        if h is None or pt is None or len(pt) != 2:
            raise AnalysisError("%s: dispatcher row does not forward to a single resolved 2-argument handler"
                                % inter.where(r))
        params = set(inter.params[:2])
        ok_args = set(an) == params and len(an) == 2
        res.ob("R4.2", inter.where(r), "%s%s" % (h.split(":")[-1], an), ok_args,
               "arguments are the two operands in some order")
        if not ok_args:
            res.violation("R4.2", inter, r,
                          "row for (%s, %s) does not pass both operands to its handler: %s" % (ta, tb, txt(r.value)),
                          construct="pair (%s, %s) args %s" % (ta, tb, an))
        bt = (h, tuple(show(x) for x in pt))
        bindings[(ta, tb)] = bt
        handler_bind.setdefault(h, set()).add(bt[1])
    # dead rows
    par = parents(inter.node)
    for r in rets:
        if id(r) in reached_rets:
            continue
        test = None
        p = par.get(id(r))
        if isinstance(p, ast.If):
            test = p.test
        res.ob("R4.1", inter.where(r), txt(test) if test is not None else txt(r), False, "row matches no operand pair")
        res.violation("R4.1", inter, r,
                      "dead dispatch row: no pair of operand types (nor None) satisfies `%s` under first-match evaluation"
                      % (txt(test) if test is not None else "?"),
                      construct="dead row: " + (txt(test) if test is not None else txt(r)))
    # R4.2: one binding per handler
    for h, bs in sorted(handler_bind.items()):
        fi = eng.fn_by_qual[h]
        # a handler shared by several pairs (a polymorphic second operand) is fine; the same two types in both
        # orders is the (a, b)/(b, a) slip
        ok = not any((y, x) in bs for (x, y) in bs if x != y)
        res.ob("R4.2", fi.where(), fi.short, ok, "bound operand types %s at every dispatch row" % sorted(bs))
        if not ok:
            res.violation("R4.2", fi, fi.node,
                          "handler %s is called with different operand-type bindings %s (an (a, b)/(b, a) slip)"
                          % (fi.short, sorted(bs)), construct="binding of " + fi.short)
    ctx.require(res, "R4.2", sum(len(bs) for bs in handler_bind.values()), 28, "handler bindings (unordered operand pairs) reached from the dispatcher")
    # R4.2: attributes used on a parameter exist on the bound class (E1 anomalies in the handlers)
    scope = {f.qual for f in scope_functions(ctx)}
    seen = set()
    for q, ln, text in eng.anomalies:
        if q in scope and (q, ln, text) not in seen and (
                "is not defined on" in text or "call of non-callable" in text or "without __getitem__" in text
                or "without __contains__" in text or "on None" in text):
            seen.add((q, ln, text))
            fi = eng.fn_by_qual[q]
            res.ob("R4.2", "%s:%d" % (fi.module.relpath, ln), text, False, "operation not available on the inferred type")
            res.violation("R4.2", fi, ln, "in a context reached from the dispatcher: " + text,
                          construct=text)
    # R4.3: symmetry by construction
    n_sym = 0
    for ta, tb in itertools.combinations(GEOM7, 2):
        if (ta, tb) not in bindings or (tb, ta) not in bindings:
            continue
        n_sym += 1
        b1, b2 = bindings[(ta, tb)], bindings[(tb, ta)]
        ok = b1 == b2
        res.ob("R4.3", inter.where(), "{%s, %s}" % (ta, tb), ok,
               "both orders call %s with parameter types %s" % (b1[0].split(":")[-1], b1[1]))
        if not ok:
            r = info[(tb, ta)]["returns"][0][0]
            res.violation("R4.3", inter, r,
                          "intersection(%s, %s) runs %s%s but intersection(%s, %s) runs %s%s: the two argument orders "
                          "do not execute the same computation" % (ta, tb, b1[0].split(":")[-1], b1[1], tb, ta,
                                                                    b2[0].split(":")[-1], b2[1]),
                          construct="asymmetric {%s, %s}" % (ta, tb))
    res.count("unordered mixed pairs compared", n_sym)


# ---------------------------------------------------------------- R4.4
def r44(ctx, res):
    repo = ctx.repo
    inter = repo.fn("intersection", "calc.intersection")
    n = 0
    for cname in GEOM7:
        c = repo.cls(cname)
        m = c.lookup("intersection")
        if cname == "Point":
            ok = m is None
            res.ob("R4.4", c.module.relpath, "Point.intersection", True,
                   "Point defines no method form (as documented)" if ok else "Point has a method form: " + m.qual,
                   nontrivial=False)
            continue
        n += 1
        if m is None:
            res.ob("R4.4", c.module.relpath, cname + ".intersection", False, "no method form")
            res.violation("R4.4", None, c.node, "%s has no intersection method" % cname,
                          construct=cname + ".intersection missing", file=c.module.relpath, function=cname)
            continue
        rets = [x for x in walk_local(m.node) if isinstance(x, ast.Return)]
        ok = False
        why = "does not forward"
        if len(rets) == 1 and isinstance(rets[0].value, ast.Call):
            call = rets[0].value
            tg = ctx.types.call_targets.get((m.qual, id(call)), set())
            args = [a.id if isinstance(a, ast.Name) else None for a in call.args]
            if tg == {inter.qual} and args == m.params[:2]:
                ok = True
                why = "returns intersection(%s, %s)" % tuple(args)
            else:
                why = "forwards to %s with %s" % (sorted(tg), args)
        res.ob("R4.4", m.where(), cname + ".intersection -> " + m.short, ok, why)
        if not ok:
            res.violation("R4.4", m, m.node, "%s.intersection (%s) %s; it must return intersection(self, other)"
                          % (cname, m.short, why), construct=cname + ".intersection forwarding")
        # ... for every operand type, None included: no raise of its own in front of the forwarding
        from ..types import S as _S
        for oname in list(GEOM7) + ["None"]:
            sm = ctx.types.summary(m, (_S(cname), _S(oname)))
            if sm is None:
                continue
            own = [x for x in walk_local(m.node) if isinstance(x, ast.Raise) and id(x) in sm.raises]
            if own:
                res.ob("R4.4", m.where(own[0]), "%s.intersection(%s)" % (cname, oname), False, "raises `%s`" % txt(own[0])[:50])
                res.violation("R4.4", m, own[0], "%s.intersection(%s) raises (`%s`) instead of returning intersection(self, other): the method "
                              "form is not defined for an operand type the function form supports" % (cname, oname, txt(own[0])[:60]),
                              construct="%s.intersection(%s) raises" % (cname, oname))
    ctx.require(res, "R4.4", n, 6, "method forms")


# ---------------------------------------------------------------- R4.5
def r45(ctx, res):
    inter, rets, raises, info = dispatch_info(ctx)
    n = 0
    for (ta, tb), d in info.items():
        if ta != "None" and tb != "None":
            continue
        n += 1
        sm = d["summary"]
        ok = sm.ret == S("None") and not d["raises"] and not sm.raises
        res.ob("R4.5", inter.where(), "intersection(%s, %s)" % (ta, tb), ok, "result type set %s" % show(sm.ret))
        if not ok:
            node = d["raises"][0] if d["raises"] else inter.node
            res.violation("R4.5", inter, node,
                          "intersection(%s, %s) is not None-absorbing: result %s%s" % (
                              ta, tb, show(sm.ret), ", may raise" if (d["raises"] or sm.raises) else ""),
                          construct="None case (%s, %s)" % (ta, tb))
    ctx.require(res, "R4.5", n, 15, "None cases")


# ---------------------------------------------------------------- R4.6
def parse_doc_table(repo) -> Dict[Tuple[str, str], Set[str]]:
    for rel in ("docs/source/example_operation.rst", "Geometry3D/docs/source/example_operation.rst"):
        p = os.path.join(repo.root, rel)
        if os.path.isfile(p):
            break
    else:
        raise AnalysisError("documentation table docs/source/example_operation.rst not found")
    doc: Dict[Tuple[str, str], Set[str]] = {}
    cur = None
    in_inter = False
    with open(p, encoding="utf-8") as fh:
        for line in fh:
            line = line.rstrip("\n")
            if line.strip() == "Intersection":
                in_inter = True
                continue
            if not in_inter:
                continue
            if line.startswith("|"):
                cells = [c.strip() for c in line.strip().strip("|").split("|")]
                if len(cells) != 3 or cells[0].lower() == "obj1":
                    continue
                if cells[0]:
                    cur = (cells[0], cells[1])
                    doc[cur] = set()
                if cur is not None:
                    doc[cur] |= {x.strip() for x in cells[2].split(",") if x.strip()}
            elif doc and line.strip() and not line.startswith("+"):
                break
    return doc, rel


def r46(ctx, res):
    repo, eng = ctx.repo, ctx.types
    inter, rets, raises, info = dispatch_info(ctx)
    doc, rel = parse_doc_table(repo)
    ctx.require(res, "R4.6", len(doc), 28, "documented rows")
    scope = scope_functions(ctx)
    for ta, tb in itertools.product(GEOM7, repeat=2):
        d = doc.get((ta, tb)) or doc.get((tb, ta))
        if d is None:
            res.ob("R4.6", rel, "(%s, %s)" % (ta, tb), False, "pair is not documented")
            res.violation("R4.6", inter, inter.node, "no documented result types for the pair (%s, %s)" % (ta, tb),
                          construct="undocumented (%s, %s)" % (ta, tb))
            continue
        ret = info[(ta, tb)]["summary"].ret
        if not ret:
            continue  # reported by R4.1
        if has_unknown(ret):
            if any(f.rule == "R4.2" for f in res.findings):
                # the unresolved value is the attribute / call anomaly that R4.2 already reports
                res.ob("R4.6", inter.where(), "(%s, %s)" % (ta, tb), False, "result type unresolved (see R4.2 finding)")
                continue
            raise AnalysisError("result type of intersection(%s, %s) is not resolved: %s" % (ta, tb, show(ret)))
        extra = sorted(str(t) for t in ret if str(t) not in d)
        ok = not extra
        res.ob("R4.6", inter.where(), "(%s, %s)" % (ta, tb), ok,
               "inferred %s within documented {%s}" % (show(ret), ", ".join(sorted(d))))
        if not ok:
            sites = []
            for f in scope:
                for r in walk_local(f.node):
                    if isinstance(r, ast.Return) and r.value is not None:
                        ty = eng.types_at(f, r.value)
                        if any(str(t) in extra for t in ty):
                            sites.append("%s %s: `%s` : %s" % (f.where(r), f.short, txt(r)[:60], show(ty)))
            res.violation("R4.6", inter, inter.node,
                          "intersection(%s, %s) may return %s, documented result types are {%s}" % (
                              ta, tb, extra, ", ".join(sorted(d))),
                          construct="(%s, %s) returns %s" % (ta, tb, extra),
                          detail={"candidate return sites (type sets joined over all contexts)": sites[:12]})


# ---------------------------------------------------------------- R4.7
def _eval_type_test(test, var: str, tag, eng) -> Optional[bool]:
    """truth of a type test over `var` for one type tag; None = not a type test on var"""
    if isinstance(test, ast.BoolOp):
        vals = [_eval_type_test(v, var, tag, eng) for v in test.values]
        if any(v is None for v in vals):
            return None
        return all(vals) if isinstance(test.op, ast.And) else any(vals)
    if isinstance(test, ast.UnaryOp) and isinstance(test.op, ast.Not):
        v = _eval_type_test(test.operand, var, tag, eng)
        return None if v is None else (not v)
    if (isinstance(test, ast.Call) and isinstance(test.func, ast.Name) and test.func.id == "isinstance"
            and len(test.args) == 2 and isinstance(test.args[0], ast.Name) and test.args[0].id == var
            and isinstance(test.args[1], ast.Name)):
        c = eng.class_by_name.get(test.args[1].id)
        if c is None:
            return None
        if eng.is_class_tag(tag):
            return c in eng.class_by_name[tag].mro()
        return False
    if (isinstance(test, ast.Compare) and len(test.ops) == 1 and isinstance(test.left, ast.Name)
            and test.left.id == var and isinstance(test.comparators[0], ast.Constant)
            and test.comparators[0].value is None and isinstance(test.ops[0], (ast.Is, ast.IsNot))):
        r = tag == "None"
        return r if isinstance(test.ops[0], ast.Is) else (not r)
    return None


def _switch_var(rows) -> Optional[str]:
    vs = set()
    for test, _ in rows:
        for n in ast.walk(test):
            if isinstance(n, ast.Call) and isinstance(n.func, ast.Name) and n.func.id == "isinstance" and n.args \
                    and isinstance(n.args[0], ast.Name):
                vs.add(n.args[0].id)
            elif isinstance(n, ast.Compare) and isinstance(n.left, ast.Name) and isinstance(n.comparators[0], ast.Constant) \
                    and n.comparators[0].value is None:
                vs.add(n.left.id)
    return vs.pop() if len(vs) == 1 else None


def _handler_for(ctx, tx: str, ty: str):
    inter, rets, raises, info = dispatch_info(ctx)
    d = info.get((tx, ty))
    if not d or len(d["returns"]) != 1:
        return None
    r, h, pt, an = d["returns"][0]
    if h is None:
        return None
    return ctx.types.fn_by_qual[h], an


def _returns_T_only_under_eq(ctx, h: FunctionInfo, T: str) -> Tuple[bool, str]:
    """every return of h whose type set may contain T is dominated by the true edge of `p == q`"""
    eng = ctx.types
    g = ctx.cfg(h)
    p, q = h.params[:2]
    eqs = {"%s == %s" % (p, q), "%s == %s" % (q, p)}
    found = False
    for r in walk_local(h.node):
        if not isinstance(r, ast.Return) or r.value is None:
            continue
        if T not in {str(t) for t in eng.types_at(h, r.value)}:
            continue
        found = True
        nid = g.nodes_of(r)
        if not nid:
            return False, "return not in CFG"
        dom = g.dominating_edges(nid[0])
        if not any(l == "T" and txt(g.nodes[c].ast) in eqs for c, _, l in dom):
            return False, "`%s` (line %d) may be %s outside `%s == %s`" % (txt(r)[:40], r.lineno, T, p, q)
    if not found:
        return True, "%s never returns %s" % (h.short, T)
    return True, "%s returns %s only under `%s == %s`" % (h.short, T, p, q)


def _single_def(f: FunctionInfo, var: str) -> Optional[ast.Assign]:
    defs = []
    for n in walk_local(f.node):
        if isinstance(n, ast.Assign) and any(isinstance(t, ast.Name) and t.id == var for t in n.targets):
            defs.append(n)
        elif isinstance(n, (ast.AugAssign, ast.For)) and isinstance(getattr(n, "target", None), ast.Name) \
                and n.target.id == var:
            return None
    return defs[0] if len(defs) == 1 else None


def _inter_call_operands(f: FunctionInfo, call: ast.AST, ctx):
    """v = intersection(X, Y)  /  X.intersection(Y)  -> (X, Y) nodes"""
    if not isinstance(call, ast.Call):
        return None
    tg = ctx.types.call_targets.get((f.qual, id(call)), set())
    names = {q.split(":")[-1] for q in tg}
    if names == {"intersection"} and len(call.args) == 2:
        return call.args[0], call.args[1]
    if names == {"GeoBody.intersection"} and isinstance(call.func, ast.Attribute) and len(call.args) == 1:
        return call.func.value, call.args[0]
    return None


def _roots_stable(f: FunctionInfo, exprs) -> bool:
    """the root names of the expressions are parameters that are never re-assigned"""
    from ..astutil import assigned_names

    asg = assigned_names(f.node)
    for e in exprs:
        r = root_name(e)
        if r is None or r not in f.params or r in asg:
            return False
    return True


def _eq_correlation(ctx, f: FunctionInfo, var: str, T: str, raise_stmt, case: str) -> Tuple[bool, str]:
    eng = ctx.types
    d = _single_def(f, var)
    if d is None:
        return False, "no single definition of %s" % var
    ops = _inter_call_operands(f, d.value, ctx)
    if ops is None:
        return False, "%s is not the result of intersection(X, Y)" % var
    X, Y = ops
    if not _roots_stable(f, [X, Y]):
        return False, "operands of the intersection call are re-assigned"
    eqs = {"%s == %s" % (txt(X), txt(Y)), "%s == %s" % (txt(Y), txt(X))}
    g = ctx.cfg(f)
    target = d if case == "A" else raise_stmt
    nid = g.nodes_of(target)
    if not nid:
        return False, "statement not in CFG"
    dom = g.dominating_edges(nid[0])
    neqs = {"%s != %s" % (txt(X), txt(Y)), "%s != %s" % (txt(Y), txt(X))}

    def differ(edges, eq_texts, neq_texts, gg) -> bool:
        return any((l == "F" and txt(gg.nodes[c].ast) in eq_texts) or (l == "T" and txt(gg.nodes[c].ast) in neq_texts) for c, _, l in edges)

    here = differ(dom, eqs, neqs, g)
    if not here:
        # the test may guard every CALL of this (private) function instead:  if a.line != b.line: return f(a, b)
        import copy as _copy
        sites = [(q, nid_) for (q, nid_), tgs in eng.call_targets.items() if f.qual in tgs and q != f.qual]
        ok_sites = 0
        for q, cid in sites:
            caller = eng.fn_by_qual.get(q)
            if caller is None:
                continue
            call = next((x for x in walk_local(caller.node) if id(x) == cid), None)
            if call is None or not isinstance(call, ast.Call) or len(call.args) != len(f.params) or call.keywords:
                break
            amap = dict(zip(f.params, call.args))

            class Sub(ast.NodeTransformer):
                def visit_Name(self, n):
                    if n.id in amap and isinstance(n.ctx, ast.Load):
                        return _copy.deepcopy(amap[n.id])
                    return n
            X2, Y2 = txt(Sub().visit(_copy.deepcopy(X))), txt(Sub().visit(_copy.deepcopy(Y)))
            gc = ctx.cfg(caller)
            par = parents(caller.node)
            st = call
            while id(st) in par and not isinstance(st, ast.stmt):
                st = par[id(st)]
            cn = gc.nodes_of(st)
            if cn and differ(gc.dominating_edges(cn[0]), {"%s == %s" % (X2, Y2), "%s == %s" % (Y2, X2)},
                             {"%s != %s" % (X2, Y2), "%s != %s" % (Y2, X2)}, gc):
                ok_sites += 1
            else:
                break
        else:
            here = bool(sites) and ok_sites == len(sites) and f.name.startswith("_")
    if not here:
        rx, ry = root_name(X), root_name(Y)
        for c, _, l in dom:
            nm = {n.id for n in ast.walk(g.nodes[c].ast) if isinstance(n, ast.Name)}
            if rx in nm and ry in nm:
                raise AnalysisError(
                    "%s: `%s` relates the operands of `%s` but is not the recognised idiom `%s == %s` (false edge); "
                    "cannot decide whether %s can be %s here" % (
                        f.where(g.nodes[c].ast), txt(g.nodes[c].ast), txt(d.value), txt(X), txt(Y), var, T))
        return False, "not on the false edge of `%s == %s`" % (txt(X), txt(Y))
    tx = {str(t) for t in eng.types_at(f, X)}
    ty = {str(t) for t in eng.types_at(f, Y)}
    facts = []
    for a in tx:
        for b in ty:
            hh = _handler_for(ctx, a, b)
            if hh is None:
                return False, "no handler for (%s, %s)" % (a, b)
            ok, why = _returns_T_only_under_eq(ctx, hh[0], T)
            if not ok:
                return False, why
            facts.append(why)
    return True, "on the false edge of `%s == %s`; %s" % (txt(X), txt(Y), "; ".join(sorted(set(facts))))


def _propositional(ctx, f: FunctionInfo, raise_stmt) -> Tuple[bool, str]:
    """truth-table over repeated pure atoms (`x in y`, `x == y`): is the raise reachable?"""
    g = ctx.cfg(f)
    atoms: Dict[str, List[int]] = {}
    from ..astutil import expand_locals, single_defs
    sdefs = single_defs(f.node, f.params)
    flipped = set()
    for n in g.conds():
        e = n.ast
        if isinstance(e, ast.Name) and e.id in sdefs:
            e = expand_locals(f.node, e, f.params, defs=sdefs)  # a local flag holding a pure membership / equality atom
        if isinstance(e, ast.Compare) and len(e.ops) == 1 and isinstance(e.ops[0], (ast.In, ast.NotIn, ast.Eq, ast.NotEq)):
            if any(isinstance(x, ast.Call) for x in ast.walk(e)):
                continue
            if not _roots_stable(f, [e.left, e.comparators[0]]):
                continue
            neg = isinstance(e.ops[0], (ast.NotIn, ast.NotEq))
            pos = ast.Compare(left=e.left, ops=[ast.In() if isinstance(e.ops[0], (ast.In, ast.NotIn)) else ast.Eq()], comparators=e.comparators)
            key = txt(pos)  # `x not in y` is the negation of the atom `x in y`
            atoms.setdefault(key, []).append(n.id)
            if neg:
                flipped.add(n.id)
    rep = {k: v for k, v in atoms.items() if len(v) >= 2}
    if not rep or len(rep) > 8:
        return False, "no repeated pure atoms"
    target = g.nodes_of(raise_stmt)
    if not target:
        return False, "raise not in CFG"
    keys = sorted(rep)
    for vals in itertools.product([True, False], repeat=len(keys)):
        assign = dict(zip(keys, vals))
        avoid = set()
        for k, nodes in rep.items():
            for nid in nodes:
                truth = assign[k] != (nid in flipped)  # outcome of the condition node itself
                bad = "F" if truth else "T"
                for y, l in g.succ[nid]:
                    if l == bad:
                        avoid.add((nid, y, l))
        if target[0] in g.reach([g.entry], avoid_edges=avoid):
            return False, "reachable under %s" % assign
    return True, "unreachable under all %d truth assignments of the atoms %s" % (2 ** len(keys), keys)


def _add_count(ctx, f: FunctionInfo, raise_stmt) -> Tuple[bool, str]:
    g = ctx.cfg(f)
    target = g.nodes_of(raise_stmt)
    if not target:
        return False, "raise not in CFG"
    dom = g.dominating_edges(target[0])
    excluded: Dict[str, Set[int]] = {}
    for c, _, l in dom:
        e = g.nodes[c].ast
        if (isinstance(e, ast.Compare) and len(e.ops) == 1 and isinstance(e.ops[0], ast.Eq) and l == "F"
                and isinstance(e.left, ast.Call) and isinstance(e.left.func, ast.Name) and e.left.func.id == "len"
                and isinstance(e.left.args[0], ast.Name) and isinstance(e.comparators[0], ast.Constant)
                and isinstance(e.comparators[0].value, int)):
            excluded.setdefault(e.left.args[0].id, set()).add(e.comparators[0].value)
    if not excluded:
        return False, "no len() chain"
    # resolve list(S)/tuple(S) aliases to the underlying set variable
    alias = {}
    for n in walk_local(f.node):
        if isinstance(n, ast.Assign) and len(n.targets) == 1 and isinstance(n.targets[0], ast.Name) \
                and isinstance(n.value, ast.Call) and isinstance(n.value.func, ast.Name) \
                and n.value.func.id in ("list", "tuple") and len(n.value.args) == 1 and isinstance(n.value.args[0], ast.Name):
            alias[n.targets[0].id] = n.value.args[0].id
    merged: Dict[str, Set[int]] = {}
    for v, ks in excluded.items():
        merged.setdefault(alias.get(v, v), set()).update(ks)
    for v, ks in merged.items():
        inits = [n for n in walk_local(f.node) if isinstance(n, ast.Assign) and any(
            isinstance(t, ast.Name) and t.id == v for t in n.targets)]
        if len(inits) != 1 or txt(inits[0].value) != "set()":
            continue
        adds = 0
        ok = True
        for n in walk_local(f.node):
            if isinstance(n, ast.Call) and isinstance(n.func, ast.Attribute) and isinstance(n.func.value, ast.Name) \
                    and n.func.value.id == v:
                if n.func.attr == "add":
                    nid = None
                    # the enclosing statement must not be inside a loop
                    for st in walk_local(f.node):
                        if isinstance(st, ast.Expr) and st.value is n:
                            nid = g.nodes_of(st)
                    if not nid or g.nodes[nid[0]].loops:
                        ok = False
                    adds += 1
                else:
                    ok = False
            elif isinstance(n, ast.Name) and n.id == v and isinstance(n.ctx, ast.Store) and not any(
                    n is t for i in inits for t in i.targets):
                ok = False
        # the set must not escape to a callee that could add to it
        for n in walk_local(f.node):
            if isinstance(n, ast.Call) and not (isinstance(n.func, ast.Name) and n.func.id in ("len", "list", "tuple")):
                if any(isinstance(a, ast.Name) and a.id == v for a in n.args):
                    ok = False
        if ok and set(range(adds + 1)) <= ks:
            return True, "`%s` starts empty and has %d add sites outside loops; len 0..%d are all handled" % (v, adds, adds)
    return False, "cardinality not bounded by the number of add sites"


def r47(ctx, res, scope=None, rule="R4.7", need=20):
    eng = ctx.types
    scope = scope_functions(ctx) if scope is None else scope
    inter = ctx.repo.fn("intersection", "calc.intersection")
    total = 0
    klass = {"type-guarded": 0, "equality-correlated": 0, "propositional": 0, "add-count": 0, "residual": 0}
    for f in scope:
        if f is inter:
            continue
        par = parents(f.node)
        for R in sorted((n for n in walk_local(f.node) if isinstance(n, ast.Raise)), key=lambda n: n.lineno):
            total += 1
            where = f.where(R)
            label = "%s: `%s`" % (f.short, txt(R)[:50])
            ctxs = [(b, s) for b, s in eng.summaries_of(f) if id(R) in s.raises]
            if not ctxs:
                klass["type-guarded"] += 1
                res.ob(rule, where, label, True,
                       "unreachable by types in all %d calling contexts" % len(eng.summaries_of(f)))
                continue
            # reachable by types -- find the guard
            head = enclosing_chain_else(f.node, R)
            done = False
            if head is not None:
                rows, _ = if_chain(head)
                var = _switch_var(rows) if all(_eval_is_switch(t) for t, _ in rows) else None
                if var is None and all(_eval_is_switch(t) for t, _ in rows):
                    # rows that test different variables: the switch belongs to the variable of the row next to the raise; a
                    # row that tests another variable says nothing about this one
                    var = _switch_var(rows[-1:])
                    if var is not None:
                        rows = [(t_, b_) for t_, b_ in rows if _switch_var([(t_, b_)]) == var]
                if var is not None:
                    vt = set()
                    first_test = rows[0][0]
                    for n in ast.walk(first_test):
                        if isinstance(n, ast.Name) and n.id == var:
                            for b, s in ctxs:
                                vt |= set(eng.ctx_node_types.get((f.qual, b, id(n)), ()))
                    residual = []
                    for t in sorted(vt, key=str):
                        handled = any(_eval_type_test(test, var, t, eng) for test, _ in rows)
                        if not handled:
                            residual.append(t)
                    bad = []
                    facts = []
                    for t in list(residual):
                        if is_unknown(t):
                            if any(f_.rule == "R4.2" for f_ in res.findings):
                                residual.remove(t)  # the anomaly R4.2 already reports
                                continue
                            raise AnalysisError("%s: type of %s is unresolved" % (where, var))
                    for t in residual:
                        ok, why = _eq_correlation(ctx, f, var, str(t), R, "A")
                        (facts if ok else bad).append("%s: %s" % (t, why))
                    if not bad:
                        klass["equality-correlated"] += 1
                        res.ob(rule, where, label, True, "type switch on %s; residual %s discharged: %s" % (
                            var, [str(t) for t in residual], "; ".join(facts)))
                    else:
                        res.ob(rule, where, label, False, "type switch on %s leaves %s unhandled" % (var, residual))
                        res.violation(
                            rule, f, R,
                            "internal raise is reachable by types: `%s` may be %s here and no branch of the type switch handles it"
                            % (var, " or ".join(str(t) for t in residual)),
                            construct="%s: type switch on %s reaches raise" % (f.short, var),
                            detail={"inferred types of %s" % var: show(frozenset(vt)), "not discharged": bad,
                                    "contexts": [str([show(v) for _, v in b]) for b, _ in ctxs][:6]})
                    done = True
            if done:
                continue
            # case B: `if not X == Y: raise` below a type switch on v = intersection(X, Y)
            p = par.get(id(R))
            okB = False
            if isinstance(p, ast.If) and any(x is R for x in p.body):
                outer = enclosing_chain_else(f.node, p)
                if outer is not None:
                    rows, _ = if_chain(outer)
                    var = _switch_var(rows) if all(_eval_is_switch(t) for t, _ in rows) else None
                    if var is not None:
                        vt = set()
                        for n in ast.walk(rows[0][0]):
                            if isinstance(n, ast.Name) and n.id == var:
                                for b, s in ctxs:
                                    vt |= set(eng.ctx_node_types.get((f.qual, b, id(n)), ()))
                        residual = [t for t in vt if not any(_eval_type_test(test, var, t, eng) for test, _ in rows)]
                        if residual and all(not is_unknown(t) for t in residual):
                            rs = [_eq_correlation(ctx, f, var, str(t), R, "B") for t in residual]
                            if all(r[0] for r in rs):
                                okB = True
                                klass["equality-correlated"] += 1
                                res.ob(rule, where, label, True,
                                       "re-check of an equality the callee already decided: %s is %s here; %s" % (
                                           var, [str(t) for t in residual], rs[0][1]))
            if okB:
                continue
            ok, why = _propositional(ctx, f, R)
            if ok:
                klass["propositional"] += 1
                res.ob(rule, where, label, True, why)
                continue
            ok, why = _add_count(ctx, f, R)
            if ok:
                klass["add-count"] += 1
                res.ob(rule, where, label, True, why)
                continue
            klass["residual"] += 1
            res.undecided_ob(rule + " %s %s -- guarded only by a runtime cardinality / numeric test" % (where, label))
    for k, v in klass.items():
        res.count(rule + " raises " + k, v)
    ctx.require(res, rule, total, need, "internal raise statements in the intersection code")


def _eval_is_switch(test) -> bool:
    """test consists only of isinstance(v, T) / v is None atoms"""
    if isinstance(test, ast.BoolOp):
        return all(_eval_is_switch(v) for v in test.values)
    if isinstance(test, ast.UnaryOp) and isinstance(test.op, ast.Not):
        return _eval_is_switch(test.operand)
    if isinstance(test, ast.Call) and isinstance(test.func, ast.Name) and test.func.id == "isinstance":
        return True
    if isinstance(test, ast.Compare) and len(test.ops) == 1 and isinstance(test.ops[0], (ast.Is, ast.IsNot)) \
            and isinstance(test.comparators[0], ast.Constant) and test.comparators[0].value is None:
        return True
    return False


# ---------------------------------------------------------------- R4.8
def r48(ctx, res):
    eng = ctx.types
    scope = scope_functions(ctx)
    n = 0
    cache = {}
    for f in scope:
        for cmp_ in sorted((x for x in walk_local(f.node) if isinstance(x, ast.Compare) and any(
                isinstance(o, (ast.In, ast.NotIn)) for o in x.ops)), key=lambda x: (x.lineno, x.col_offset)):
            pairs = eng.in_sites.get((f.qual, id(cmp_)), set())
            if not pairs:
                if eng.summaries_of(f):
                    res.note("%s `%s` is never reached by the type analysis" % (f.where(cmp_), txt(cmp_)))
                continue
            n += 1
            bad = []
            facts = []
            for cont, el in sorted(pairs, key=str):
                if is_unknown(cont) or is_unknown(el):
                    if any(f_.rule == "R4.2" for f_ in res.findings):
                        continue
                    raise AnalysisError("%s: operand type of `%s` unresolved" % (f.where(cmp_), txt(cmp_)))
                if not eng.is_class_tag(cont):
                    facts.append("%s in builtin container" % (el,))
                    continue
                k = (cont, el)
                if k not in cache:
                    cache[k] = resolve(eng, cont, str(el))
                r = cache[k]
                if r["ok"]:
                    facts.append("%s in %s -> %s" % (el, cont, ", ".join(sorted({"%s:%d" % (t[0], t[1]) for t in r["terminals"]}))))
                else:
                    bad.append((cont, el, [t for t in r["terminals"] if t[3] != "ok"]))
            ok = not bad
            res.ob("R4.8", f.where(cmp_), "%s: `%s`" % (f.short, txt(cmp_)), ok, "; ".join(facts)[:300])
            for cont, el, terms in bad:
                res.violation("R4.8", f, cmp_,
                              "membership test `%s` with operand types (%s in %s) resolves to a fallback branch: %s"
                              % (txt(cmp_), el, cont, "; ".join("%s line %d `%s` [%s]" % t for t in terms)),
                              construct="%s: %s in %s" % (txt(cmp_), el, cont))
    ctx.require(res, "R4.8", n, 12, "membership tests in the intersection code")


# ---------------------------------------------------------------- R4.9
def r49_same_type_swap_closure(ctx, res):
    """For the same-type pairs intersection(a, b) and intersection(b, a) run ONE handler with the operands
    exchanged.  A structural necessary condition for the two runs to denote the same set: at every result
    return of the candidate region, the set of candidate families (origin analysis: which parts of which operand
    are offered) that have certainly been consulted is closed under exchanging the two operands."""
    import re

    from ..origins import bypassing_returns, family_nodes, get_origins

    repo = ctx.repo
    o = get_origins(ctx)
    n = 0
    for name in ("inter_segment_segment", "inter_halfline_halfline", "inter_convexpolygon_convexpolygon",
                 "inter_convexpolyhedron_convexpolyhedron"):
        fi = repo.fn(name, "calc.intersection")
        a, b = fi.params[:2]
        fams = o.families(name)

        def mirror(f):
            m = re.sub(r"\b(%s|%s)\b" % (re.escape(a), re.escape(b)), lambda mm: b if mm.group(1) == a else a, f)
            mm = re.match(r"^hit\((.*)\)$", m)
            if mm and "hit(" not in mm.group(1):
                m = "hit(%s)" % " | ".join(sorted(mm.group(1).split(" | ")))
            return m

        # asymmetric families whose mirror image is a family of the handler too (self-mirrored ones need no partner)
        pairs = sorted(f for f in fams if f not in (a, b) and mirror(f) != f and mirror(f) in fams and "hit(hit" not in f
                       and not f.startswith("hit(%s | hit" % a) and not f.startswith("hit(%s | hit" % b))
        if not pairs:
            raise AnalysisError("%s: no mirrored candidate families found" % fi.where())
        g = ctx.cfg(fi)
        ids = set()
        for f in pairs:
            ids |= family_nodes(ctx, fi, fams[f])
        region = g.reach(list(ids))
        skipped: Dict[int, Set[str]] = {}
        rets = {}
        for r, f in bypassing_returns(ctx, fi, fams, pairs):
            rn = g.nodes_of(r)
            if rn and rn[0] in region:
                skipped.setdefault(id(r), set()).add(f)
                rets[id(r)] = r
        n += 1
        bad = []
        for rid, sk in skipped.items():
            for f in pairs:
                if f not in sk and mirror(f) in sk:
                    bad.append((rets[rid], f, mirror(f)))
        ok = not bad
        res.ob("R4.9", fi.where(), "%s: consulted candidate families are closed under exchanging the operands at every result return" % fi.short,
               ok, "mirrored families %s" % pairs if ok else
               "`%s` is reached after `%s` but possibly before its mirror image" % (txt(bad[0][0])[:40], bad[0][1]))
        for r, f, mk in bad[:2]:
            res.violation("R4.9", fi, r,
                          "%s can `%s` after consulting `%s` but without its mirror image `%s`: intersection(a, b) and intersection(b, a) "
                          "run this handler with the operands exchanged and would then disagree" % (fi.short, txt(r)[:40], f, mk),
                          construct="%s: `%s` after %s without its mirror" % (fi.short, txt(r)[:40], f))
    ctx.require(res, "R4.9", n, 4, "same-type handlers with candidate families")


def run(ctx, res):
    res.explanation = (
        "Static decision of the dispatch structure of intersection(): totality over the 49 ordered operand-type "
        "pairs by abstract first-match evaluation (type-set inference, no execution), identical handler binding for "
        "both argument orders, method form forwarding, None absorption, inferred result types within the "
        "documented table, and unreachability of the internal 'Bug detected' raises by types / equality "
        "correlation / propositional exhaustiveness / add-count. Numeric coincidence of the results of the two "
        "argument orders for same-type pairs and raises guarded only by runtime cardinalities are NOT decided "
        "(listed under `undecided`)."
    )
    r41_r43(ctx, res)
    r44(ctx, res)
    r45(ctx, res)
    r46(ctx, res)
    r47(ctx, res)
    r48(ctx, res)
    r49_same_type_swap_closure(ctx, res)
    # R4.10 the collinearity helper that guards the coplanar polygon / polygon routine tests every point (coverage.py)
    from ..coverage import check_collinearity_helper
    kc = check_collinearity_helper(ctx, res, "R4.10")
    ctx.require(res, "R4.10", kc, 2, "return sites of points_in_a_line")
    # R4.11 the linear solver picks its pivot row by the pivot column and by magnitude (coverage.py)
    from ..coverage import check_pivot_choice
    check_pivot_choice(ctx, res, "R4.11")
    res.undecided_ob("for the 7 same-type pairs, that handler(a, b) and handler(b, a) denote the same set beyond the swap closure "
                     "of the consulted candidate families (numeric)")
    res.extra["functions_analysed"] = len(scope_functions(ctx))
    res.extra["type_inference"] = {"contexts": len(ctx.types.memo), "iterations": ctx.types.iterations,
                                   "call_sites_resolved": sum(1 for v in ctx.types.call_targets.values() if v)}
