"""C08 -- equality is representation-independent and consistent with hashing.

Decides: R8.1 every class defining __eq__ defines __hash__; R8.2 __eq__ of
Point, Line, Plane, ConvexPolygon, ConvexPolyhedron returns False for foreign
types; R8.3 polygon / polyhedron equality *is* hash equality; R8.4 gauge
invariance of every __hash__ under the representation freedoms its __eq__
ignores (degree / parity domain, symmetric-pair idiom, symmetric polynomials,
commutative accumulation); R8.6 Segment.__eq__ covers both end-point pairings;
R8.7 __eq__ uses direction fields only through scale/sign-invariant predicates.
Whether unequal sets compare unequal and rounding-boundary effects are NOT decided.
"""
from __future__ import annotations

import ast
from typing import Dict, List, Optional, Set, Tuple

from ..algebra import C, P, Poly, padd, pmul, pshow
from ..astutil import parents, assigned_names, const_num, txt
from ..model import GEOM7, AnalysisError, FunctionInfo, walk_local
from ..types import S, show

EVEN, ODD, MIXED = "even", "odd", "mixed"


class Gauge:
    """(degree, parity) of an expression in one designated field of self"""

    def __init__(self, fi: FunctionInfo, field: str, field_degree: int, q_text: Optional[str] = None):
        self.fi = fi
        self.q = field
        self.qd = field_degree
        self.q_text = q_text  # designate an arbitrary expression (e.g. `a.dv`) instead of a field of self
        self.asg = assigned_names(fi.node)
        self.sn = fi.self_name

    def resolve(self, e: ast.AST) -> ast.AST:
        seen = 0
        while isinstance(e, ast.Name) and e.id in self.asg and e.id not in self.fi.params and seen < 6:
            defs = self.asg[e.id]
            if len(defs) == 1 and isinstance(defs[0], ast.Assign) and len(defs[0].targets) == 1 \
                    and isinstance(defs[0].targets[0], ast.Name):
                e = defs[0].value
                seen += 1
            else:
                break
        return e

    def g_local(self, e: ast.Name) -> Tuple[Optional[int], str]:
        """a local with several definitions: the join over its definitions; the idiom
              x = <odd expression>;  if <sign test on x's components>: x = -x
        is a sign canonicalisation -- complete (EVEN) only if the test orients all three components"""
        name = e.id
        defs = self.asg.get(name, [])
        if name in self.fi.params or not defs:
            return (0, EVEN)
        busy = getattr(self, "_busy", set())
        if name in busy:
            return (0, EVEN)  # neutral element while the definitions of `name` are being joined
        self._busy = busy | {name}
        try:
            base, flips = [], []
            extra = []
            for d in defs:
                if isinstance(d, ast.AugAssign) and isinstance(d.op, (ast.Add, ast.Sub)):
                    extra.append(self.g(d.value))
                    continue
                if isinstance(d, (ast.For, ast.comprehension)):
                    extra.append(self.g(d.iter))
                    continue
                if isinstance(d, ast.Assign) and len(d.targets) == 1 and isinstance(d.targets[0], (ast.Tuple, ast.List)):
                    # a, b = e1, e2   /   a, b = self.helper()  with  return e1, e2
                    tg = d.targets[0]
                    idx = [i for i, t in enumerate(tg.elts) if isinstance(t, ast.Name) and t.id == name]
                    val = d.value
                    sub = self
                    if isinstance(val, ast.Call) and isinstance(val.func, ast.Attribute) and isinstance(val.func.value, ast.Name) \
                            and val.func.value.id == self.sn and not val.args and self.fi.cls is not None and self.q_text is None:
                        callee = self.fi.cls.lookup(val.func.attr)
                        rets_ = [r for r in walk_local(callee.node) if isinstance(r, ast.Return)] if callee is not None else []
                        if len(rets_) == 1 and isinstance(rets_[0].value, ast.Tuple) and getattr(self, "_depth", 0) < 4:
                            sub = Gauge(callee, self.q, self.qd)
                            sub._depth = getattr(self, "_depth", 0) + 1
                            val = rets_[0].value
                    if len(idx) == 1 and isinstance(val, (ast.Tuple, ast.List)) and len(val.elts) == len(tg.elts):
                        extra.append(sub.g(val.elts[idx[0]]))
                        continue
                    return (None, MIXED)
                if not (isinstance(d, ast.Assign) and len(d.targets) == 1 and isinstance(d.targets[0], ast.Name)):
                    return (None, MIXED)
                v = d.value
                if isinstance(v, ast.UnaryOp) and isinstance(v.op, ast.USub) and isinstance(v.operand, ast.Name) and v.operand.id == name:
                    flips.append(d)
                else:
                    base.append(d)
            gs = [self.g(d.value) for d in base] + extra
            if not gs:
                return (None, MIXED)
            deg = gs[0][0] if all(x[0] == gs[0][0] for x in gs) else None
            par = gs[0][1] if all(x[1] == gs[0][1] for x in gs) else MIXED
            if not flips or par == EVEN:
                return (deg, par)
            if par != ODD:
                return (deg, MIXED)
            # conditional negation of an odd quantity: which components does the guard orient?
            par_map = parents(self.fi.node)
            covered = set()
            for d in flips:
                p = par_map.get(id(d))
                if not isinstance(p, ast.If) or not any(x is d for x in p.body):
                    return (deg, MIXED)
                for c in ast.walk(p.test):
                    if isinstance(c, ast.Compare) and len(c.ops) == 1 and isinstance(c.ops[0], (ast.Lt, ast.LtE, ast.Gt, ast.GtE)):
                        for side in (c.left, c.comparators[0]):
                            if isinstance(side, ast.Subscript) and isinstance(side.value, ast.Name) and side.value.id == name \
                                    and isinstance(side.slice, ast.Constant) and isinstance(side.slice.value, int):
                                covered.add(side.slice.value)
            if covered >= {0, 1, 2}:
                return (deg, EVEN)
            self.partial_canon = (name, sorted(covered))
            return (deg, MIXED)
        finally:
            self._busy = busy

    def is_q(self, e) -> bool:
        if self.q_text is not None:
            return isinstance(e, ast.Attribute) and txt(e) == self.q_text
        return isinstance(e, ast.Attribute) and isinstance(e.value, ast.Name) and e.value.id == self.sn and e.attr == self.q

    def g(self, e: ast.AST) -> Tuple[Optional[int], str]:
        e = self.resolve(e)
        if isinstance(e, ast.Constant):
            return (0, EVEN)
        if self.is_q(e):
            return (self.qd, ODD)
        if isinstance(e, ast.Name):
            return self.g_local(e)
        if isinstance(e, ast.Attribute):
            if isinstance(e.value, ast.Name) and e.value.id == self.sn:
                # a read-only property (`self.offset` = n . p): its value is the getter's return expression
                getter = self.fi.cls.lookup(e.attr) if self.fi.cls is not None else None
                if getter is not None and "property" in getattr(getter, "decorators", ()) and getter.self_name is not None \
                        and getattr(self, "_depth", 0) < 4 and self.q_text is None:
                    rets = [r for r in walk_local(getter.node) if isinstance(r, ast.Return) and r.value is not None]
                    if len(rets) == 1:
                        sub = Gauge(getter, self.q, self.qd)
                        sub._depth = getattr(self, "_depth", 0) + 1
                        return sub.g(rets[0].value)
                    return (None, MIXED)
                return (0, EVEN)
            return self.g(e.value)
        if isinstance(e, ast.Subscript):
            return self.g(e.value)
        if isinstance(e, ast.UnaryOp):
            return self.g(e.operand)
        if isinstance(e, (ast.GeneratorExp, ast.ListComp, ast.SetComp)):
            return self.g(e.elt)
        if isinstance(e, ast.IfExp):
            a, b = self.g(e.body), self.g(e.orelse)
            return (a[0] if a[0] == b[0] else None, a[1] if a[1] == b[1] else MIXED)
        if isinstance(e, ast.Tuple) or isinstance(e, ast.List):
            gs = [self.g(x) for x in e.elts]
            d = 0 if all(x[0] == 0 for x in gs) else None
            p = EVEN if all(x[1] == EVEN for x in gs) else (ODD if all(x[1] in (EVEN, ODD) for x in gs) else MIXED)
            return (d, p)
        if isinstance(e, ast.BinOp):
            pair = self.sym_pair(e)
            if pair is not None:
                return pair
            l, r = self.g(e.left), self.g(e.right)
            if isinstance(e.op, (ast.Add, ast.Sub)):
                d = l[0] if l[0] == r[0] else None
                p = l[1] if l[1] == r[1] else MIXED
                return (d, p)
            if isinstance(e.op, (ast.Mult, ast.Div)):
                d = None if None in (l[0], r[0]) else (l[0] + r[0] if isinstance(e.op, ast.Mult) else l[0] - r[0])
                p = MIXED if MIXED in (l[1], r[1]) else (EVEN if l[1] == r[1] else ODD)
                return (d, p)
            if isinstance(e.op, ast.Pow):
                c = const_num(e.right)
                if c is not None and float(c).is_integer():
                    c = int(c)
                    return (None if l[0] is None else l[0] * c, EVEN if c % 2 == 0 else l[1])
                return (None, MIXED)
            return (None, MIXED)
        if isinstance(e, ast.Call):
            fn = e.func
            if isinstance(fn, ast.Attribute):
                if fn.attr in ("normalized", "unit") and not e.args:
                    d, p = self.g(fn.value)
                    return (0, p)
                if fn.attr in ("cross",) and len(e.args) == 1:
                    l, r = self.g(fn.value), self.g(e.args[0])
                    d = None if None in (l[0], r[0]) else l[0] + r[0]
                    p = MIXED if MIXED in (l[1], r[1]) else (EVEN if l[1] == r[1] else ODD)
                    return (d, p)
                if fn.attr == "length" and not e.args:
                    d, p = self.g(fn.value)
                    return (d, EVEN)
                # a method of self: its result is whatever its (single) return expression is
                if isinstance(fn.value, ast.Name) and fn.value.id == self.sn and self.fi.cls is not None and self.q_text is None:
                    callee = self.fi.cls.lookup(fn.attr)
                    if callee is not None and getattr(self, "_depth", 0) < 4:
                        rets = [r for r in walk_local(callee.node) if isinstance(r, ast.Return) and r.value is not None]
                        if len(rets) == 1 and not e.args and callee.self_name is not None:
                            sub = Gauge(callee, self.q, self.qd)
                            sub._depth = getattr(self, "_depth", 0) + 1
                            return sub.g(rets[0].value)
                        if len(rets) == 1 and callee.self_name is not None and not e.keywords and len(e.args) == len(callee.params) - 1 \
                                and all(self.g(a_) == (0, EVEN) for a_ in e.args):
                            # arguments that do not depend on the gauge field (`self._rounded_sum(get_sig_figures())`): the
                            # parameters are constants as far as the gauge is concerned
                            import copy as _copy
                            names = set(callee.params[1:])

                            class _Sub(ast.NodeTransformer):
                                def visit_Name(self, node):
                                    if node.id in names and isinstance(node.ctx, ast.Load):
                                        return ast.copy_location(ast.Constant(value=0), node)
                                    return node
                            sub = Gauge(callee, self.q, self.qd)
                            sub._depth = getattr(self, "_depth", 0) + 1
                            return sub.g(_Sub().visit(_copy.deepcopy(rets[0].value)))
                        return (None, MIXED)
                # other methods: a function of receiver and arguments
                gs = [self.g(fn.value)] + [self.g(a) for a in e.args]
                if all(x == (0, EVEN) for x in gs):
                    return (0, EVEN)
                if fn.attr in ("pv", "__neg__"):
                    return gs[0]
                return (None if any(x[0] != 0 for x in gs) else 0, MIXED)
            if isinstance(fn, ast.Name):
                b = self.fi.resolve(fn.id)
                if b is not None and b.kind == "func" and b.target.cls is None and getattr(self, "_depth", 0) < 4:
                    # a small private helper of the package (`_unit(v)` = v.normalized()): read through its return expression
                    from ..astutil import inline_module_calls
                    inl = inline_module_calls(self.fi, e, depth=1)
                    if not (isinstance(inl, ast.Call) and txt(inl) == txt(e)):
                        self._depth = getattr(self, "_depth", 0) + 1
                        try:
                            return self.g(inl)
                        finally:
                            self._depth -= 1
                if b is not None and b.kind == "class" and b.target.name in ("Line", "Plane", "HalfLine"):
                    # an object built from a direction denotes the same set for any non-zero multiple of it
                    return (0, EVEN)
                if b is not None and b.kind == "func" and b.target.module.name.startswith("Geometry3D.calc") \
                        and all(not self.is_q(self.resolve(a)) for a in e.args):
                    # calc functions applied to whole objects: representation-independent by their own properties
                    if all(self.g(a) in ((0, EVEN),) or not any(self.is_q(x) for x in ast.walk(self.resolve(a))) for a in e.args):
                        return (0, EVEN)
                if fn.id == "round" and e.args:
                    return self.g(e.args[0])  # odd-symmetric, keeps homogeneity class
                if fn.id == "abs" and e.args:
                    return (self.g(e.args[0])[0], EVEN)
                if fn.id in ("frozenset", "sorted", "min", "max", "tuple", "set") and e.args:
                    pr = self.sym_pair_container(e)
                    if pr is not None:
                        return pr
                if fn.id == "hash" and e.args:
                    d, p = self.g(e.args[0])
                    if (d, p) == (0, EVEN):
                        return (0, EVEN)
                    return (0 if d == 0 else None, MIXED if p != EVEN else EVEN)
                gs = [self.g(a) for a in e.args]
                if all(x == (0, EVEN) for x in gs):
                    return (0, EVEN)
                return (None if any(x[0] != 0 for x in gs) else 0, MIXED)
        return (None, MIXED)

    # ---- symmetric-pair idiom  g(X) (+|*) g(-X)
    def neg_eq(self, a: ast.AST, b: ast.AST) -> bool:
        """b is a with every odd sub-expression negated"""
        a, b = self.resolve(a), self.resolve(b)
        ga = self.g(a)
        if ga[1] == EVEN:
            return txt(a) == txt(b)
        if isinstance(b, ast.UnaryOp) and isinstance(b.op, ast.USub) and txt(self.resolve(b.operand)) == txt(a):
            return True
        if isinstance(a, ast.UnaryOp) and isinstance(a.op, ast.USub) and txt(self.resolve(a.operand)) == txt(b):
            return True
        if isinstance(a, (ast.Tuple, ast.List)) and isinstance(b, type(a)) and len(a.elts) == len(b.elts):
            return all(self.neg_eq(x, y) for x, y in zip(a.elts, b.elts))
        if isinstance(a, ast.Call) and isinstance(b, ast.Call) and txt(a.func) == txt(b.func) and len(a.args) == len(b.args) \
                and isinstance(a.func, ast.Name):
            # an odd-symmetric or arbitrary function applied to negated arguments
            return all(self.neg_eq(x, y) for x, y in zip(a.args, b.args))
        return False

    def _pair_members(self, x, y) -> Optional[Tuple[Optional[int], str]]:
        x, y = self.resolve(x), self.resolve(y)
        if isinstance(x, ast.Call) and isinstance(y, ast.Call) and txt(x.func) == txt(y.func) and len(x.args) == 1 == len(y.args) \
                and isinstance(x.func, ast.Name):
            ax, ay = x.args[0], y.args[0]
            if self.g(ax)[1] != EVEN and (self.neg_eq(ax, ay) or self.neg_eq(ay, ax)):
                d = self.g(ax)[0]
                return (0 if d == 0 else None, EVEN)
        return None

    def sym_pair(self, e: ast.BinOp):
        if isinstance(e.op, (ast.Add, ast.Mult)):
            return self._pair_members(e.left, e.right)
        return None

    def sym_pair_container(self, e: ast.Call):
        a = e.args[0]
        a = self.resolve(a)
        if isinstance(a, (ast.Tuple, ast.List, ast.Set)) and len(a.elts) == 2:
            return self._pair_members(a.elts[0], a.elts[1])
        if len(e.args) == 2:
            return self._pair_members(e.args[0], e.args[1])
        return None


def hashed_components(fi: FunctionInfo) -> List[ast.AST]:
    rets = [r for r in walk_local(fi.node) if isinstance(r, ast.Return)]
    if len(rets) != 1:
        raise AnalysisError("%s: __hash__ has %d return statements; the hashed components cannot be identified" % (fi.short, len(rets)))
    from ..astutil import expand_locals
    v = expand_locals(fi.node, rets[0].value, fi.params)  # hoisted locals (`plane_hash = hash(self.plane)`) read as their definitions
    if isinstance(v, ast.Call) and isinstance(v.func, ast.Name) and v.func.id != "hash":
        # a package helper that builds the hash (`symmetric_hash(tag, a, b)` = hash((tag, a + b, a * b))): read through it
        from ..astutil import inline_module_calls
        v = inline_module_calls(fi, v, depth=1)
    if isinstance(v, ast.Call) and isinstance(v.func, ast.Name) and v.func.id == "hash" and len(v.args) == 1:
        inner = v.args[0]
        if isinstance(inner, ast.Tuple):
            return list(inner.elts)
        return [inner]
    return [v]


# gauges: class -> [(field, degree of the raw field, need degree 0, need even, reason taken from __eq__)]
GAUGES = {
    "Line": [("dv", 1, True, True, "__eq__ compares directions with parallel(): any non-zero multiple of dv is the same line")],
    "Plane": [("n", 0, False, True, "__eq__ compares normals with parallel(): n and -n are the same plane (n is normalised at construction)")],
    "HalfLine": [("vector", 1, True, False, "__eq__ compares normalised directions: any positive multiple of vector is the same half-line")],
    "ConvexPolygon": [("plane", 0, False, True, "the same vertex set may carry either orientation of its plane (reverse=True / -polygon)")],
}


def r88_pure(ctx, res) -> set:
    """__eq__ / __hash__ of a mutable object must be recomputed from its current state: a hash (or equality)
    that stores its result on the object goes stale after move(), coordinate assignment or a tolerance change,
    and equality stops tracking the point set"""
    ef = ctx.effects
    stale = set()
    n = 0
    for c in ctx.repo.classes():
        for name in ("__eq__", "__hash__", "_get_point_hash_sum", "_get_polygon_hash_sum", "hash_with_normal", "eq_with_normal", "oriented_hash"):
            m = c.methods.get(name)
            if m is None:
                continue
            n += 1
            s_ = ef.summ[m.qual]
            direct = {r: w for r, w in s_.mut.items() if not w[1].startswith("call of ") or ".move {" in w[1] or "__setitem__ {" in w[1]}
            ok = not direct and not s_.gwrite
            res.ob("R8.8", m.where(), "%s stores nothing" % m.short, ok,
                   "recomputed from the current state on every call" if ok else "writes %s" % sorted(direct))
            for r, (where, what) in sorted(direct.items()):
                stale.add(m.qual)
                res.violation("R8.8", m, m.node,
                              "%s stores state on the object (%s at %s): the object is mutable (move, coordinate assignment, tolerance "
                              "change), so a remembered hash / comparison result no longer corresponds to the current point set"
                              % (m.short, what[:70], where), construct="%s writes %s" % (m.short, r))
    ctx.require(res, "R8.8", n, 18, "eq/hash methods")
    return stale


def r84(ctx, res, stale=frozenset()):
    repo = ctx.repo
    n = 0
    for cname, gauges in GAUGES.items():
        h = repo.cls(cname).lookup("__hash__")
        if h is None or h.cls.name != cname:
            raise AnalysisError("%s.__hash__ not found" % cname)
        if h.qual in stale:
            res.note("%s.__hash__ stores its value (reported by R8.8); its components are not analysed for gauge invariance" % cname)
            continue
        comps = hashed_components(h)
        for field, fdeg, need0, need_even, reason in gauges:
            G = Gauge(h, field, fdeg)
            bad = []
            for c in comps:
                d, p = G.g(c)
                viol = []
                if need0 and d != 0:
                    viol.append("degree %s in %s (scaling %s changes it)" % (d if d is not None else "non-homogeneous", field, field))
                if need_even and p != EVEN:
                    viol.append("%s in %s (negating %s changes it)" % (p, field, field))
                if viol:
                    bad.append((c, viol))
            n += 1
            where = h.where()
            label = "%s.__hash__ vs gauge `%s`" % (cname, field)
            ok = not bad
            res.ob("R8.4", where, label, ok,
                   "all %d hashed components are invariant (%s)" % (len(comps), reason) if ok else
                   "; ".join("`%s`: %s" % (txt(c)[:40], ", ".join(v)) for c, v in bad[:3]))
            if not ok:
                res.violation(
                    "R8.4", h, h.node,
                    "%s.__hash__ depends on a representation freedom that %s.__eq__ ignores (%s): %s -- equal objects "
                    "can hash differently" % (cname, cname, reason, "; ".join(
                        "`%s` is %s" % (txt(G.resolve(c))[:50], ", ".join(v)) for c, v in bad[:4])),
                    construct="%s.__hash__ gauge %s" % (cname, field),
                    detail={"hashed components": [txt(c)[:80] for c in comps]})
    # Segment: symmetric in the two end points (polynomial normal form over h1, h2)
    sh = repo.cls("Segment").lookup("__hash__")
    if sh is None:
        res.note("Segment has no __hash__ (reported by R8.1); its symmetry is not evaluated")
        comps = []
    else:
        comps = hashed_components(sh)
    n += 1

    def poly(e, swap) -> Optional[Poly]:
        t = txt(e)
        a, b = ("h2", "h1") if swap else ("h1", "h2")
        if t == "hash(self.start_point)":
            return P(a)
        if t == "hash(self.end_point)":
            return P(b)
        if isinstance(e, ast.Constant):
            if isinstance(e.value, (int, float)) and not isinstance(e.value, bool):
                return C(e.value)
            return {("const:" + repr(e.value),): 1}
        if isinstance(e, ast.BinOp) and isinstance(e.op, (ast.Add, ast.Sub, ast.Mult)):
            l, r = poly(e.left, swap), poly(e.right, swap)
            if l is None or r is None:
                return None
            return padd(l, r) if isinstance(e.op, ast.Add) else (padd(l, r, -1) if isinstance(e.op, ast.Sub) else pmul(l, r))
        if isinstance(e, ast.Call) and isinstance(e.func, ast.Name) and e.func.id in ("frozenset", "sorted", "min", "max") and e.args:
            # order-free containers of the two hashes
            inner = e.args[0] if len(e.args) == 1 else ast.Tuple(elts=list(e.args), ctx=ast.Load())
            if isinstance(inner, (ast.Tuple, ast.List, ast.Set)):
                ps = [poly(x, swap) for x in inner.elts]
                if any(p is None for p in ps):
                    return None
                key = tuple(sorted(pshow(p) for p in ps))
                return {("%s%s" % (e.func.id, key),): 1}
        return None

    bad = []
    for c in comps:
        p0, p1 = poly(c, False), poly(c, True)
        if p0 is None:
            raise AnalysisError("%s: hashed component `%s` is outside the polynomial fragment" % (sh.where(), txt(c)))
        if p0 != p1:
            bad.append(c)
    ok = not bad
    if sh is not None:
      res.ob("R8.4", sh.where(), "Segment.__hash__ vs exchange of end points", ok,
           "every component is a symmetric polynomial of hash(start_point), hash(end_point)" if ok else
           "`%s` changes when the end points are exchanged" % txt(bad[0]))
    if not ok and sh is not None:
        res.violation("R8.4", sh, sh.node, "Segment.__hash__ is not symmetric in its end points (`%s`), but Segment(a, b) == Segment(b, a)"
                      % txt(bad[0])[:60], construct="Segment.__hash__ end-point symmetry")
    # order-free aggregation in polygon / polyhedron
    for short in ("ConvexPolygon._get_point_hash_sum", "ConvexPolyhedron._get_polygon_hash_sum", "ConvexPolyhedron._get_point_hash_sum"):
        fi = repo.fn(short)
        n += 1
        loops = [x for x in walk_local(fi.node) if isinstance(x, ast.For)]
        ok = False
        why = "no loop"
        if len(loops) == 1:
            body = loops[0].body
            if len(body) == 1 and isinstance(body[0], ast.AugAssign) and isinstance(body[0].op, (ast.Add, ast.Mult, ast.BitXor)) \
                    and isinstance(body[0].target, ast.Name):
                acc = body[0].target.id
                rets = [r for r in walk_local(fi.node) if isinstance(r, ast.Return)]
                ok = all(txt(r.value) == acc for r in rets) and acc not in {nn.id for nn in ast.walk(body[0].value) if isinstance(nn, ast.Name)}
                why = "commutative accumulation `%s` over `%s`" % (txt(body[0]), txt(loops[0].iter))
            else:
                why = "loop body is not a single commutative accumulation"
        elif not loops:
            rets = [r for r in walk_local(fi.node) if isinstance(r, ast.Return)]
            if len(rets) == 1 and isinstance(rets[0].value, ast.Call) and txt(rets[0].value.func) == "sum":
                ok = True
                why = "sum(...) over the collection"
        res.ob("R8.4", fi.where(), short + " order-free", ok, why)
        if not ok:
            res.violation("R8.4", fi, fi.node, "%s does not aggregate the element hashes commutatively (%s): vertex / face order "
                          "would change the hash" % (short, why), construct=short + " aggregation")
    # the polygon / polyhedron hashes use the aggregates (not an ordered traversal)
    for cname, helpers in (("ConvexPolygon", {"_get_point_hash_sum"}), ("ConvexPolyhedron", {"_get_polygon_hash_sum", "_get_point_hash_sum"})):
        h = repo.cls(cname).lookup("__hash__")
        if h.qual in stale:
            continue
        comps = hashed_components(h)
        n += 1
        ordered = [c for c in comps for x in ast.walk(c) if isinstance(x, ast.Attribute) and isinstance(x.value, ast.Name)
                   and x.value.id == h.self_name and x.attr in ("points", "convex_polygons", "point_set", "segment_set")]
        used = {x.attr for c in comps for x in ast.walk(c) if isinstance(x, ast.Attribute) and x.attr in helpers}
        # through other methods of the object (`self._rounded_point_hash_sum(digits)` -> `self._get_point_hash_sum()`)
        todo_ = [(repo.cls(cname).lookup(x.attr), 0) for c in comps for x in ast.walk(c) if isinstance(x, ast.Attribute)
                 and isinstance(x.value, ast.Name) and x.value.id == h.self_name and x.attr not in helpers]
        seen_ = set()
        while todo_:
            m_, d_ = todo_.pop()
            if m_ is None or m_.qual in seen_ or d_ > 3 or m_.self_name is None:
                continue
            seen_.add(m_.qual)
            for x in walk_local(m_.node):
                if isinstance(x, ast.Attribute) and isinstance(x.value, ast.Name) and x.value.id == m_.self_name:
                    if x.attr in helpers:
                        used.add(x.attr)
                    elif x.attr in ("points", "convex_polygons", "point_set", "segment_set"):
                        ordered.append(x)
                    else:
                        todo_.append((repo.cls(cname).lookup(x.attr), d_ + 1))
        # an inline commutative aggregate -- sum(hash(p) for p in self.points) -- is the helper written in place
        from ..astutil import parents as _parents
        inline_agg = set()
        still = []
        for c_ in comps:
            par_ = _parents(c_)
            for x in ast.walk(c_):
                if isinstance(x, ast.Attribute) and isinstance(x.value, ast.Name) and x.value.id == h.self_name \
                        and x.attr in ("points", "convex_polygons", "point_set", "segment_set"):
                    p_ = par_.get(id(x))
                    g_ = par_.get(id(p_)) if isinstance(p_, ast.comprehension) else None
                    call_ = par_.get(id(g_)) if g_ is not None else None
                    if isinstance(p_, ast.comprehension) and p_.iter is x and isinstance(g_, (ast.GeneratorExp, ast.ListComp, ast.SetComp)) \
                            and len(g_.generators) == 1 and isinstance(call_, ast.Call) and isinstance(call_.func, ast.Name) \
                            and call_.func.id in ("sum", "frozenset", "set") and call_.args and call_.args[0] is g_:
                        inline_agg.add(x.attr)
                    elif isinstance(p_, ast.Call) and isinstance(p_.func, ast.Name) and p_.func.id == "map" and len(p_.args) == 2 and p_.args[1] is x \
                            and isinstance(par_.get(id(p_)), ast.Call) and isinstance(par_[id(p_)].func, ast.Name) \
                            and par_[id(p_)].func.id in ("sum", "frozenset", "set") and par_[id(p_)].args and par_[id(p_)].args[0] is p_:
                        inline_agg.add(x.attr)  # sum(map(hash, self.points))
                    else:
                        still.append(c_)
        if not [o_ for o_ in ordered if not isinstance(o_, ast.Attribute)] or True:
            ordered = [o_ for o_ in ordered if isinstance(o_, ast.Attribute)] + still
        need_cols = {"ConvexPolygon": [{"points"}], "ConvexPolyhedron": [{"convex_polygons"}, {"point_set"}]}[cname]
        covered = used == helpers or all((cols & inline_agg) or any(hn in used for hn in helpers if (("polygon" in hn) == ("convex_polygons" in cols)))
                                         for cols in need_cols)
        ok = not ordered and covered
        res.ob("R8.4", h.where(), "%s.__hash__ uses only order-free aggregates" % cname, ok,
               "components built from %s" % sorted(used) if ok else "reads an ordered collection directly: %s" % [txt(c)[:40] for c in ordered])
        if not ok:
            res.violation("R8.4", h, h.node, "%s.__hash__ must depend on its vertices/faces only through the order-free aggregates %s"
                          % (cname, sorted(helpers)), construct="%s.__hash__ aggregates" % cname)
    ctx.require(res, "R8.4", n + 2 * len(stale), 10, "gauge obligations")


def r81_r83(ctx, res):
    repo, eng = ctx.repo, ctx.types
    n = 0
    for c in repo.classes():
        if "__eq__" in c.methods:
            n += 1
            ok = c.defines("__hash__")
            res.ob("R8.1", "%s:%d" % (c.module.relpath, c.node.lineno), c.name, ok,
                   "defines __eq__ and __hash__" if ok else "defines __eq__ without __hash__ (Python sets __hash__ = None)")
            if not ok:
                res.violation("R8.1", c.methods["__eq__"], c.node, "%s defines __eq__ but no __hash__: instances become unhashable" % c.name,
                              construct=c.name + " eq without hash")
    ctx.require(res, "R8.1", n, 9, "classes defining __eq__")
    for cname in ("Point", "Line", "Plane", "ConvexPolygon", "ConvexPolyhedron"):
        m = repo.cls(cname).lookup("__eq__")
        from ..types import seq as _seq
        foreign = [("a number", S("num")), ("a Vector", S("Vector")), ("a str", S("str")), ("a list of numbers", _seq("list", S("num"))),
                   ("a 3-tuple of numbers", S(("ftuple", (S("num"), S("num"), S("num"))))), ("None", S("None"))]
        for fname_, fty in foreign:
            sm = eng.summary(m, (S(cname), fty))
            if sm is None:
                if fname_ == "a number":
                    raise AnalysisError("%s.__eq__ was not evaluated on a foreign type" % cname)
                continue
            from ..astutil import identity_fast_path_returns
            fast_ = identity_fast_path_returns(m.node, m.params[0], m.params[1]) if len(m.params) >= 2 else set()
            rets = [r for r in walk_local(m.node) if isinstance(r, ast.Return) and id(r) in sm.reached and id(r) not in fast_]
            def false_here(v_):
                """the returned expression is False for this foreign operand: the constant, or `isinstance(other, C) and ...`
                with C one of the package's own classes (the conjunction stops at the first false operand)"""
                if isinstance(v_, ast.Constant) and v_.value is False:
                    return True
                if isinstance(v_, ast.BoolOp) and isinstance(v_.op, ast.And) and v_.values:
                    t0 = v_.values[0]
                    if isinstance(t0, ast.Call) and isinstance(t0.func, ast.Name) and t0.func.id == "isinstance" and len(t0.args) == 2 \
                            and isinstance(t0.args[0], ast.Name) and len(m.params) >= 2 and t0.args[0].id == m.params[1]:
                        names_ = [x.id for x in ([t0.args[1]] if isinstance(t0.args[1], ast.Name) else
                                                 (t0.args[1].elts if isinstance(t0.args[1], ast.Tuple) else [])) if isinstance(x, ast.Name)]
                        foreign_cls = "Vector" if fname_ == "a Vector" else None
                        return bool(names_) and all(repo.has_cls(n_) for n_ in names_) and foreign_cls not in names_
                return False
            ok = bool(rets) and all(false_here(r.value) for r in rets) and not sm.raises
            res.ob("R8.2", m.where(), "%s.__eq__(%s)" % (cname, fname_), ok,
                   "returns False" if ok else "reaches %s" % [txt(r)[:40] for r in rets])
            if not ok:
                res.violation("R8.2", m, m.node, "%s.__eq__ does not return False for %s: it evaluates %s -- a foreign object that is "
                              "converted or compared field by field makes == asymmetric (the other side's __eq__ does not agree) and "
                              "equal objects hash differently" % (cname, fname_, [txt(r)[:50] for r in rets] or "a raise"),
                              construct=cname + ".__eq__ foreign type " + fname_)
    for cname in ("ConvexPolygon", "ConvexPolyhedron"):
        m = repo.cls(cname).lookup("__eq__")
        sm = eng.summary(m, (S(cname), S(cname)))
        rets = [r for r in walk_local(m.node) if isinstance(r, ast.Return) and sm is not None and id(r) in sm.reached]
        a, b = m.params[:2]
        from ..astutil import identity_fast_path_returns
        fast = identity_fast_path_returns(m.node, a, b)  # `if other is self: return True` does not change the relation
        rets = [r for r in rets if id(r) not in fast]
        want = {"hash(%s) == hash(%s)" % (a, b), "hash(%s) == hash(%s)" % (b, a)}

        def core_(v_):
            # `isinstance(other, C) and hash(other) == hash(self)`: for two objects of the class the relation is the hash equality
            if isinstance(v_, ast.BoolOp) and isinstance(v_.op, ast.And) and len(v_.values) == 2 and isinstance(v_.values[0], ast.Call) \
                    and isinstance(v_.values[0].func, ast.Name) and v_.values[0].func.id == "isinstance":
                return v_.values[1]
            return v_
        ok = len(rets) == 1 and txt(core_(rets[0].value)) in want
        res.ob("R8.3", m.where(), "%s.__eq__ is hash equality" % cname, ok, "returns `%s`" % (txt(rets[0].value) if rets else "-"))
        if not ok:
            res.violation("R8.3", m, m.node, "%s.__eq__ is documented as equality of the order-free hashes; it returns `%s`, so "
                          "a == b no longer implies equal hashes by construction" % (cname, txt(rets[0].value) if rets else "-"),
                          construct=cname + ".__eq__ hash equality")


def r86_r87(ctx, res):
    repo = ctx.repo
    # Segment.__eq__: both pairings
    m = repo.cls("Segment").lookup("__eq__")
    rets = [r for r in walk_local(m.node) if isinstance(r, ast.Return)]
    a, b = m.params[:2]
    pairings = set()
    ok = False
    if len(rets) == 1 and rets[0].value is not None:
        from ..astutil import inline_self_calls
        import copy as _copy
        r0 = _copy.copy(rets[0])
        r0.value = inline_self_calls(repo.cls("Segment").lookup, m.self_name, rets[0].value)  # self._has_endpoints(p, q) read as its body
        rets = [r0]
    if len(rets) == 1 and isinstance(rets[0].value, ast.BoolOp):
        top = rets[0].value
        for alt in (top.values if isinstance(top.op, ast.Or) else [top]):
            if isinstance(alt, ast.BoolOp) and isinstance(alt.op, ast.And):
                ps = set()
                for c in alt.values:
                    if isinstance(c, ast.Compare) and len(c.ops) == 1 and isinstance(c.ops[0], ast.Eq):
                        l, r = txt(c.left), txt(c.comparators[0])
                        if l.startswith(b + "."):
                            l, r = r, l
                        if l.startswith(a + ".") and r.startswith(b + "."):
                            ps.add((l.split(".", 1)[1], r.split(".", 1)[1]))
                pairings.add(frozenset(ps))
        ident = frozenset({("start_point", "start_point"), ("end_point", "end_point")})
        swapped = frozenset({("start_point", "end_point"), ("end_point", "start_point")})
        ok = ident in pairings and swapped in pairings
    res.ob("R8.6", m.where(), "Segment.__eq__ pairings", ok, "identity and swapped end-point pairings are both accepted" if ok
           else "pairings found: %s" % [sorted(p) for p in pairings])
    if not ok:
        if not pairings:
            raise AnalysisError("Segment.__eq__ has an unrecognised shape")
        res.violation("R8.6", m, m.node, "Segment.__eq__ must accept both the identical and the swapped end-point pairing; found %s"
                      % [sorted(p) for p in pairings], construct="Segment.__eq__ pairings")
    # direction fields only through invariant predicates
    for cname, field, allow_norm in (("Line", "dv", False), ("Plane", "n", False), ("HalfLine", "vector", True)):
        m = repo.cls(cname).lookup("__eq__")
        # __eq__ together with the methods of the class it delegates to (self._same_direction(other))
        bodies = [m]
        for fm in bodies:
            for x in walk_local(fm.node):
                if isinstance(x, ast.Call) and isinstance(x.func, ast.Attribute) and isinstance(x.func.value, ast.Name) \
                        and x.func.value.id in (fm.params[:2]) and len(bodies) < 6:
                    callee = repo.cls(cname).lookup(x.func.attr)
                    if callee is not None and callee.cls.name == cname and all(callee is not y for y in bodies):
                        bodies.append(callee)
        par = {}
        for fm in bodies:
            for x in ast.walk(fm.node):
                for ch in ast.iter_child_nodes(x):
                    par[id(ch)] = x
        bad = []
        k = 0
        for x in [y for fm in bodies for y in walk_local(fm.node)]:
            if isinstance(x, ast.Attribute) and x.attr == field:
                k += 1
                p = par.get(id(x))
                okuse = False
                # receiver or argument of .parallel(...)
                if isinstance(p, ast.Attribute) and p.attr == "parallel" and p.value is x:
                    okuse = True
                if isinstance(p, ast.Call) and isinstance(p.func, ast.Attribute) and p.func.attr == "parallel" and x in p.args:
                    okuse = True
                if allow_norm and isinstance(p, ast.Attribute) and p.attr in ("normalized", "unit") and p.value is x:
                    okuse = True
                # handed to a function of the module that uses its parameter only through invariant forms
                if isinstance(p, ast.Call) and isinstance(p.func, ast.Name) and any(a is x for a in p.args):
                    b = m.resolve(p.func.id)
                    if b is not None and b.kind == "func" and b.target.cls is None:
                        callee = b.target
                        idx = [i for i, a in enumerate(p.args) if a is x][0]
                        if idx < len(callee.params):
                            pn = callee.params[idx]
                            cpar = {}
                            for y in ast.walk(callee.node):
                                for ch in ast.iter_child_nodes(y):
                                    cpar[id(ch)] = y
                            uses = [y for y in walk_local(callee.node) if isinstance(y, ast.Name) and y.id == pn and isinstance(y.ctx, ast.Load)]
                            def inv(y):
                                q = cpar.get(id(y))
                                if isinstance(q, ast.Attribute) and q.value is y and (q.attr == "parallel" or (allow_norm and q.attr in ("normalized", "unit"))):
                                    return True
                                return isinstance(q, ast.Call) and isinstance(q.func, ast.Attribute) and q.func.attr == "parallel" and y in q.args
                            if uses and all(inv(y) for y in uses):
                                okuse = True
                if not okuse:
                    bad.append(x)
        ok = k > 0 and not bad
        res.ob("R8.7", m.where(), "%s.__eq__ uses `%s` only through scale-invariant forms" % (cname, field), ok,
               "%d uses, all under parallel()%s" % (k, " / normalized()" if allow_norm else "") if ok else
               "raw use `%s`" % (txt(par.get(id(bad[0]), bad[0]))[:60] if bad else "field not used"))
        if not ok:
            res.violation("R8.7", m, bad[0] if bad else m.node,
                          "%s.__eq__ uses the direction `%s` in a way that depends on its length/sign (`%s`): equal sets built "
                          "from rescaled directions would compare unequal" % (cname, field, txt(par.get(id(bad[0]), bad[0]))[:60] if bad else "-"),
                          construct="%s.__eq__ raw %s" % (cname, field))


def r85_support_point(ctx, res):
    """invariance of the hash under the choice of the support point (polynomial normal forms)"""
    from ..algebra import HashInterp, SObj, canon, padd, pmul, P, vec_components, sym_vector, sym_point
    repo = ctx.repo

    def line_form(shift: bool) -> str:
        it = HashInterp(repo)
        s_, d_ = sym_vector(it, "s"), sym_vector(it, "d")
        if shift:
            t = P("t")
            sc = vec_components(it, s_)
            dc = vec_components(it, d_)
            s_ = it.new("Vector", *[padd(sc[i], pmul(t, dc[i])) for i in range(3)])
        o = SObj("Line", {"sv": s_, "dv": d_})
        return canon(it.call_fn(repo.cls("Line").lookup("__hash__"), [o]))

    def plane_form(shift: bool) -> str:
        it = HashInterp(repo)
        n_ = sym_vector(it, "n")
        p_ = sym_point(it, "p")
        if shift:
            u = sym_vector(it, "u")
            w = vec_components(it, it.method(n_, "cross", u))  # any in-plane displacement is n x u
            pc = vec_components(it, p_)
            p_ = it.new("Point", *[padd(pc[i], w[i]) for i in range(3)])
        o = SObj("Plane", {"p": p_, "n": n_})
        return canon(it.call_fn(repo.cls("Plane").lookup("__hash__"), [o]))

    for cname, form, what in (("Line", line_form, "sv -> sv + t*dv (any other point of the line)"),
                              ("Plane", plane_form, "p -> p + n x u (any other point of the plane)")):
        h = repo.cls(cname).lookup("__hash__")
        try:
            f0, f1 = form(False), form(True)
        except AnalysisError as e:
            res.undecided_ob("%s.__hash__ support-point gauge: outside the handled fragment (%s)" % (cname, e))
            res.note("R8.5 %s.__hash__: support-point invariance not decided: %s" % (cname, e))
            continue
        ok = f0 == f1
        res.ob("R8.5", h.where(), "%s.__hash__ vs %s" % (cname, what), ok,
               "normal forms of the hashed value are identical" if ok else "the hashed value changes")
        if not ok:
            res.violation("R8.5", h, h.node, "%s.__hash__ depends on which point of the %s is stored: under %s the hashed value "
                          "changes although the objects are equal" % (cname, cname.lower(), what),
                          construct="%s.__hash__ support point" % cname, detail={"before": f0[:300], "after": f1[:300]})


# R8.9 -- the coordinate hash separates: ConvexPolygon / ConvexPolyhedron equality *is* hash equality, and the hash of a
# polygon is accumulated from the hashes of its vertices, so two different vertices must not hash alike systematically.
COORD_ATOMS = {"Point": ("self.x", "self.y", "self.z"), "Vector": ("self._v[0]", "self._v[1]", "self._v[2]")}


def r89_separation(ctx, res):
    n = 0
    for cname, atoms in COORD_ATOMS.items():
        c = ctx.repo.cls(cname)
        h = c.lookup("__hash__")
        if h is None or h.cls.name != cname:
            res.note("%s has no __hash__ of its own (reported by R8.1); separation not evaluated" % cname)
            continue
        comps = hashed_components(h)
        # locals of the hash:  x = round(self.x, d)   /   x, y, z = (round(c, d) for c in (self.x, self.y, self.z) | self._v)
        local: Dict[str, ast.AST] = {}
        for st in walk_local(h.node):
            if not (isinstance(st, ast.Assign) and len(st.targets) == 1):
                continue
            t, v = st.targets[0], st.value
            if isinstance(t, ast.Name):
                local[t.id] = v if t.id not in local else None
            elif isinstance(t, (ast.Tuple, ast.List)) and all(isinstance(x, ast.Name) for x in t.elts):
                elems = None
                if isinstance(v, (ast.Tuple, ast.List)) and len(v.elts) == len(t.elts):
                    elems = list(v.elts)
                elif isinstance(v, (ast.GeneratorExp, ast.ListComp)) and len(v.generators) == 1 and not v.generators[0].ifs \
                        and isinstance(v.generators[0].target, ast.Name):
                    it = v.generators[0].iter
                    src = list(it.elts) if isinstance(it, (ast.Tuple, ast.List)) else (
                        [ast.parse(a, mode="eval").body for a in atoms] if txt(it) == atoms[0].rsplit("[", 1)[0] and "[" in atoms[0] else None)
                    if src is not None and len(src) == len(t.elts):
                        var = v.generators[0].target.id

                        class Sub(ast.NodeTransformer):
                            def __init__(self, repl):
                                self.repl = repl

                            def visit_Name(self, node):
                                return self.repl if node.id == var else node
                        import copy as _copy
                        elems = [Sub(x).visit(_copy.deepcopy(v.elt)) for x in src]
                if elems is not None:
                    for x, e_ in zip(t.elts, elems):
                        local[x.id] = e_ if x.id not in local else None

        def poly(e, depth=0) -> Optional[Poly]:
            t = txt(e)
            if t in atoms:
                return P(t)
            if isinstance(e, ast.Name) and local.get(e.id) is not None and depth < 4:
                return poly(local[e.id], depth + 1)
            if isinstance(e, ast.Call) and isinstance(e.func, ast.Name) and e.func.id in ("round", "float") and e.args:
                return poly(e.args[0], depth)  # rounding to the significant figures: monotone, identity on the lattice of rounded values
            if isinstance(e, ast.Constant) and isinstance(e.value, (int, float)) and not isinstance(e.value, bool):
                return C(e.value)
            if isinstance(e, ast.UnaryOp) and isinstance(e.op, ast.USub):
                q = poly(e.operand, depth)
                return None if q is None else pmul(C(-1), q)
            if isinstance(e, ast.BinOp) and isinstance(e.op, (ast.Add, ast.Sub, ast.Mult)):
                l, r = poly(e.left, depth), poly(e.right, depth)
                if l is None or r is None:
                    return None
                return padd(l, r) if isinstance(e.op, ast.Add) else (padd(l, r, -1) if isinstance(e.op, ast.Sub) else pmul(l, r))
            return None

        polys, opaque = [], []
        for cmp_ in comps:
            if isinstance(cmp_, ast.Constant):
                continue
            q = poly(cmp_)
            (polys if q is not None else opaque).append((cmp_, q))
        for a in atoms:
            n += 1
            lab = "%s.__hash__ separates `%s`" % (cname, a)
            alone = [cmp_ for cmp_, q in polys
                     if any(k == (a,) and v != 0 for k, v in q.items()) and all(k in ((), (a,)) for k, v in q.items() if v != 0)]
            if alone:
                res.ob("R8.9", h.where(alone[0]), lab, True, "component `%s` is an injective function of this coordinate alone" % txt(alone[0])[:50])
                continue
            pure = [q for _, q in polys if any(v != 0 and k and all(x == a for x in k) for k, v in q.items())]
            if opaque or pure:
                res.note("%s: whether the hashed components separate `%s` is not decided (%s)" % (
                    h.where(), a, "`%s`" % txt(opaque[0][0])[:50] if opaque else "it enters through non-linear components only"))
                continue
            # every component that mentions the coordinate vanishes with the other coordinates: a family of collisions
            others = [b for b in atoms if b != a]
            res.ob("R8.9", h.where(), lab, False, "with %s = 0 no hashed component depends on it" % ", ".join(others))
            res.violation("R8.9", h, h.node,
                          "%s.__hash__ does not separate `%s`: no hashed component is a function of it alone, and with %s = 0 every "
                          "component that mentions it vanishes, so all such %ss hash alike. ConvexPolygon / ConvexPolyhedron equality "
                          "is equality of the accumulated vertex hashes: two different polygons that differ in such a vertex compare equal"
                          % (cname, a, " = ".join(others), cname.lower()),
                          construct="%s.__hash__ separation of %s" % (cname, a),
                          detail={"hashed components": [txt(c_)[:80] for c_ in comps]})
    ctx.require(res, "R8.9", n, 3, "coordinates of Point and Vector")


def r810_exact(ctx, res):
    """R8.10: every decision inside __eq__ / __hash__ (and what they reach) is tolerant (R-EXACT)"""
    from ..exact import report_exact
    eng = ctx.types
    roots = []
    for c in ctx.repo.classes():
        if c.name not in GEOM7 and c.name != "Vector":
            continue
        for m in ("__eq__", "__hash__"):
            f = c.lookup(m)
            if f is None:
                continue
            args = (S(c.name), S(c.name)) if m == "__eq__" else (S(c.name),)
            if eng.summary(f, args) is not None:
                roots.append((f, args))
    reached = eng.reached_from(roots)
    fns = [f for f in ctx.repo.functions(include_visualization=False) if f.qual in reached]
    k = report_exact(ctx, res, "R8.10", fns, "__eq__ / __hash__")
    ctx.require(res, "R8.10", len(roots), 12, "__eq__ / __hash__ contexts")
    ctx.require(res, "R8.10", k, 10, "decision atoms reached from __eq__ / __hash__")


def run(ctx, res):
    res.explanation = (
        "Static decision of the hashing/equality structure: __eq__/__hash__ pairing; foreign types compare False "
        "(abstract evaluation of __eq__ on a foreign type); polygon/polyhedron equality is hash equality; every "
        "__hash__ is invariant under the representation freedoms its __eq__ ignores -- Line: length and sign of dv "
        "(degree 0 and even parity of every hashed component), Plane: sign of n, HalfLine: positive scale of vector, "
        "Segment: exchange of end points (symmetric polynomials), ConvexPolygon: plane orientation (symmetric-pair "
        "idiom g(X)+g(-X)), polygon/polyhedron: vertex/face order (commutative accumulation) -- in a degree/parity "
        "abstract domain over the hashed expressions; Segment.__eq__ accepts both end-point pairings; __eq__ uses "
        "direction fields only under parallel()/normalized(); the Line and Plane hashes do not depend on which "
        "support point is stored (polynomial normal forms of the hashed value under sv -> sv + t*dv and p -> p + n x u). "
        "NOT decided: that unequal sets compare unequal, rounding-boundary effects."
    )
    r81_r83(ctx, res)
    stale = r88_pure(ctx, res)
    r84(ctx, res, stale)
    r86_r87(ctx, res)
    r85_support_point(ctx, res)
    r89_separation(ctx, res)
    r810_exact(ctx, res)
    res.undecided_ob("objects denoting different sets compare unequal; rounding-boundary effects; int/Fraction mixing")
