"""C20 -- queries are pure and composite objects own their data.

Decides (effect / ownership summaries, whole call graph): R20.1 no function
other than the declared in-place mutators may write an object reachable from a
parameter, from self or from a module global; the mutators write only their own
receiver / matrix; R20.2 no query writes or reads mutable module state other
than the tolerance configuration and the logger, no class-level mutable state;
R20.3 the constructors of Segment, HalfLine, ConvexPolygon, ConvexPolyhedron
capture nothing by reference (every stored value passed through deepcopy or is
fresh) and Line built from Points stores only fresh vectors; R20.4 the
preconditions under which the default deep copy is independent and equal.
"""
from __future__ import annotations

import ast
from typing import Dict, List, Optional, Set, Tuple

from ..astutil import txt
from ..effects import Analysis, Summary
from ..model import GEOM7, AnalysisError, FunctionInfo, walk_local
from ..types import S

# in-place mutators: name -> roots they are allowed to write
OWNING = ["Segment", "HalfLine", "ConvexPolygon", "ConvexPolyhedron"]
ALLOWED_GLOBAL_READS = {"G:constant.FLOAT_EPS", "G:constant.SIG_FIGURES", "G:logger.main_logger", "G:logger.log_level"}


def ctor_internal(ctx, fi: FunctionInfo) -> bool:
    """private method whose only callers are the constructor (or other ctor-internal methods) of its class"""
    if fi.cls is None or not fi.name.startswith("_") or fi.name.startswith("__"):
        return False
    g = ctx.types.call_graph()
    callers = {a for a, bs in g.items() if fi.qual in bs}
    if not callers:
        return False
    for c in callers:
        cf = ctx.types.fn_by_qual[c]
        if cf.cls is not fi.cls:
            return False
        if cf.name != "__init__" and not (cf is not fi and ctor_internal_cached(ctx, cf)):
            return False
    return True


def ctor_internal_cached(ctx, fi):
    k = ("ctor_internal", fi.qual)
    if k not in ctx.cache:
        ctx.cache[k] = False  # break cycles
        ctx.cache[k] = ctor_internal(ctx, fi)
    return ctx.cache[k]


def allowed_roots(ctx, fi: FunctionInfo) -> Optional[Set[str]]:
    """roots a function may legitimately write; None = not a mutator (must be pure)"""
    if fi.cls is not None and fi.params:
        selfroot = "P:" + fi.params[0]
        if fi.name in ("move", "__setitem__", "__init__"):
            return {selfroot}
        if ctor_internal_cached(ctx, fi):
            return {selfroot}
    if fi.cls is None and fi.module.name.endswith("utils.solver") and fi.name in ("gaussian_elimination", "solve"):
        return {"P:" + fi.params[0]}
    if fi.name.startswith("_") and not (fi.name.startswith("__") and fi.name.endswith("__")):
        # a private helper may fill / update containers its caller hands to it (out-parameter pattern); whether an
        # operand of a *public* operation is affected is decided at the public callers through the summaries
        return {"P:" + p for p in fi.params}
    return None


def r201(ctx, res, include_visualization: bool):
    ef = ctx.effects
    n = 0
    n_mut = 0
    derived: Dict[Tuple[str, str], List[str]] = {}
    for fi in ctx.repo.functions(include_visualization=include_visualization):
        s = ef.summ[fi.qual]
        if ".visualization" in fi.module.name and fi.cls is not None and fi.name in ("add", "show", "__init__"):
            continue  # the visualizer collects objects into its own sets by design
        allowed = allowed_roots(ctx, fi)
        n += 1
        bad = sorted(r for r in s.mut if not (allowed is not None and r in allowed))
        label = fi.short
        if allowed is not None:
            n_mut += 1
        if not bad:
            if allowed is not None or s.retS or s.retE or n % 5 == 0:
                res.ob("R20.1", fi.where(), label, True,
                       ("in-place mutator: writes only %s" % sorted(allowed)) if allowed is not None
                       else "no write to any object reachable from a parameter, self or a global",
                       nontrivial=allowed is not None or bool(s.retS or s.retE))
            continue
        for r in bad:
            chain = ef.chain(fi.qual, r)
            # derived effect?  the write happens inside a callee that is itself reported (not a legitimate
            # mutator for that root): report the root cause only and list this function among the affected callers
            where_w, what_w = s.mut[r]
            if what_w.startswith("call of ") and "{" in what_w:
                cq = what_w[len("call of "):].split(" ")[0]
                cr = what_w.split("{")[1].split("}")[0]
                cf = ctx.types.fn_by_qual.get(cq)
                if cf is not None:
                    c_allowed = allowed_roots(ctx, cf)
                    if not (c_allowed is not None and cr in c_allowed):
                        derived.setdefault((cq, cr), []).append(fi.short)
                        res.ob("R20.1", fi.where(), label, False, "affected through %s" % cf.short, nontrivial=False)
                        continue
            res.ob("R20.1", fi.where(), label, False, "may write %s" % r)
            what = "its argument `%s`" % r[2:] if r.startswith("P:") and (fi.cls is None or r != "P:" + fi.params[0]) else \
                ("its receiver" if r.startswith("P:") else "module state %s" % r[2:])
            res.violation(
                "R20.1", fi, fi.node,
                "%s %s modifies %s in place" % ("the in-place operation" if allowed is not None else "the query/constructor", fi.short, what),
                construct="%s writes %s" % (fi.short, r),
                detail={"effect chain (outermost first)": chain})
    for f in res.findings:
        if f.rule == "R20.1":
            for (cq, cr), callers in derived.items():
                if cq.split(":")[-1] == f.function:
                    f.detail["callers affected (transitively)"] = sorted(set(callers))[:40]
    seen_m = set()
    for where_m, short_m, f_m, why_m in ef.memo_stores:
        if (short_m, f_m) in seen_m:
            continue
        seen_m.add((short_m, f_m))
        res.ob("R20.1", where_m, "%s stores `%s`" % (short_m, f_m), True,
               "%s: initialised to None, written only behind its sentinel test, read by nothing but its accessors, cannot go stale" % why_m)
    res.count("functions analysed", n)
    res.count("declared in-place mutators", n_mut)
    ctx.require(res, "R20.1", n, 150, "functions")
    # the calls of in-place mutators made by non-mutators, with their receivers (evidence)
    seen = set()
    for m in ef.mutator_sites:
        k = (m["where"], m["text"])
        if k in seen:
            continue
        seen.add(k)
        caller = ctx.types.fn_by_qual[m["caller"]]
        if allowed_roots(ctx, caller) is not None:
            continue
        fresh = not m["recv"].S
        res.ob("R20.1", m["where"], "%s: `%s`" % (caller.short, m["text"]), fresh,
               "receiver is a fresh object (deep copy / constructor result)" if fresh else "receiver may be %s" % sorted(m["recv"].S))
    res.count("in-place mutator calls on fresh receivers", len(seen))


def r202(ctx, res):
    ef = ctx.effects
    n = 0
    for fi in ctx.repo.functions(include_visualization=False):
        s = ef.summ[fi.qual]
        if fi.module.name.endswith(("utils.constant", "utils.logger")):
            continue
        n += 1
        for r, (where, what) in sorted(s.gwrite.items()):
            res.ob("R20.2", where, "%s writes %s" % (fi.short, r), False, what)
            res.violation("R20.2", fi, fi.node, "%s writes module-level state %s (%s): later queries depend on the history" % (
                fi.short, r[2:], what), construct="%s writes global %s" % (fi.short, r))
        for r, (where, what) in sorted(s.gread.items()):
            if r in ALLOWED_GLOBAL_READS:
                continue
            res.ob("R20.2", where, "%s reads %s" % (fi.short, r), False, what)
            res.violation("R20.2", fi, fi.node, "%s reads the mutable module global %s (%s)" % (fi.short, r[2:], what),
                          construct="%s reads global %s" % (fi.short, r))
    res.ob("R20.2", "geometry/ calc/ utils/", "%d functions" % n, True,
           "no write of module state outside utils/constant.py and utils/logger.py; mutable globals read: tolerance configuration and logger only")
    # memoised functions hand out shared objects
    eng = ctx.types
    for fi in ctx.repo.functions(include_visualization=False):
        if not fi.memoized:
            continue
        rets = set()
        for _, sm in eng.summaries_of(fi):
            rets |= set(sm.ret)
        mutable = sorted(str(t) for t in rets if eng.is_class_tag(t) or (isinstance(t, tuple) and t[0] in ("list", "set", "dict")))
        ok = not mutable
        res.ob("R20.2", fi.where(), "%s is memoised (%s)" % (fi.short, ", ".join(fi.decorators)), ok,
               "remembered results are immutable values" if ok else "remembered results are mutable objects: %s" % mutable)
        if not ok:
            res.violation("R20.2", fi, fi.node,
                          "%s is memoised and returns a mutable %s: every caller receives the same object, so an in-place change made "
                          "through one of them (move, coordinate assignment, Line.move on a stored vector) changes what all later "
                          "calls return -- answers depend on the history" % (fi.short, "/".join(mutable)),
                          construct="%s memoised mutable result" % fi.short)
    # class-level mutable state
    k = 0
    for c in ctx.repo.classes():
        for name, val in c.attrs.items():
            k += 1
            mutable = isinstance(val, (ast.List, ast.Dict, ast.Set, ast.ListComp, ast.DictComp, ast.SetComp)) or (
                isinstance(val, ast.Call) and isinstance(val.func, ast.Name) and val.func.id in ("list", "dict", "set", "defaultdict"))
            res.ob("R20.2", "%s:%d" % (c.module.relpath, val.lineno), "%s.%s" % (c.name, name), not mutable,
                   "immutable class constant" if not mutable else "class-level mutable object shared by all instances", nontrivial=False)
            if mutable:
                res.violation("R20.2", None, val, "class attribute %s.%s is a mutable object shared by all instances" % (c.name, name),
                              construct="%s.%s class-level mutable" % (c.name, name), file=c.module.relpath, function=c.name)
    res.count("class attributes", k)


def r203(ctx, res):
    ef = ctx.effects
    eng = ctx.types
    for cname in OWNING:
        init = ctx.repo.cls(cname).lookup("__init__")
        s = ef.summ[init.qual]
        caps = {r: w for r, w in s.cap.items() if r != "P:" + init.params[0]}
        ok = not caps
        res.ob("R20.3", init.where(), cname + ".__init__", ok,
               "every value stored in the object is fresh (deep copy, constructor result or computed)" if ok else "captures %s" % sorted(caps))
        for r, (where, what) in sorted(caps.items()):
            res.violation("R20.3", init, init.node,
                          "%s.__init__ keeps a reference to its argument `%s` (%s at %s): later mutation of the argument changes the %s"
                          % (cname, r[2:], what, where, cname), construct="%s.__init__ captures %s" % (cname, r[2:]))
    # Line built from Points: path-restricted run on the E1 contexts (Point, Point) and (Point, Vector)
    line_init = ctx.repo.cls("Line").lookup("__init__")
    for form, roots_must_be_fresh in ((("Point", "Point"), {"P:a", "P:b"}), (("Point", "Vector"), {"P:a"})):
        sm = eng.summary(line_init, (S("Line"),) + tuple(S(t) for t in form))
        if sm is None:
            raise AnalysisError("no type summary for Line%s" % (form,))
        tmp = Summary()
        saved = ef.changed
        Analysis(ef, line_init, summary=tmp, reached=sm.reached, branches=sm.branches).run()
        ef.changed = saved
        caps = {r for r in tmp.cap if r in roots_must_be_fresh}
        ok = not caps
        res.ob("R20.3", line_init.where(), "Line%s" % (form,), ok,
               "Point arguments are converted to fresh position vectors" if ok else "captures %s" % sorted(caps))
        if not ok:
            res.violation("R20.3", line_init, line_init.node,
                          "Line%s keeps a reference to its Point argument(s) %s" % (form, sorted(c[2:] for c in caps)),
                          construct="Line%s captures %s" % (form, sorted(caps)))
    # informational: constructors that do capture (allowed by the statement)
    for cname in ("Line", "Plane", "Pyramid", "Vector"):
        init = ctx.repo.cls(cname).lookup("__init__")
        caps = sorted(r[2:] for r in ef.summ[init.qual].cap if r != "P:" + init.params[0])
        if caps:
            res.note("%s.__init__ stores %s by reference (not among the owning types of C20; reported for information)" % (cname, caps))


COPY_HOOKS = {"__copy__", "__deepcopy__", "__reduce__", "__reduce_ex__", "__getstate__", "__setstate__", "__getnewargs__",
              "__getnewargs_ex__"}


def _immutable_tags(tags) -> bool:
    from ..memo import _immutable
    return _immutable(tags)


def _elements(tags):
    out = set()
    for t in tags:
        if isinstance(t, tuple) and t[0] in ("list", "tuple", "set", "iter"):
            out |= set(t[1])
        else:
            return None
    return out


def _rebuilds(v: ast.AST, sn: str, f: str) -> bool:
    """the value is the field rebuilt from immutable parts: Point(x.x, x.y, x.z) / Point(*x) / copy.deepcopy(x) for the field itself
    or for every element of it (tuple / list / set of such elements over `for x in self.f`)"""
    def fresh(e, var_txt) -> bool:
        if isinstance(e, ast.Call) and txt(e.func) in ("copy.deepcopy", "deepcopy") and e.args and txt(e.args[0]) == var_txt:
            return True
        if isinstance(e, ast.Call) and isinstance(e.func, ast.Name) and e.func.id in ("Point", "Vector"):
            if len(e.args) == 3 and [txt(a) for a in e.args] == ["%s.%s" % (var_txt, k) for k in ("x", "y", "z")]:
                return True
            if len(e.args) == 3 and [txt(a) for a in e.args] == ["%s[%d]" % (var_txt, k) for k in range(3)]:
                return True
            if len(e.args) == 1 and isinstance(e.args[0], ast.Starred) and txt(e.args[0].value) == var_txt:
                return True
        return False
    own = "%s.%s" % (sn, f)
    if fresh(v, own):
        return True
    comp = v
    if isinstance(v, ast.Call) and isinstance(v.func, ast.Name) and v.func.id in ("tuple", "list", "set", "frozenset") and len(v.args) == 1:
        comp = v.args[0]
    if isinstance(comp, (ast.GeneratorExp, ast.ListComp, ast.SetComp)) and len(comp.generators) == 1 and not comp.generators[0].ifs \
            and isinstance(comp.generators[0].target, ast.Name) and txt(comp.generators[0].iter) == own:
        return fresh(comp.elt, comp.generators[0].target.id)
    return False


def verify_deepcopy_hook(ctx, res, c, h) -> None:
    """__deepcopy__(self, memo) must be the structural deep copy written out: an instance made with __new__ (no
    constructor side effects), every field of the class either deep-copied (copy.deepcopy(self.f, memo)), or shared
    while its values are immutable, or a fresh container of immutable elements; the new instance is returned."""
    eng = ctx.types
    where = h.where()
    if len(h.params) != 2:
        raise AnalysisError("%s: __deepcopy__ must take (self, memo)" % where)
    sn, memo = h.params
    fields = set()
    for k in c.mro():
        fields |= {f for (cn, f) in eng.fields if cn == k.name}
    body = [s_ for s_ in h.node.body if not (isinstance(s_, ast.Expr) and isinstance(s_.value, ast.Constant))]
    for st in body:
        if isinstance(st, ast.Return) and isinstance(st.value, ast.Name) and st.value.id == sn:
            res.ob("R20.4", h.where(st), "%s.__deepcopy__" % c.name, False, "returns the object itself")
            res.violation("R20.4", h, st, "%s.__deepcopy__ returns the object itself: a deep copy is the original, every in-place change "
                          "shows through, and the owning constructors that deep-copy their arguments own nothing" % c.name,
                          construct="%s.__deepcopy__ returns self" % c.name)
            return
    new = None
    cls_names = {"%s.__class__" % sn, "type(%s)" % sn, c.name}
    status: Dict[str, Tuple[str, ast.AST]] = {}
    # constructor form: `return C(self.f, self.g, ...)` -- decided only in the negative: a mutable field handed to a
    # constructor that stores its argument by reference is shared between the copy and the original
    if len(body) == 1 and isinstance(body[0], ast.Return) and isinstance(body[0].value, ast.Call) \
            and txt(body[0].value.func) in cls_names and not body[0].value.keywords:
        call = body[0].value
        init = c.lookup("__init__")
        cap = ctx.effects.summ[init.qual].cap if init is not None else {}
        for i, a in enumerate(call.args):
            if not (isinstance(a, ast.Attribute) and isinstance(a.value, ast.Name) and a.value.id == sn):
                continue
            f = a.attr
            ty = frozenset()
            for k in c.mro():
                ty |= eng.fields.get((k.name, f), frozenset())
            if _immutable_tags(ty):
                continue
            pname = init.params[i + 1] if init is not None and i + 1 < len(init.params) else (init.vararg if init is not None else None)
            w = cap.get("P:%s" % pname) if pname else None
            if w is not None:
                res.ob("R20.4", h.where(a), "%s.__deepcopy__: field %s" % (c.name, f), False,
                       "handed to the constructor, which keeps it by reference (%s: %s)" % w)
                res.violation("R20.4", h, body[0], "%s.__deepcopy__ does not produce an independent copy: field `%s` (%s) is handed to the "
                              "constructor, which keeps its argument by reference (%s: %s), so the copy refers to the SAME object as the "
                              "original; a later in-place change of the original (move) shows through the copy, and every owning "
                              "constructor that deep-copies its arguments inherits the leak" % (c.name, f, show_tags(ty), w[0], w[1]),
                              construct="%s.__deepcopy__ field %s" % (c.name, f))
                return
        raise AnalysisError("%s: %s.__deepcopy__ rebuilds the object through its constructor; that the result equals the original "
                            "field by field is not decided" % (where, c.name))
    returned = False
    for st in body:
        if isinstance(st, ast.Assign) and len(st.targets) == 1 and isinstance(st.targets[0], ast.Name):
            v = st.value
            if txt(v) in ("%s.__class__" % sn, "type(%s)" % sn):
                cls_names.add(st.targets[0].id)
                continue
            if isinstance(v, ast.Call) and isinstance(v.func, ast.Attribute) and v.func.attr == "__new__" and len(v.args) == 1 \
                    and txt(v.func.value) in cls_names | {"object"} and txt(v.args[0]) in cls_names and new is None:
                new = st.targets[0].id
                continue
            if txt(v) in ("copy.copy(%s)" % sn, "copy(%s)" % sn) and new is None:
                # a shallow copy: a new instance whose fields all refer to the original's values, until overwritten
                new = st.targets[0].id
                for f in fields:
                    status[f] = ("shared", st)
                continue
            raise AnalysisError("%s: unrecognised statement `%s` in %s.__deepcopy__" % (h.where(st), txt(st)[:60], c.name))
        if new is None:
            raise AnalysisError("%s: %s.__deepcopy__ does not start by creating the instance with __new__" % (h.where(st), c.name))
        if isinstance(st, ast.Return):
            returned = isinstance(st.value, ast.Name) and st.value.id == new
            continue
        if isinstance(st, ast.Assign) and len(st.targets) == 1:
            t, v = st.targets[0], st.value
            if isinstance(t, ast.Subscript) and isinstance(t.value, ast.Name) and t.value.id == memo:
                continue  # memo[id(self)] = new
            if txt(t) == "%s.__dict__" % new and txt(v) in ("dict(%s.__dict__)" % sn, "%s.__dict__.copy()" % sn):
                for f in fields:
                    status[f] = ("shared", st)
                continue
            if isinstance(t, ast.Attribute) and isinstance(t.value, ast.Name) and t.value.id == new:
                f = t.attr
                if isinstance(v, ast.Call) and txt(v.func) in ("copy.deepcopy", "deepcopy") and v.args and txt(v.args[0]) == "%s.%s" % (sn, f):
                    status[f] = ("deep", st)
                elif txt(v) == "%s.%s" % (sn, f):
                    status[f] = ("shared", st)
                elif (isinstance(v, ast.Call) and isinstance(v.func, ast.Name) and v.func.id in ("list", "tuple", "set", "dict") and len(v.args) == 1
                      and txt(v.args[0]) == "%s.%s" % (sn, f)) or txt(v) in ("%s.%s[:]" % (sn, f), "%s.%s.copy()" % (sn, f)):
                    status[f] = ("container", st)
                elif _rebuilds(v, sn, f):
                    status[f] = ("deep", st)  # rebuilt from immutable parts: fresh objects, equal to the original's
                else:
                    raise AnalysisError("%s: `%s` in %s.__deepcopy__ is not a copy of the same field" % (h.where(st), txt(st)[:60], c.name))
                continue
        if isinstance(st, ast.Expr) and isinstance(st.value, ast.Call) and txt(st.value.func) == "%s.__dict__.update" % new \
                and len(st.value.args) == 1 and txt(st.value.args[0]) == "%s.__dict__" % sn:
            for f in fields:
                status[f] = ("shared", st)
            continue
        if isinstance(st, ast.Expr) and isinstance(st.value, ast.Call) and txt(st.value.func) == "%s.__dict__.update" % new \
                and len(st.value.args) == 1 and isinstance(st.value.args[0], ast.Call) \
                and txt(st.value.args[0].func) in ("copy.deepcopy", "deepcopy") and st.value.args[0].args \
                and txt(st.value.args[0].args[0]) == "%s.__dict__" % sn:
            # new.__dict__.update(copy.deepcopy(self.__dict__, memo)): every attribute is deep-copied
            for f in fields:
                status[f] = ("deep", st)
            continue
        raise AnalysisError("%s: unrecognised statement `%s` in %s.__deepcopy__" % (h.where(st), txt(st)[:60], c.name))
    if new is None or not returned:
        raise AnalysisError("%s: %s.__deepcopy__ does not return the instance it creates" % (where, c.name))
    for f in sorted(fields):
        ty = frozenset()
        for k in c.mro():
            ty |= eng.fields.get((k.name, f), frozenset())
        kind, st = status.get(f, ("missing", h.node))
        if kind == "deep":
            ok, why = True, "deep-copied"
        elif kind == "shared":
            ok = _immutable_tags(ty)
            why = "shared, its values are immutable (%s)" % show_tags(ty) if ok else \
                "the copy refers to the SAME %s object as the original" % show_tags(ty)
        elif kind == "container":
            el = _elements(ty)
            ok = el is not None and _immutable_tags(el)
            why = "fresh container of immutable elements" if ok else "a fresh container whose elements (%s) are shared with the original" % show_tags(ty)
        else:
            ok, why = False, "the field is not copied at all: the copy lacks the attribute"
        res.ob("R20.4", h.where(st), "%s.__deepcopy__: field %s" % (c.name, f), ok, why)
        if not ok:
            res.violation("R20.4", h, st, "%s.__deepcopy__ does not produce an independent copy: field `%s` -- %s; a later in-place change of "
                          "the original (move) shows through the copy, and every owning constructor that deep-copies its arguments inherits the leak"
                          % (c.name, f, why), construct="%s.__deepcopy__ field %s" % (c.name, f))


def verify_copy_hook(ctx, res, c, h) -> None:
    """__copy__(self) must be the default shallow copy written out: an instance made with __new__ whose attributes are the
    original's (`new.__dict__.update(self.__dict__)` or one `new.f = self.f` per field), returned."""
    eng = ctx.types
    if len(h.params) != 1:
        raise AnalysisError("%s: __copy__ must take (self)" % h.where())
    sn = h.params[0]
    fields = set()
    for k in c.mro():
        fields |= {f for (cn, f) in eng.fields if cn == k.name}
    body = [s_ for s_ in h.node.body if not (isinstance(s_, ast.Expr) and isinstance(s_.value, ast.Constant))]
    cls_names = {"%s.__class__" % sn, "type(%s)" % sn, c.name}
    new = None
    got = set()
    returned = False
    for st in body:
        if isinstance(st, ast.Assign) and len(st.targets) == 1 and isinstance(st.targets[0], ast.Name):
            v = st.value
            if txt(v) in ("%s.__class__" % sn, "type(%s)" % sn):
                cls_names.add(st.targets[0].id)
                continue
            if isinstance(v, ast.Call) and isinstance(v.func, ast.Attribute) and v.func.attr == "__new__" and len(v.args) == 1 \
                    and txt(v.func.value) in cls_names | {"object"} and txt(v.args[0]) in cls_names and new is None:
                new = st.targets[0].id
                continue
        if new is not None and isinstance(st, ast.Expr) and isinstance(st.value, ast.Call) and txt(st.value.func) == "%s.__dict__.update" % new \
                and len(st.value.args) == 1 and txt(st.value.args[0]) == "%s.__dict__" % sn:
            got |= fields
            continue
        if new is not None and isinstance(st, ast.Assign) and len(st.targets) == 1 and txt(st.targets[0]) == "%s.__dict__" % new \
                and txt(st.value) in ("dict(%s.__dict__)" % sn, "%s.__dict__.copy()" % sn):
            got |= fields
            continue
        if new is not None and isinstance(st, ast.Assign) and len(st.targets) == 1 and isinstance(st.targets[0], ast.Attribute) \
                and txt(st.targets[0].value) == new and txt(st.value) == "%s.%s" % (sn, st.targets[0].attr):
            got.add(st.targets[0].attr)
            continue
        if isinstance(st, ast.Return):
            returned = new is not None and isinstance(st.value, ast.Name) and st.value.id == new
            continue
        raise AnalysisError("%s: `%s` in %s.__copy__ is not part of the shallow copy written out" % (h.where(st), txt(st)[:60], c.name))
    if new is None or not returned:
        raise AnalysisError("%s: %s.__copy__ does not return a new instance made with __new__" % (h.where(), c.name))
    missing = sorted(fields - got)
    res.ob("R20.4", h.where(), "%s.__copy__ is the default shallow copy" % c.name, not missing,
           "every attribute of the original is carried over" if not missing else "attributes %s are not carried over" % missing)
    if missing:
        res.violation("R20.4", h, h.node, "%s.__copy__ does not carry over %s: the copy lacks attributes the original has and is not equal to it"
                      % (c.name, missing), construct="%s.__copy__ missing %s" % (c.name, ",".join(missing)))


def show_tags(ty) -> str:
    from ..types import show
    return show(ty)


def r204(ctx, res):
    n = 0
    for c in ctx.repo.classes():
        if ".visualization" in c.module.name:
            continue
        n += 1
        hooks = sorted(COPY_HOOKS & (set(c.methods) | set(c.method_aliases)))
        slots = False  # __slots__ alone does not change copying: the default deep copy handles slotted objects (copyreg)
        for hname, hk in sorted(c.copy_hooks.items()):
            if hname == "__copy__":
                verify_copy_hook(ctx, res, c, hk)
            else:
                verify_deepcopy_hook(ctx, res, c, hk)
        ok = not hooks and not slots
        res.ob("R20.4", "%s:%d" % (c.module.relpath, c.node.lineno), c.name, ok,
               "plain attribute object: default deepcopy is structural" if ok else "defines %s" % (hooks + (["__slots__"] if slots else [])))
        if not ok:
            res.violation("R20.4", None, c.node, "class %s customises copying (%s): a deep copy is no longer guaranteed independent/equal"
                          % (c.name, hooks + (["__slots__"] if slots else [])), construct=c.name + " copy hooks",
                          file=c.module.relpath, function=c.name)
        for mname in ("__eq__", "__hash__"):
            m = c.methods.get(mname)
            if m is None:
                continue
            from ..astutil import identity_fast_path_returns
            fast = identity_fast_path_returns(m.node, m.params[0], m.params[1]) if len(m.params) >= 2 else set()
            for x in walk_local(m.node):
                bad = None
                if id(x) in fast:
                    continue  # `if other is self: return True`: a reflexive fast path, two distinct objects are compared as before
                if isinstance(x, ast.Compare) and any(isinstance(o, (ast.Is, ast.IsNot)) for o in x.ops) and not any(
                        isinstance(cc, ast.Constant) and cc.value is None for cc in x.comparators):
                    bad = txt(x)
                if isinstance(x, ast.Call) and isinstance(x.func, ast.Name) and x.func.id == "id":
                    bad = txt(x)
                if bad:
                    res.ob("R20.4", m.where(x), "%s.%s" % (c.name, mname), False, "identity-based: " + bad)
                    res.violation("R20.4", m, x, "%s.%s depends on object identity (`%s`): a deep copy would not compare equal" % (
                        c.name, mname, bad[:60]), construct="%s.%s identity" % (c.name, mname))
    ctx.require(res, "R20.4", n, 10, "classes")


def run(ctx, res):
    res.explanation = (
        "Effect/ownership summaries over the whole call graph (alias abstraction: what an object is vs what it reaches; "
        "callees resolved by the type inference): every function other than the declared in-place mutators (7 move, "
        "3 __setitem__, constructors on their own object, solve/gaussian_elimination on their matrix, the setters) "
        "writes no object reachable from a parameter, self or a module global, so intersection, in, distance, angle, "
        "parallel, orthogonal, ==, hash, repr, length, area, volume and all their helpers are pure; the mutators write "
        "only their receiver; no query writes module/class state or reads mutable globals other than the tolerance "
        "configuration and logger; Segment, HalfLine, ConvexPolygon, ConvexPolyhedron constructors capture nothing by "
        "reference and Line built from Points stores fresh vectors; no copy hooks / __slots__ / identity-based eq-hash, "
        "so the default deep copy is independent and equal. Floating-point drift of moved values is outside."
    )
    r201(ctx, res, include_visualization=(ctx.tier == "thorough"))
    r202(ctx, res)
    r203(ctx, res)
    r204(ctx, res)
    res.extra["effect_analysis"] = {"iterations": ctx.effects.iterations, "functions": len(ctx.effects.funcs)}
