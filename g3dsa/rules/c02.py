"""C02 -- flat primitive vs convex polygon / polyhedron.

Decides: R2.1 confinement for the 10 handlers and the 3 hit-set helpers;
R2.2 boundary-family completeness (the polyhedron hit-set helpers visit both the
faces and the edges, the polygon helper / in-plane case visit the full edge
cycle, contained end points / origins are added) and agreement of the sibling
helpers (abstract summaries equal up to the parameter); R2.3 the end-point case
split of inter_segment_convexpolyhedron is propositionally exhaustive.
Coordinates, the longest-segment selection, hash-merging of coincident hits and
tangency classification are NOT decided.
"""
from __future__ import annotations

import ast
from typing import Dict, List, Optional, Tuple

from ..astutil import if_chain, txt
from ..confinement import handler_functions, report_bypass, report_function, run_confinement
from ..model import AnalysisError, FunctionInfo, walk_local
from .c01 import BODY, FLAT, handler_bindings, handlers_of, point_fields
from .c04 import _propositional


def loop_summary(fi: FunctionInfo) -> List[Tuple]:
    """[(param index, iterated attr / method, callee, ((test kind, action), ...))] for each top-level for loop"""
    out = []
    for st in fi.node.body:
        if not isinstance(st, ast.For):
            continue
        it = st.iter
        src = None
        if isinstance(it, ast.Attribute) and isinstance(it.value, ast.Name) and it.value.id in fi.params:
            src = (fi.params.index(it.value.id), it.attr)
        elif isinstance(it, ast.Call) and isinstance(it.func, ast.Attribute) and isinstance(it.func.value, ast.Name) \
                and it.func.value.id in fi.params:
            src = (fi.params.index(it.func.value.id), it.func.attr + "()")
        callee = None
        other = None
        arms: List[Tuple[str, str]] = []
        var = None
        for b in st.body:
            if isinstance(b, ast.Assign) and isinstance(b.value, ast.Call):
                c = b.value
                if isinstance(c.func, ast.Attribute) and c.func.attr == "intersection" and len(c.args) == 1:
                    callee = "intersection"
                    var = txt(b.targets[0])
                    o = c.args[0]
                    other = fi.params.index(o.id) if isinstance(o, ast.Name) and o.id in fi.params else txt(o)
                elif isinstance(c.func, ast.Name) and c.func.id == "intersection" and len(c.args) == 2:
                    callee = "intersection"
                    var = txt(b.targets[0])
                    os_ = [a for a in c.args if not (isinstance(a, ast.Name) and a.id == getattr(st.target, "id", None))]
                    other = fi.params.index(os_[0].id) if os_ and isinstance(os_[0], ast.Name) and os_[0].id in fi.params else None
            if isinstance(b, ast.If):
                rows, els = if_chain(b)
                for test, body in rows:
                    t = txt(test)
                    kind = t.replace(var or "\0", "v") if var else t
                    act = "other"
                    if any(isinstance(x, ast.Continue) for x in body):
                        act = "continue"
                    elif any(isinstance(x, ast.Pass) for x in body) and len(body) == 1:
                        act = "continue"
                    elif any(isinstance(c2, ast.Call) and isinstance(c2.func, ast.Attribute) and c2.func.attr == "add"
                             for x in body for c2 in ast.walk(x)):
                        act = "add"
                    elif any(isinstance(x, ast.Return) for x in body):
                        act = "return"
                    arms.append((kind, act))
                if els:
                    arms.append(("else", "raise" if any(isinstance(x, ast.Raise) for x in els) else "other"))
        out.append((src, callee, other, tuple(arms)))
    return out


def r22(ctx, res):
    repo = ctx.repo
    aux = "calc.aux_calc"
    seg_h = repo.fn("get_segment_convexpolyhedron_intersection_point_set", aux)
    hl_h = repo.fn("get_halfline_convexpolyhedron_intersection_point_set", aux)
    pg_h = repo.fn("get_segment_convexpolygon_intersection_point_set", aux)
    n = 0
    sums = {}
    for h in (seg_h, hl_h):
        s = loop_summary(h)
        sums[h.name] = s
        fams = {x[0][1] for x in s if x[0] is not None and x[0][0] == 1 and x[1] == "intersection"}
        for fam, what in (("convex_polygons", "faces"), ("segment_set", "edges")):
            n += 1
            ok = fam in fams
            res.ob("R2.2", h.where(), "%s visits the %s" % (h.short, what), ok,
                   "loop over cph.%s intersecting each element with the %s" % (fam, h.params[0]) if ok else "no such loop")
            if not ok:
                res.violation("R2.2", h, h.node, "%s does not intersect the %s with the %s of the polyhedron: hits through %s are lost"
                              % (h.short, h.params[0], what, "a vertex/edge" if fam == "segment_set" else "the interior of a face"),
                              construct="%s misses %s" % (h.short, fam))
        for src, callee, other, arms in s:
            n += 1
            adds = [k for k, a in arms if a == "add"]
            ok = callee == "intersection" and any("Point" in k for k in adds) and other == 0
            res.ob("R2.2", h.where(), "%s loop over %s" % (h.short, src), ok,
                   "Point hits are collected; arms %s" % (arms,) if ok else "arms %s" % (arms,))
            if not ok:
                res.violation("R2.2", h, h.node, "%s: the loop over %s does not collect the Point hits of element x %s (arms: %s)"
                              % (h.short, src, h.params[0], arms), construct="%s loop %s actions" % (h.short, src))
    n += 1
    same = sums[seg_h.name] == sums[hl_h.name]
    res.ob("R2.2", seg_h.where(), "sibling helpers agree (segment / half-line vs polyhedron)", same,
           "identical abstract summaries: %s" % (sums[seg_h.name],) if same else "%s vs %s" % (sums[seg_h.name], sums[hl_h.name]))
    if not same:
        res.violation("R2.2", hl_h, hl_h.node,
                      "the two polyhedron hit-set helpers are siblings but differ: %s has %s, %s has %s" % (
                          seg_h.short, sums[seg_h.name], hl_h.short, sums[hl_h.name]), construct="sibling helper summaries differ")
    # polygon helper and the in-plane line/polygon case iterate the full edge cycle
    for fi, holder in ((pg_h, 1), (repo.fn("inter_line_convexpolygon", "calc.intersection"), 1)):
        n += 1
        loops = [x for x in walk_local(fi.node) if isinstance(x, ast.For) and isinstance(x.iter, ast.Call)
                 and isinstance(x.iter.func, ast.Attribute) and x.iter.func.attr == "segments"
                 and isinstance(x.iter.func.value, ast.Name) and x.iter.func.value.id == fi.params[holder]]
        ok = bool(loops)
        res.ob("R2.2", fi.where(), "%s visits every edge of the polygon" % fi.short, ok,
               "loop over %s.segments()" % fi.params[holder] if ok else "no loop over the edge cycle")
        if not ok:
            res.violation("R2.2", fi, fi.node, "%s does not iterate over %s.segments(): hits on some edges are lost" % (
                fi.short, fi.params[holder]), construct="%s edge cycle" % fi.short)
    # contained end points / origin are added in the polyhedron handlers
    hb = handler_bindings(ctx)
    for name, flat_idx in (("inter_segment_convexpolyhedron", 0), ("inter_convexpolyhedron_halfline", 1)):
        fi = repo.fn(name, "calc.intersection")
        X = fi.params[flat_idx]
        Y = fi.params[1 - flat_idx]
        tX = hb[name][flat_idx]
        for f in point_fields(ctx, tX):
            n += 1
            found = False
            for st in walk_local(fi.node):
                if isinstance(st, ast.If):
                    rows, _ = if_chain(st)
                    for test, body in rows:
                        t = txt(test)
                        if ("%s.%s in %s" % (X, f, Y)) in t and ("not %s.%s in %s" % (X, f, Y)) not in t:
                            if any(isinstance(c, ast.Call) and isinstance(c.func, ast.Attribute) and c.func.attr == "add"
                                   and c.args and txt(c.args[0]) == "%s.%s" % (X, f) for b in body for c in ast.walk(b)):
                                found = True
            res.ob("R2.2", fi.where(), "%s adds the contained %s.%s" % (fi.short, X, f), found,
                   "`%s.%s in %s` guards the add" % (X, f, Y) if found else "never added")
            if not found:
                res.violation("R2.2", fi, fi.node, "%s never adds %s.%s when it lies inside the polyhedron: a %s starting inside loses "
                              "its interior end" % (fi.short, X, f, tX), construct="%s: contained %s.%s" % (fi.short, X, f))
    # every result return lies behind all candidate families
    for h in (seg_h, hl_h, pg_h):
        fams = [st for st in h.node.body if isinstance(st, ast.For)]
        if fams:
            n += report_bypass(ctx, res, h, "R2.2", fams, h.node.body, "boundary families of the helper")
    for name in ("inter_segment_convexpolyhedron", "inter_convexpolyhedron_halfline", "inter_line_convexpolyhedron",
                 "inter_plane_convexpolyhedron"):
        fi = repo.fn(name, "calc.intersection")
        fams = []
        for st in fi.node.body:
            if isinstance(st, ast.For):
                fams.append(st)
            elif isinstance(st, ast.Assign) and isinstance(st.value, ast.Call) and isinstance(st.value.func, ast.Name) \
                    and st.value.func.id.endswith("_intersection_point_set"):
                fams.append(st)
            elif isinstance(st, ast.If) and any(isinstance(c, ast.Call) and isinstance(c.func, ast.Attribute) and c.func.attr == "add"
                                                for c in ast.walk(st)):
                fams.append(st)
        if fams:
            n += report_bypass(ctx, res, fi, "R2.2", fams, fi.node.body, "hit set, contained end points")
    fi = repo.fn("inter_line_convexpolygon", "calc.intersection")
    for st in walk_local(fi.node):
        if isinstance(st, ast.If):
            for body in (st.body, st.orelse):
                fams = [x for x in body if isinstance(x, ast.For)]
                if fams:
                    n += report_bypass(ctx, res, fi, "R2.2", fams, body, "edges of the polygon in the in-plane case")
    ctx.require(res, "R2.2", n, 22, "boundary-family obligations")


def run(ctx, res):
    res.explanation = (
        "Compositional confinement analysis of the 10 flat x {polygon, polyhedron} handlers and the 3 hit-set helpers "
        "(every returned value / collected hit is a subset of both operands), boundary-family completeness (faces AND "
        "edges of the polyhedron, the full edge cycle of the polygon, contained end points / origin added under their "
        "membership test; the two polyhedron helpers have identical abstract summaries), and propositional "
        "exhaustiveness of the end-point case split of segment x polyhedron. NOT decided: coordinates, the "
        "longest-segment selection, hash-merging of coincident hits (runtime cardinalities), tangency classification."
    )
    cf = run_confinement(ctx)
    handlers, helpers, inter = handler_functions(ctx)
    hs = handlers_of(ctx, lambda t: (t[0] in FLAT and t[1] in BODY) or (t[0] in BODY and t[1] in FLAT))
    ctx.require(res, "R2.1", len(hs), 10, "flat x body handlers")
    total = 0
    for fi in hs + helpers:
        total += report_function(ctx, res, cf, fi, "R2.1")
    ctx.require(res, "R2.1h", len(helpers), 3, "hit-set helpers")
    res.count("return sites", total)
    res.extra["helper_summaries"] = {k: sorted(v) for k, v in cf.helper_sum.items()}
    r22(ctx, res)
    fi = ctx.repo.fn("inter_segment_convexpolyhedron", "calc.intersection")
    raises = [r for r in walk_local(fi.node) if isinstance(r, ast.Raise)]
    done = False
    for R in raises:
        ok, why = _propositional(ctx, fi, R)
        if ok:
            res.ob("R2.3", fi.where(R), "end-point case split of %s" % fi.short, True, why)
            done = True
    if not done:
        res.ob("R2.3", fi.where(), "end-point case split of %s" % fi.short, False, "no propositionally exhaustive split found")
        res.violation("R2.3", fi, fi.node, "the case split over `start_point in b` / `end_point in b` in %s is not exhaustive: "
                      "some combination reaches the internal raise or is unhandled" % fi.short, construct="%s case split" % fi.short)
    res.undecided_ob("coordinates of the hits; longest-segment selection; merging of coincident hits by hash; tangency")
