"""C02 -- flat primitive vs convex polygon / polyhedron.

Decides: R2.1 confinement for the 10 handlers and the 3 hit-set helpers;
R2.2 boundary-family completeness (the polyhedron hit-set helpers visit both the
faces and the edges, the polygon helper / in-plane case visit the full edge
cycle, contained end points / origins are added) and agreement of the sibling
helpers (candidate families equal up to the parameter); R2.3 the end-point case
split of inter_segment_convexpolyhedron is propositionally exhaustive; R2.4 the
Point-in-polygon / Point-in-polyhedron tests that clip every hit compare with a
tolerance margin (f merely touching K, end point on the boundary).
Coordinates, the longest-segment selection, hash-merging of coincident hits and
tangency classification are NOT decided.
"""
from __future__ import annotations

import ast
from typing import Dict, List, Optional, Tuple

from ..astutil import if_chain, txt
from ..confinement import handler_functions, report_bypass, report_function, run_confinement
from ..model import AnalysisError, FunctionInfo, walk_local
from .c01 import BODY, FLAT, handler_bindings, handlers_of, point_fields
from .c04 import _propositional


def r22(ctx, res):
    """boundary-family completeness on candidate-origin families: which parts of the operands are offered to the result
    (independent of whether the code uses loops, comprehensions, local flags or private helpers)"""
    from ..origins import check_families, get_origins

    repo = ctx.repo
    aux = "calc.aux_calc"
    hb = handler_bindings(ctx)
    n = 0

    def hit(*xs):
        return "hit(%s)" % " | ".join(sorted(xs))

    seg_h = repo.fn("get_segment_convexpolyhedron_intersection_point_set", aux)
    hl_h = repo.fn("get_halfline_convexpolyhedron_intersection_point_set", aux)
    pg_h = repo.fn("get_segment_convexpolygon_intersection_point_set", aux)
    fams_of = {}
    for h in (seg_h, hl_h):
        F, K = h.params[0], h.params[1]
        req = [hit("%s.convex_polygons[*]" % K, F), hit("%s.segment_set[*]" % K, F)]
        n += check_families(ctx, res, "R2.2", h, req, "faces AND edges of the polyhedron (hits through a vertex or along an edge are "
                            "only found by the edge family, hits in the interior of a face only by the face family)")
        fams_of[h.name] = {f.replace(" | %s)" % F, " | <flat>)").replace("(%s | " % F, "(<flat> | ").replace(K, "<body>")
                           for f in get_origins(ctx).families(h.name)}
    n += 1
    same = fams_of[seg_h.name] == fams_of[hl_h.name]
    res.ob("R2.2", seg_h.where(), "sibling helpers agree (segment / half-line vs polyhedron)", same,
           "identical candidate families: %s" % sorted(fams_of[seg_h.name]) if same else "%s vs %s" % (
               sorted(fams_of[seg_h.name]), sorted(fams_of[hl_h.name])))
    if not same:
        res.violation("R2.2", hl_h, hl_h.node,
                      "the two polyhedron hit-set helpers are siblings but consult different candidate families: %s has %s, %s has %s" % (
                          seg_h.short, sorted(fams_of[seg_h.name]), hl_h.short, sorted(fams_of[hl_h.name])),
                      construct="sibling helper families differ")
    F, K = pg_h.params[0], pg_h.params[1]
    n += check_families(ctx, res, "R2.2", pg_h, [hit("%s.segments()[*]" % K, F)], "the full edge cycle of the polygon")
    fi = repo.fn("inter_line_convexpolygon", "calc.intersection")
    L, K = fi.params[0], fi.params[1]
    n += check_families(ctx, res, "R2.2", fi, [hit("%s.segments()[*]" % K, L)], "the full edge cycle of the polygon in the in-plane case")
    fi = repo.fn("inter_line_convexpolyhedron", "calc.intersection")
    L, K = fi.params[0], fi.params[1]
    n += check_families(ctx, res, "R2.2", fi, [hit("%s.convex_polygons[*]" % K, L)], "every face of the polyhedron")
    fi = repo.fn("inter_plane_convexpolyhedron", "calc.intersection")
    P, K = fi.params[0], fi.params[1]
    n += check_families(ctx, res, "R2.2", fi, ["%s.convex_polygons[*]" % K, hit(P, "%s.segment_set[*]" % K)],
                        "faces lying in the plane, and every edge cut by the plane")
    for name, flat_idx in (("inter_segment_convexpolyhedron", 0), ("inter_convexpolyhedron_halfline", 1)):
        fi = repo.fn(name, "calc.intersection")
        X = fi.params[flat_idx]
        Y = fi.params[1 - flat_idx]
        tX = hb[name][flat_idx]
        req = ["%s.%s" % (X, f) for f in point_fields(ctx, tX)]
        req += [hit(X, "%s.convex_polygons[*]" % Y), hit(X, "%s.segment_set[*]" % Y)]
        n += check_families(ctx, res, "R2.2", fi, req, "contained end points / origin, face hits and edge hits")
    ctx.require(res, "R2.2", n, 22, "boundary-family obligations")


def run(ctx, res):
    res.explanation = (
        "Compositional confinement analysis of the 10 flat x {polygon, polyhedron} handlers and the 3 hit-set helpers "
        "(every returned value / collected hit is a subset of both operands), boundary-family completeness (faces AND "
        "edges of the polyhedron, the full edge cycle of the polygon, contained end points / origin added under their "
        "membership test; the two polyhedron helpers have identical abstract summaries), and propositional "
        "exhaustiveness of the end-point case split of segment x polyhedron. NOT decided: coordinates, the "
        "longest-segment selection, hash-merging of coincident hits (runtime cardinalities), tangency classification."
    )
    cf = run_confinement(ctx)
    handlers, helpers, inter = handler_functions(ctx)
    hs = handlers_of(ctx, lambda t: (t[0] in FLAT and t[1] in BODY) or (t[0] in BODY and t[1] in FLAT))
    from .c04 import report_binding_slips
    ctx.require(res, "R2.9", report_binding_slips(ctx, res, "R2.9", hs), 2, "handlers bound by the dispatcher")
    from .c01 import covered_pairs
    ctx.require(res, "R2.1", len(covered_pairs(ctx, lambda t: (t[0] in FLAT and t[1] in BODY) or (t[0] in BODY and t[1] in FLAT))), 10,
                "flat x body operand pairs bound to a handler")
    total = 0
    for fi in hs + helpers:
        total += report_function(ctx, res, cf, fi, "R2.1")
    ctx.require(res, "R2.1h", len(helpers), 3, "hit-set helpers")
    res.count("return sites", total)
    res.extra["helper_summaries"] = {k: sorted(v) for k, v in cf.helper_sum.items()}
    r22(ctx, res)
    fi = ctx.repo.fn("inter_segment_convexpolyhedron", "calc.intersection")
    from ..astutil import expand_locals
    g = ctx.cfg(fi)

    def case_split_raise(R) -> bool:
        """a raise that is not guarded by the runtime cardinality of the hit set: it closes the end-point case split"""
        nodes = g.nodes_of(R)
        if not nodes:
            return False
        for c, _, _l in g.dominating_edges(nodes[0]):
            e = expand_locals(fi.node, g.nodes[c].ast, fi.params)
            if any(isinstance(x, ast.Call) and isinstance(x.func, ast.Name) and x.func.id == "len" for x in ast.walk(e)):
                return False  # guarded by the runtime cardinality of the hit set: not the case split (NOT decided)
        return True

    raises = [r for r in walk_local(fi.node) if isinstance(r, ast.Raise) and case_split_raise(r)]
    done = False
    for R in raises:
        ok, why = _propositional(ctx, fi, R)
        if ok:
            res.ob("R2.3", fi.where(R), "end-point case split of %s" % fi.short, True, why)
            done = True
    if not raises:
        res.ob("R2.3", fi.where(), "end-point case split of %s" % fi.short, True, "no internal raise is guarded by the end-point case split alone", nontrivial=False)
    elif not done:
        res.ob("R2.3", fi.where(), "end-point case split of %s" % fi.short, False, "no propositionally exhaustive split found")
        res.violation("R2.3", fi, fi.node, "the case split over `start_point in b` / `end_point in b` in %s is not exhaustive: "
                      "some combination reaches the internal raise or is unhandled" % fi.short, construct="%s case split" % fi.short)
    from ..confinement import numeric_rejections
    res.count("numeric rejections", numeric_rejections(ctx, res, "R2.5", hs + helpers, "flat x body handlers and hit-set helpers"))
    # R2.6 the hits are merged by Point equality / hash, never by raw coordinates
    from ..exact import report_coordinate_keys
    k6 = report_coordinate_keys(ctx, res, "R2.6", hs + helpers, "the intersection code")
    ctx.require(res, "R2.6", k6, 10, "functions of the intersection code scanned")
    # R2.4 the membership tests that clip every hit (`hit in cpg`, `end point in cph`) are inclusive at the boundary
    from .c05 import r55_inclusive_thresholds
    r55_inclusive_thresholds(ctx, res, cnames=("ConvexPolygon", "ConvexPolyhedron"), rule="R2.4", minimum=1)
    # R2.8 the handlers' internal sanity raises ('Bug detected') are unreachable: by the E1 types of the value switched on,
    # by an equality the callee already decided, propositionally, or by the number of add sites (the analysis of C04 R4.7)
    from .c04 import r47
    r47(ctx, res, scope=list(hs + helpers), rule="R2.8", need=1)
    # R2.10 positions and directions are not confused in the handlers and in the constructors of the operands (affine.py)
    from ..affine import affine_scope, report_affine
    k10 = report_affine(ctx, res, "R2.10", affine_scope(ctx, hs + helpers, ("Line", "Plane", "Segment", "HalfLine", "ConvexPolygon", "ConvexPolyhedron")), "the intersection")
    ctx.require(res, "R2.10", k10, 20, "function contexts examined for position / direction mismatches")
    # R2.11 no computed value is rounded on its way into the result (exact.report_rounding)
    from ..exact import report_rounding
    from ..affine import affine_scope as _ascope
    kr = report_rounding(ctx, res, "R2.11", _ascope(ctx, hs + helpers, ()), "the intersection")
    ctx.require(res, "R2.11", kr, 5, "functions scanned for rounding")
    # R2.7 the linear solver picks its pivot row by the pivot column (coverage.py)
    from ..coverage import check_pivot_choice
    check_pivot_choice(ctx, res, "R2.7")
    res.undecided_ob("coordinates of the hits; longest-segment selection; merging of coincident hits by hash; tangency")
