"""C19 -- tolerance is uniform and follows set_eps / set_sig_figures.

Decides: R19.1 no stale copies of the tolerance configuration (a name imported
from utils/constant.py is bound at import time and never follows the setters;
getter results are never stored outside a function activation), R19.2 the
configuration module keeps both globals paired, R19.3 no private float
tolerance literals in comparisons, R19.4 every rounding precision is derived
from the live getter, R19.5 no branch decides on the exact value (truthiness,
== c, != c) of a coordinate-derived float (g3dsa/exact.py; utils/solver.py is
outside: its pivot test belongs to the elimination algorithm), R19.6 no set /
dictionary / membership test is keyed by the raw coordinates of a Point or
Vector (identity goes through the tolerant __eq__ / __hash__).  The numeric clauses (eps/1000 compares equal, 4*eps does
not) are NOT decided.
"""
from __future__ import annotations

import ast
import math
from typing import Dict, List, Optional, Set

from ..astutil import assigned_names, const_num, names_in, parents, txt
from ..model import AnalysisError, FunctionInfo, Module, walk_local

CONST_MOD = "Geometry3D.utils.constant"


def config_names(ctx):
    m = ctx.repo.module("utils.constant")
    tracked: Set[str] = set()
    setters, getters = [], []
    for f in m.functions.values():
        gl = set()
        for n in walk_local(f.node):
            if isinstance(n, ast.Global):
                gl |= set(n.names)
        stores = {t.id for n in walk_local(f.node) if isinstance(n, ast.Assign) for t in n.targets
                  if isinstance(t, ast.Name) and t.id in gl}
        if stores:
            setters.append(f)
            tracked |= stores
    for f in m.functions.values():
        if f in setters:
            continue
        rets = [n for n in walk_local(f.node) if isinstance(n, ast.Return)]
        if len(rets) == 1 and isinstance(rets[0].value, ast.Name) and rets[0].value.id in tracked:
            getters.append(f)
    if len(tracked) < 2 or len(setters) < 2 or len(getters) < 2:
        raise AnalysisError("utils/constant.py: expected 2 tolerance globals, 2 setters, 2 getters; found %s / %s / %s"
                            % (sorted(tracked), [f.short for f in setters], [f.short for f in getters]))
    return m, tracked, setters, getters


def _functions_of(mod: Module) -> List[FunctionInfo]:
    out = list(mod.functions.values())
    for c in mod.classes.values():
        out += list(c.methods.values())
    return out


def _owner_map(mod: Module) -> Dict[int, FunctionInfo]:
    own: Dict[int, FunctionInfo] = {}
    for f in _functions_of(mod):
        for n in ast.walk(f.node):
            own[id(n)] = f
    return own


def _locals_of(f: FunctionInfo) -> Set[str]:
    s = set(f.params) | set(f.kwonly)
    if f.vararg:
        s.add(f.vararg)
    if f.kwarg:
        s.add(f.kwarg)
    gl = set()
    for n in walk_local(f.node):
        if isinstance(n, ast.Global):
            gl |= set(n.names)
    s |= set(assigned_names(f.node)) - gl
    return s


def r191(ctx, res):
    repo = ctx.repo
    cm, tracked, setters, getters = config_names(ctx)
    getter_quals = {g.qual for g in getters}
    n_reads = 0
    n_calls = 0
    for mod in repo.modules.values():
        if mod is cm:
            continue
        own = _owner_map(mod)
        par = parents(mod.tree)
        loc_cache: Dict[str, Set[str]] = {}
        for n in ast.walk(mod.tree):
            # --- stale reads of the globals themselves
            if isinstance(n, ast.Name) and isinstance(n.ctx, ast.Load) and n.id in tracked:
                f = own.get(id(n))
                if f is not None:
                    if f.qual not in loc_cache:
                        loc_cache[f.qual] = _locals_of(f)
                    if n.id in loc_cache[f.qual]:
                        continue
                    b = f.resolve(n.id)
                else:
                    b = mod.resolve(n.id)
                if b is not None and b.kind == "var" and b.target[0] is cm:
                    n_reads += 1
                    stmt = n
                    while id(stmt) in par and not isinstance(stmt, ast.stmt):
                        stmt = par[id(stmt)]
                    short = f.short if f else "<module>"
                    res.ob("R19.1", "%s:%d" % (mod.relpath, n.lineno), "%s reads %s" % (short, n.id), False,
                           "name imported from utils/constant.py: bound at import time")
                    # which argument of which call?  keep the construct position-free
                    p = par.get(id(n))
                    ptxt = txt(p) if p is not None else n.id
                    res.violation(
                        "R19.1", f, n,
                        "stale tolerance: `%s` is the value %s had when %s was imported; it never follows "
                        "set_eps()/set_sig_figures() (use the getter)" % (n.id, n.id, mod.relpath),
                        construct="%s in `%s`" % (n.id, ptxt[:120]),
                        file=mod.relpath, function=short)
            # --- getter calls: must live inside a function activation
            if isinstance(n, ast.Call):
                f = own.get(id(n))
                tgt = None
                if isinstance(n.func, ast.Name):
                    b = (f.resolve(n.func.id) if f else mod.resolve(n.func.id))
                    if b is not None and b.kind == "func":
                        tgt = b.target
                elif isinstance(n.func, ast.Attribute) and isinstance(n.func.value, ast.Name):
                    b = (f.resolve(n.func.value.id) if f else mod.resolve(n.func.value.id))
                    if b is not None and b.kind == "module":
                        bb = b.target.resolve(n.func.attr)
                        if bb is not None and bb.kind == "func":
                            tgt = bb.target
                if tgt is None or tgt.qual not in getter_quals:
                    continue
                n_calls += 1
                where = "%s:%d" % (mod.relpath, n.lineno)
                short = f.short if f else "<module>"
                problem = None
                if f is None:
                    problem = "evaluated once at import time (module or class level)"
                else:
                    # default argument?
                    a = f.node.args
                    for d in list(a.defaults) + [x for x in a.kw_defaults if x is not None]:
                        if any(x is n for x in ast.walk(d)):
                            problem = "evaluated once, as a default argument of %s" % f.short
                    for d in f.node.decorator_list:
                        if any(x is n for x in ast.walk(d)):
                            problem = "evaluated once, in a decorator"
                    # stored beyond the activation?
                    stmt = n
                    while id(stmt) in par and not isinstance(stmt, ast.stmt):
                        stmt = par[id(stmt)]
                    if problem is None and isinstance(stmt, (ast.Assign, ast.AugAssign, ast.AnnAssign)):
                        tgts = stmt.targets if isinstance(stmt, ast.Assign) else [stmt.target]
                        gl = {x for g in walk_local(f.node) if isinstance(g, ast.Global) for x in g.names}
                        for t in tgts:
                            for x in ast.walk(t):
                                if isinstance(x, ast.Attribute) and isinstance(x.ctx, ast.Store):
                                    problem = "stored into attribute `%s` (outlives the call)" % txt(x)
                                if isinstance(x, ast.Name) and x.id in gl:
                                    problem = "stored into global `%s`" % x.id
                ok = problem is None
                res.ob("R19.1", where, "%s: %s" % (short, txt(n)), ok,
                       "live read inside a function activation" if ok else problem)
                if not ok:
                    res.violation("R19.1", f, n, "tolerance getter result is cached: %s" % problem,
                                  construct="cached %s in %s" % (txt(n), short), file=mod.relpath, function=short)
    res.count("getter calls", n_calls)
    res.count("stale reads", n_reads)
    ctx.require(res, "R19.1", n_calls, 20, "live getter calls")


class _Fold:
    """constant folding of the setters' own expressions (no library code is run)"""

    funcs: Dict[str, FunctionInfo] = {}  # single-return helper functions of the configuration module (set by r192)

    def __init__(self, env):
        self.env = dict(env)

    def ev(self, e):
        v = const_num(e)
        if v is not None:
            return v
        if isinstance(e, ast.Name):
            if e.id in self.env:
                return self.env[e.id]
            raise AnalysisError("cannot fold name %s" % e.id)
        if isinstance(e, ast.BinOp):
            a, b = self.ev(e.left), self.ev(e.right)
            op = type(e.op)
            if op is ast.Add:
                return a + b
            if op is ast.Sub:
                return a - b
            if op is ast.Mult:
                return a * b
            if op is ast.Div:
                return a / b
            if op is ast.Pow:
                return a ** b
        if isinstance(e, ast.UnaryOp) and isinstance(e.op, ast.USub):
            return -self.ev(e.operand)
        if isinstance(e, ast.Call):
            fn = txt(e.func)
            args = [self.ev(a) for a in e.args]
            if fn in ("round",):
                return round(*args)
            if fn in ("log10", "math.log10"):
                return math.log10(*args)
            if fn in ("int", "float", "abs"):
                return {"int": int, "float": float, "abs": abs}[fn](*args)
            if fn in ("pow", "math.pow"):
                return math.pow(*args)
            h = self.funcs.get(fn)
            if h is not None and len(h.params) == len(args) and not e.keywords:
                # a pure helper of the configuration module (`_eps_for(sig_figures)`): fold its single return expression
                body = [s_ for s_ in h.node.body if not (isinstance(s_, ast.Expr) and isinstance(s_.value, ast.Constant))]
                if len(body) == 1 and isinstance(body[0], ast.Return) and body[0].value is not None:
                    sub = _Fold(dict(self.env, **dict(zip(h.params, args))))
                    return sub.ev(body[0].value)
        raise AnalysisError("utils/constant.py: cannot constant-fold `%s`" % txt(e))


def r192(ctx, res):
    cm, tracked, setters, getters = config_names(ctx)
    _Fold.funcs = {k: f for k, f in cm.functions.items() if f not in setters and f not in getters}
    # module initialisers
    env = {}
    for st in cm.tree.body:
        if isinstance(st, ast.Assign) and len(st.targets) == 1 and isinstance(st.targets[0], ast.Name) \
                and st.targets[0].id in tracked:
            env[st.targets[0].id] = _Fold(env).ev(st.value)
    if set(env) != tracked:
        raise AnalysisError("utils/constant.py: initialisers of %s not found" % sorted(tracked - set(env)))
    # which global is the eps, which the digits: by the getter names used across the package
    eps_name = sig_name = None
    for g in getters:
        r = [n for n in walk_local(g.node) if isinstance(n, ast.Return)][0].value.id
        if g.name == "get_eps":
            eps_name = r
        elif g.name == "get_sig_figures":
            sig_name = r
    if eps_name is None or sig_name is None or eps_name == sig_name:
        raise AnalysisError("utils/constant.py: getters get_eps / get_sig_figures not found")
    res.ob("R19.2", cm.relpath, "getters", True, "get_eps returns %s, get_sig_figures returns %s" % (eps_name, sig_name))

    def relation(e, s):
        return s == round(-math.log10(e))

    ok0 = relation(env[eps_name], env[sig_name])
    res.ob("R19.2", cm.relpath, "module initialisers", ok0, "%s=%r %s=%r" % (eps_name, env[eps_name], sig_name, env[sig_name]))
    if not ok0:
        res.violation("R19.2", None, cm.tree.body[0], "initial tolerance pair (%r, %r) violates sig = round(-log10(eps))"
                      % (env[eps_name], env[sig_name]), construct="module initialisers", file=cm.relpath,
                      function="<module>")
    for f in setters:
        g = ctx.cfg(f)
        gl = {x for n in walk_local(f.node) if isinstance(n, ast.Global) for x in n.names}
        missing = tracked - gl
        asg: Dict[str, List[ast.Assign]] = {}
        for n in walk_local(f.node):
            if isinstance(n, ast.Assign):
                for t in n.targets:
                    if isinstance(t, ast.Name) and t.id in tracked:
                        asg.setdefault(t.id, []).append(n)
        problems = []
        for name in sorted(tracked):
            if name in missing:
                problems.append("%s is not declared global" % name)
                continue
            nodes = set()
            for a in asg.get(name, []):
                nodes |= set(g.nodes_of(a))
            if not nodes or not g.must_pass(g.entry, g.exit, through_nodes=nodes):
                problems.append("%s is not assigned on every path" % name)
        # def-use: the two new values are tied to each other through the parameter
        params = set(f.params)
        if not problems:
            for name in sorted(tracked):
                deps = set()
                for a in asg[name]:
                    deps |= names_in(a.value)
                if not (deps & (params | tracked)):
                    problems.append("new %s does not depend on the argument or on the other global" % name)
        # constant folding at the default argument
        if not problems:
            if len(f.params) != 1 or len(f.defaults) != 1:
                problems.append("setter is expected to take one argument with a default")
            else:
                e = dict(env)
                e[f.params[0]] = _Fold({}).ev(f.defaults[0])
                order = sorted((a for lst in asg.values() for a in lst), key=lambda a: a.lineno)
                for a in order:
                    e[a.targets[0].id] = _Fold(e).ev(a.value)
                if not relation(e[eps_name], e[sig_name]) or (e[eps_name], e[sig_name]) != (env[eps_name], env[sig_name]):
                    problems.append("%s() without argument yields (%r, %r), expected the initial pair (%r, %r)" % (
                        f.name, e[eps_name], e[sig_name], env[eps_name], env[sig_name]))
                # and at a second, non-default setting the pair must satisfy the stated relation
                probe = 1e-7 if f.name == "set_eps" else 7
                e2 = dict(env)
                e2[f.params[0]] = probe
                for a in order:
                    e2[a.targets[0].id] = _Fold(e2).ev(a.value)
                if not relation(e2[eps_name], e2[sig_name]):
                    problems.append("%s(%r) yields the pair (%r, %r), which violates sig = round(-log10(eps))" % (
                        f.name, probe, e2[eps_name], e2[sig_name]))
        ok = not problems
        res.ob("R19.2", f.where(), f.short, ok,
               "declares and assigns both globals on every path; folded pair at the default = (%r, %r)" % (
                   env[eps_name], env[sig_name]) if ok else "; ".join(problems))
        if not ok:
            res.violation("R19.2", f, f.node, "%s does not keep eps and significant figures paired: %s" % (
                f.short, "; ".join(problems)), construct=f.short + " pairing")
    ctx.require(res, "R19.2", len(setters), 2, "setters")


def _core_mods(ctx):
    return [m for m in ctx.repo.modules.values()
            if m.name.startswith(("Geometry3D.geometry", "Geometry3D.calc", "Geometry3D.utils"))]


def r193(ctx, res):
    """no float literal below 1e-3 is used as a comparison threshold"""
    cm, tracked, setters, getters = config_names(ctx)
    n = 0
    for mod in _core_mods(ctx):
        own = _owner_map(mod)
        for c in ast.walk(mod.tree):
            if not isinstance(c, ast.Compare):
                continue
            n += 1
            lits = [x for x in ast.walk(c) if isinstance(x, ast.Constant) and isinstance(x.value, float)
                    and 0 < abs(x.value) < 1e-3]
            f = own.get(id(c))
            short = f.short if f else "<module>"
            ok = not lits
            if lits or n % 9 == 0:
                res.ob("R19.3", "%s:%d" % (mod.relpath, c.lineno), "%s: `%s`" % (short, txt(c)[:80]), ok,
                       "no private tolerance literal" if ok else "literal %r" % lits[0].value, nontrivial=False)
            if not ok:
                res.violation("R19.3", f, c,
                              "comparison uses the private tolerance literal %r instead of get_eps()" % lits[0].value,
                              construct="literal tolerance in `%s`" % txt(c)[:120], file=mod.relpath, function=short)
    res.count("comparisons scanned", n)
    ctx.require(res, "R19.3", n, 100, "comparisons")
    # approximate-comparison helpers of the standard library carry a tolerance of their own:
    # math.isclose(a, b, abs_tol=eps) still applies rel_tol=1e-09 unless it is switched off
    HELPERS = {"isclose": ("rel_tol", 1e-09), "allclose": ("rtol", 1e-05)}
    k = 0
    for mod in _core_mods(ctx):
        own = _owner_map(mod)
        for c in ast.walk(mod.tree):
            if not isinstance(c, ast.Call):
                continue
            name = c.func.attr if isinstance(c.func, ast.Attribute) else (c.func.id if isinstance(c.func, ast.Name) else None)
            if name not in HELPERS:
                continue
            f = own.get(id(c))
            if f is not None and name in _locals_of(f):
                continue
            kw, default = HELPERS[name]
            k += 1
            given = [x.value for x in c.keywords if x.arg == kw]
            if name == "isclose" and len(c.args) >= 3:
                given = [c.args[2]]
            ok = bool(given) and (const_num(given[0]) == 0 or "get_eps" in names_in(given[0]))
            short = f.short if f else "<module>"
            res.ob("R19.3", "%s:%d" % (mod.relpath, c.lineno), "%s: `%s`" % (short, txt(c)[:80]), ok,
                   "relative tolerance switched off / derived from get_eps()" if ok else "implicit %s=%g" % (kw, default))
            if not ok:
                res.violation("R19.3", f, c,
                              "`%s` compares with its built-in %s=%g in addition to the tolerance passed to it: the effective tolerance "
                              "is max(eps, %g*|x|), which does not follow set_eps / set_sig_figures" % (txt(c)[:60], kw, default, default),
                              construct="hidden relative tolerance in `%s`" % txt(c)[:100], file=mod.relpath, function=short)
    res.count("approximate-comparison helper calls", k)


def r194(ctx, res):
    """every rounding precision is derived from the live getter"""
    cm, tracked, setters, getters = config_names(ctx)
    sig_getter = [g for g in getters if g.name == "get_sig_figures"][0]
    n = 0
    mods = _core_mods(ctx) + [m for m in ctx.repo.modules.values() if ".visualization" in m.name]
    for mod in mods:
        if mod is cm:
            continue
        own = _owner_map(mod)
        for c in ast.walk(mod.tree):
            if not (isinstance(c, ast.Call) and isinstance(c.func, ast.Name) and c.func.id == "round"):
                continue
            f = own.get(id(c))
            if f is not None and "round" in _locals_of(f):
                continue
            prec = None
            if len(c.args) >= 2:
                prec = c.args[1]
            for k in c.keywords:
                if k.arg == "ndigits":
                    prec = k.value
            if prec is None:
                continue  # round(x): integer rounding, no precision involved
            n += 1
            short = f.short if f else "<module>"
            live = False
            # direct getter call, or a local assigned (only) from expressions containing a getter call
            def has_getter(e, depth=0, f=f):
                for x in ast.walk(e):
                    if isinstance(x, ast.Call) and isinstance(x.func, ast.Name):
                        b = f.resolve(x.func.id) if f else mod.resolve(x.func.id)
                        if b is not None and b.kind == "func" and b.target.qual == sig_getter.qual:
                            return True
                if f is not None and depth < 3:
                    asg = assigned_names(f.node)
                    for x in ast.walk(e):
                        if isinstance(x, ast.Name) and x.id in asg:
                            defs = asg[x.id]
                            if defs and all(isinstance(d, ast.Assign) and has_getter(d.value, depth + 1, f) for d in defs):
                                return True
                    # a parameter that every caller fills from the getter:  def _rounded(self, digits) ... self._rounded(get_sig_figures())
                    if isinstance(e, ast.Name) and e.id in f.params and e.id not in asg:
                        idx = f.params.index(e.id)
                        sites = []
                        for g_ in ctx.repo.functions(include_visualization=False):
                            for c_ in walk_local(g_.node):
                                if isinstance(c_, ast.Call) and f.qual in ctx.types.call_targets.get((g_.qual, id(c_)), ()):
                                    sites.append((g_, c_))
                        ok_all = True  # (no call site left: a helper whose calls were all read as its body, or an entry point whose
                        #               caller chooses the precision)
                        for g_, c_ in sites:
                            off = 1 if (f.self_name is not None and isinstance(c_.func, ast.Attribute)) else 0
                            actual = None
                            if idx - off < len(c_.args) and idx - off >= 0:
                                actual = c_.args[idx - off]
                            for k_ in c_.keywords:
                                if k_.arg == e.id:
                                    actual = k_.value
                            if actual is None or not has_getter(actual, depth + 1, g_):
                                ok_all = False
                        return ok_all
                return False

            live = has_getter(prec)
            stale = any(isinstance(x, ast.Name) and x.id in tracked for x in ast.walk(prec))
            res.ob("R19.4", "%s:%d" % (mod.relpath, c.lineno), "%s: round(..., %s)" % (short, txt(prec)), live,
                   "precision derived from get_sig_figures()" if live else "precision `%s` does not follow the setting" % txt(prec))
            if not live and not stale:  # stale names are reported by R19.1 already
                res.violation("R19.4", f, c,
                              "rounding precision `%s` is not derived from get_sig_figures(): hashes would not follow "
                              "set_eps()/set_sig_figures()" % txt(prec),
                              construct="round precision `%s` in %s" % (txt(prec), short), file=mod.relpath,
                              function=short)
    res.count("rounding sites", n)
    ctx.require(res, "R19.4", n, 10, "rounding sites with a precision")


def run(ctx, res):
    res.explanation = (
        "Scoping/dataflow decision that every tolerance used by the library is a live read of the configuration: "
        "no expression outside utils/constant.py reads the import-time names FLOAT_EPS/SIG_FIGURES, getter results "
        "are never cached beyond a function activation, every rounding precision derives from get_sig_figures(), "
        "no comparison uses a private float literal below 1e-3, no branch tests a coordinate-derived float exactly "
        "(truthiness, == c, != c; two tabled constructor validations excepted), and both setters assign both globals on every path "
        "with the pair (1e-10, 10) at the defaults (constant folding of the setters' own expressions). Whether a "
        "perturbation of eps/1000 compares/hashes equal and 4*eps unequal is numeric and NOT decided."
    )
    r191(ctx, res)
    r192(ctx, res)
    r193(ctx, res)
    r194(ctx, res)
    # R19.5 no decision on the exact value of a coordinate-derived float outside the solver
    from ..exact import report_exact
    fs = [f for f in ctx.repo.functions(include_visualization=False) if not f.module.name.endswith("utils.solver")]
    k = report_exact(ctx, res, "R19.5", fs, "the library")
    ctx.require(res, "R19.5", k, 250, "decision atoms examined")
    # R19.6 identity of points / vectors is decided by their tolerant __eq__ / __hash__, never by raw coordinate tuples
    # R19.8 Point / Vector equality compares every coordinate difference with a threshold that does not grow with the
    # coordinates: "Points or Vectors differing by more than 4 eps in some coordinate compare unequal"
    from ..exact import float_source
    n8 = 0
    for cname in ("Point", "Vector"):
        m8 = ctx.repo.cls(cname).lookup("__eq__") if ctx.repo.has_cls(cname) else None
        if m8 is None:
            continue
        for c8 in walk_local(m8.node):
            if isinstance(c8, ast.Compare) and len(c8.ops) == 1 and isinstance(c8.ops[0], (ast.Lt, ast.LtE, ast.Gt, ast.GtE)):
                sides = [c8.left, c8.comparators[0]]
                thr = [x for x in sides if any(isinstance(y, ast.Call) and isinstance(y.func, ast.Name) and y.func.id in ("get_eps",) for y in ast.walk(x))
                       or any(isinstance(y, ast.Name) and y.id in ("eps", "tol", "tolerance") for y in ast.walk(x))]
                if len(thr) != 1:
                    continue
                n8 += 1
                t8 = thr[0]
                # the threshold may be kept in a local (`tol = get_eps() * max(1.0, abs(self._v[0]), ...)`): read what it is bound to
                from ..astutil import expand_locals
                try:
                    t8e = expand_locals(m8.node, t8, m8.params)
                except Exception:
                    t8e = t8
                names8 = {y.id for y in ast.walk(t8) if isinstance(y, ast.Name)} | {y.id for y in ast.walk(t8e) if isinstance(y, ast.Name)}
                comp_vars = {g.id for ge in walk_local(m8.node) if isinstance(ge, ast.comprehension) for g in ast.walk(ge.target) if isinstance(g, ast.Name)}
                w8 = float_source(ctx, m8, t8) or (sorted(names8 & (set(m8.params) | comp_vars)) or None)
                ok8 = not w8
                res.ob("R19.8", m8.where(c8), "%s.__eq__: threshold `%s`" % (cname, txt(t8)[:40]), ok8,
                       "an absolute tolerance" if ok8 else "grows with the coordinates (%s)" % (w8,))
                if not ok8:
                    res.violation("R19.8", m8, c8, "%s.__eq__ compares a coordinate difference with `%s`, a threshold that grows with the coordinates "
                                  "(%s): far from the origin two %ss that differ by more than 4 eps compare equal, and %s.__eq__ no "
                                  "longer agrees with the absolute tolerance the rest of the library (and the hash grid) uses"
                                  % (cname, txt(t8)[:50], w8, cname, cname), construct="%s.__eq__ relative threshold" % cname)
    if n8 == 0:
        res.note("Point / Vector equality contains no comparison with the tolerance in a recognised form (it may go through a helper); R19.8 has no instance")
    from ..exact import report_rounding
    k7 = report_rounding(ctx, res, "R19.7", fs, "the result")
    ctx.require(res, "R19.7", k7, 100, "functions scanned for rounding outside the hash methods")
    from ..exact import report_coordinate_keys
    k6 = report_coordinate_keys(ctx, res, "R19.6", fs, "the library")
    ctx.require(res, "R19.6", k6, 150, "functions scanned")
    res.undecided_ob("numeric clauses: eps/1000 perturbations compare and hash equal, 4*eps perturbations compare unequal")
    res.undecided_ob("the exact `!= 0` pivot test of utils/solver.py (find_pivot_row) is part of the elimination algorithm; see C16")
