"""C01 -- intersection of two flat primitives.

Decides: R1.1 confinement (no point of the result outside either operand) for
the 15 flat x flat handlers; R1.2 end-point candidate completeness of the three
collinear branches (every end point of each operand is a candidate, guarded by
membership in the other operand; for two half-lines also the whole-operand
returns); R1.3 partial-operation guards of the numeric kernels (division by a
dot product of directions, normalised cross products).
That the kernels compute the right coordinates, completeness beyond end-point
candidates, the tolerance band and "None only when disjoint" are NOT decided.
"""
from __future__ import annotations

import ast
from typing import Dict, List, Optional, Set, Tuple

from ..astutil import expand_locals, txt
from ..confinement import handler_functions, report_bypass, report_function, run_confinement
from ..model import AnalysisError, FunctionInfo, walk_local
from ..rcross import check_cross
from .c04 import dispatch_info

FLAT = {"Point", "Line", "HalfLine", "Segment", "Plane"}
BODY = {"ConvexPolygon", "ConvexPolyhedron"}


def handler_bindings_all(ctx) -> Dict[str, Set[Tuple[str, str]]]:
    """handler function name -> set of (type of parameter 0, type of parameter 1) it is bound to from the dispatcher
    (one pair for a dedicated handler, several for a handler shared by different operand types)"""
    if "handler_bindings_all" in ctx.cache:
        return ctx.cache["handler_bindings_all"]
    from ..types import show
    inter, rets, raises, info = dispatch_info(ctx)
    out: Dict[str, Set[Tuple[str, str]]] = {}
    for (ta, tb), d in info.items():
        if ta == "None" or tb == "None":
            continue
        for r, h, pt, an in d["returns"]:
            if h is None or pt is None or len(pt) != 2:
                continue
            out.setdefault(h.split(":")[-1], set()).add((show(pt[0]), show(pt[1])))
    ctx.cache["handler_bindings_all"] = out
    return out


def handler_bindings(ctx) -> Dict[str, Tuple[str, str]]:
    """handler function name -> its binding (the first one in sorted order if it is shared)"""
    return {k: sorted(v)[0] for k, v in handler_bindings_all(ctx).items()}


def handlers_of(ctx, pred) -> List[FunctionInfo]:
    handlers, helpers, inter = handler_functions(ctx)
    hb = handler_bindings_all(ctx)
    sel = [f for f in handlers if f.name in hb and any(pred(t) for t in hb[f.name])]
    # private two-operand helpers that only these handlers call (e.g. a shared `_inter_crossing_linears`) belong to them
    eng = ctx.types
    by_qual = {f.qual: f for f in handlers}
    callers: Dict[str, Set[str]] = {}
    for (q, _), tgs in eng.call_targets.items():
        for t in tgs:
            callers.setdefault(t, set()).add(q)
    changed = True
    while changed:
        changed = False
        chosen = {f.qual for f in sel}
        for f in handlers:
            if f.qual in chosen or f.name in hb:
                continue
            cs = {c for c in callers.get(f.qual, ()) if c != f.qual}
            if cs and cs <= chosen:
                sel.append(f)
                changed = True
    return sel


def covered_pairs(ctx, pred) -> Set[frozenset]:
    """unordered operand-type pairs (satisfying pred) that reach some handler"""
    return {frozenset(t) for ts in handler_bindings_all(ctx).values() for t in ts if pred(t)}


def point_fields(ctx, cname: str) -> List[str]:
    return sorted(f for (c, f), v in ctx.types.fields.items() if c == cname and set(map(str, v)) == {"Point"})


def collinear_branch(fi: FunctionInfo) -> Optional[ast.If]:
    a, b = fi.params[:2]
    want = {"%s.line == %s.line" % (a, b), "%s.line == %s.line" % (b, a)}
    for n in walk_local(fi.node):
        if isinstance(n, ast.If) and txt(n.test) in want:
            return n
    return None


def r12_endpoint_candidates(ctx, res):
    """every end point of each 1-D operand is a candidate of the collinear case (origin families: the rule does not
    depend on whether the code uses explicit ifs, a loop over the end points, local flags or a private helper)"""
    from ..origins import check_families

    hb = handler_bindings(ctx)
    n = 0
    for fi in handlers_of(ctx, lambda t: t[0] in ("Segment", "HalfLine") and t[1] in ("Segment", "HalfLine")):
        if fi.name not in hb:
            continue  # a private helper of such a handler: its candidates are accounted for in the handlers that call it
        ta, tb = hb[fi.name]
        a, b = fi.params[:2]
        required = []
        for X, tX in ((a, ta), (b, tb)):
            for f in point_fields(ctx, tX):
                required.append("%s.%s" % (X, f))
        exempt = ()
        if ta == "HalfLine" and tb == "HalfLine":
            required += [a, b]  # nested half-lines: the whole operand is the answer
            exempt = (a, b)
        n += check_families(ctx, res, "R1.2", fi, required, "end points of the operands in the collinear case", exempt_bypass=exempt)
    ctx.require(res, "R1.2", n, 12, "end-point candidate obligations")


KIND = {"dv": "tangent", "vector": "tangent", "n": "normal"}


def r13_kernel_guards(ctx, res):
    eng = ctx.types
    n = 0
    for name in ("inter_line_line", "inter_line_plane", "inter_plane_plane"):
        fi = ctx.repo.fn(name, "calc.intersection")
        g = ctx.cfg(fi)
        par = {}
        for x in ast.walk(fi.node):
            for ch in ast.iter_child_nodes(x):
                par[id(ch)] = x
        for d in walk_local(fi.node):
            if not (isinstance(d, ast.BinOp) and isinstance(d.op, ast.Div)):
                continue
            den = d.right
            if isinstance(den, ast.Name):
                # a hoisted denominator (`steepness = p.n * l.dv`): read through its single definition
                from ..astutil import single_defs
                dd = single_defs(fi.node, fi.params).get(den.id)
                if dd is not None:
                    den = dd
            if not (isinstance(den, ast.BinOp) and isinstance(den.op, ast.Mult)):
                continue
            tl, tr = eng.types_at(fi, den.left), eng.types_at(fi, den.right)
            if set(map(str, tl)) != {"Vector"} or set(map(str, tr)) != {"Vector"}:
                continue
            n += 1
            U, V = expand_locals(fi.node, den.left, fi.params), expand_locals(fi.node, den.right, fi.params)
            stmt = d
            while id(stmt) in par and not isinstance(stmt, ast.stmt):
                stmt = par[id(stmt)]
            nodes = g.nodes_of(stmt)
            dom = g.dominating_edges(nodes[0]) if nodes else []
            ok = False
            why = "no dominating guard excludes a zero dot product"
            den_keys = {txt(ast.BinOp(left=U, op=ast.Mult(), right=V)), txt(ast.BinOp(left=V, op=ast.Mult(), right=U))}
            for c, _, l in dom:
                e = g.nodes[c].ast
                # null(U * V) / abs(U * V) < eps: false edge (the same product, read through hoisted locals)
                ex = expand_locals(fi.node, e, fi.params)
                if l == "F" and isinstance(ex, ast.Call) and isinstance(ex.func, ast.Name) and ex.func.id == "null" and len(ex.args) == 1 \
                        and txt(ex.args[0]) in den_keys:
                    ok, why = True, "false edge of `%s` (tolerant zero test of the denominator)" % txt(e)
                if l == "F" and isinstance(ex, ast.Compare) and len(ex.ops) == 1 and isinstance(ex.ops[0], (ast.Lt, ast.LtE)) \
                        and isinstance(ex.left, ast.Call) and isinstance(ex.left.func, ast.Name) and ex.left.func.id == "abs" and ex.left.args \
                        and txt(ex.left.args[0]) in den_keys and "get_eps" in txt(ex.comparators[0]):
                    ok, why = True, "false edge of `%s` (tolerant zero test of the denominator)" % txt(e)
                # U.orthogonal(V) false edge
                if l == "F" and isinstance(e, ast.Call) and isinstance(e.func, ast.Attribute) and e.func.attr == "orthogonal" \
                        and len(e.args) == 1 and {txt(e.func.value), txt(e.args[0])} == {txt(U), txt(V)}:
                    ok, why = True, "false edge of `%s`" % txt(e)
                # parallel(A, B) false edge with U, V the directions of A, B of different kinds
                if l == "F" and isinstance(e, ast.Call) and isinstance(e.func, ast.Name) and e.func.id == "parallel" and len(e.args) == 2:
                    objs = {txt(e.args[0]), txt(e.args[1])}
                    if isinstance(U, ast.Attribute) and isinstance(V, ast.Attribute) and {txt(U.value), txt(V.value)} == objs \
                            and KIND.get(U.attr) and KIND.get(V.attr) and KIND[U.attr] != KIND[V.attr]:
                        ok, why = True, "false edge of `%s` (line parallel to plane <=> direction orthogonal to normal)" % txt(e)
            res.ob("R1.3", fi.where(d), "%s: division by `%s`" % (fi.short, txt(den)), ok, why)
            if not ok:
                res.violation("R1.3", fi, d, "%s divides by the dot product `%s` without a guard that excludes orthogonal "
                              "directions (a line parallel to the plane): ZeroDivisionError instead of None" % (fi.short, txt(den)),
                              construct="%s: unguarded division by %s" % (fi.short, txt(den)))
    k = check_cross(ctx, res, ctx.repo.fn("inter_plane_plane", "calc.intersection"), "R1.3")
    ctx.require(res, "R1.3", n + k, 3, "partial operations in the kernels")


def run(ctx, res):
    res.explanation = (
        "Compositional confinement analysis of the 15 flat x flat handlers (obligation dataflow: every returned value is "
        "a subset of both operands, established by membership / equality / carrier-coincidence guards on the CFG and by "
        "the three numeric kernel axioms), end-point candidate completeness of the collinear branches (each end point of "
        "each operand, read from the class field table, is offered under its membership test; whole-operand returns for "
        "nested half-lines), and the guards of the kernels' partial operations (division by n.dv behind the parallel "
        "test, normalised cross products behind the parallel test / own-factor rule). NOT decided: that the kernels "
        "compute the right coordinates, that no points are missed in generic position, behaviour in the tolerance band, "
        "that None is returned only when the operands are disjoint."
    )
    cf = run_confinement(ctx)
    hs = handlers_of(ctx, lambda t: t[0] in FLAT and t[1] in FLAT)
    from .c04 import report_binding_slips
    ctx.require(res, "R1.7", report_binding_slips(ctx, res, "R1.7", hs), 2, "handlers bound by the dispatcher")
    ctx.require(res, "R1.1", len(covered_pairs(ctx, lambda t: t[0] in FLAT and t[1] in FLAT)), 15, "flat x flat operand pairs bound to a handler")
    total = 0
    for fi in hs:
        total += report_function(ctx, res, cf, fi, "R1.1")
    res.count("return sites", total)
    res.count("kernel axioms used", sum(1 for f in hs for _ in cf.results[f.name].kernel_sites))
    res.extra["guards_used"] = sorted({g for f in hs for g in cf.results[f.name].guards})
    r12_endpoint_candidates(ctx, res)
    r13_kernel_guards(ctx, res)
    from ..confinement import numeric_rejections
    k = numeric_rejections(ctx, res, "R1.4", hs, "flat x flat handlers")
    res.count("numeric rejections", k)
    res.undecided_ob("numeric kernels compute the right coordinates (assumption A4)")
    # R1.6 the handlers' internal sanity raises ('Bug detected') are unreachable: by the E1 types of the value switched on,
    # by an equality the callee already decided, propositionally, or by the number of add sites (the analysis of C04 R4.7)
    from .c04 import r47
    r47(ctx, res, scope=list(hs), rule="R1.6", need=1)
    # R1.8 positions and directions are not confused in the handlers and in the constructors of the flat operands (affine.py)
    from ..affine import affine_scope, report_affine
    k8 = report_affine(ctx, res, "R1.8", affine_scope(ctx, hs, ("Point", "Line", "Plane", "Segment", "HalfLine")), "the intersection")
    ctx.require(res, "R1.8", k8, 20, "function contexts examined for position / direction mismatches")
    # R1.9 no computed value is rounded on its way into the result (exact.report_rounding)
    from ..exact import report_rounding
    from ..affine import affine_scope as _ascope
    kr = report_rounding(ctx, res, "R1.9", _ascope(ctx, hs, ()), "the intersection")
    ctx.require(res, "R1.9", kr, 5, "functions scanned for rounding")
    # R1.10 a Segment is built only from two points known to be distinct: the end points of two different operands can coincide
    # (half lines that touch in their common origin), and Segment(p, p) raises ValueError
    from ..astutil import parents as _parents
    n10 = 0
    for h_ in hs:
        par_ = _parents(h_.node)
        for c_ in walk_local(h_.node):
            if not (isinstance(c_, ast.Call) and isinstance(c_.func, ast.Name) and c_.func.id == "Segment" and len(c_.args) == 2 and not c_.keywords):
                continue
            x_, y_ = c_.args
            if not all({str(t) for t in ctx.types.types_at(h_, a_) if not isinstance(t, tuple)} == {"Point"} for a_ in (x_, y_)):
                continue
            n10 += 1
            roots = []
            for a_ in (x_, y_):
                b_ = a_
                while isinstance(b_, ast.Attribute):
                    b_ = b_.value
                roots.append(b_.id if isinstance(b_, ast.Name) and isinstance(a_, ast.Attribute) and b_.id in h_.params[:2] else None)
            raw = None not in roots and roots[0] != roots[1]
            guarded = False
            cur_ = c_
            while id(cur_) in par_:
                cur_ = par_[id(cur_)]
                if isinstance(cur_, ast.If):
                    for t_ in ast.walk(cur_.test):
                        if isinstance(t_, ast.Compare) and len(t_.ops) == 1 and isinstance(t_.ops[0], (ast.Eq, ast.NotEq)) \
                                and {txt(t_.left), txt(t_.comparators[0])} == {txt(x_), txt(y_)}:
                            guarded = True
            if not raw:
                # Segment(L[0], L[1]): the collection must merge equal points -- it comes from a set, or every append is behind `not in L`
                plain = None
                if all(isinstance(a_, ast.Subscript) and isinstance(a_.value, ast.Name) for a_ in (x_, y_)) and x_.value.id == y_.value.id:
                    L_ = x_.value.id
                    from ..astutil import assigned_names
                    defs_ = assigned_names(h_.node).get(L_, [])
                    from_set = any(isinstance(d_, ast.Assign) and isinstance(d_.value, ast.Call) and isinstance(d_.value.func, ast.Name)
                                   and d_.value.func.id in ("list", "tuple", "sorted") and d_.value.args
                                   and any(isinstance(t, tuple) and t[0] == "set" for t in ctx.types.types_at(h_, d_.value.args[0]))
                                   for d_ in defs_)
                    empty_list = any(isinstance(d_, ast.Assign) and isinstance(d_.value, ast.List) and not d_.value.elts for d_ in defs_)
                    if not from_set and empty_list:
                        def root_(e__):
                            b__ = e__
                            while isinstance(b__, ast.Attribute):
                                b__ = b__.value
                            return b__.id if isinstance(b__, ast.Name) and isinstance(e__, ast.Attribute) and b__.id in h_.params[:2] else None
                        aps_ = sorted([ap_ for ap_ in walk_local(h_.node) if isinstance(ap_, ast.Call) and isinstance(ap_.func, ast.Attribute)
                                       and ap_.func.attr == "append" and isinstance(ap_.func.value, ast.Name) and ap_.func.value.id == L_ and ap_.args],
                                      key=lambda a_: (a_.lineno, a_.col_offset))
                        seen_roots = []
                        for ap_ in aps_:
                            e_txt = txt(ap_.args[0])
                            cur_, guarded_ = ap_, False
                            while id(cur_) in par_:
                                cur_ = par_[id(cur_)]
                                if isinstance(cur_, ast.If) and any(isinstance(t_, ast.Compare) and len(t_.ops) == 1 and isinstance(t_.ops[0], ast.NotIn)
                                                                    and txt(t_.left) == e_txt and txt(t_.comparators[0]) == L_ for t_ in ast.walk(cur_.test)):
                                    guarded_ = True
                            r_ = root_(ap_.args[0])
                            # the distinct end points of ONE operand cannot coincide (its constructor rejects that)
                            same_operand = r_ is not None and all(x_ == r_ for x_ in seen_roots)
                            if not guarded_ and seen_roots and not same_operand and plain is None:
                                plain = ap_
                            seen_roots.append(r_)
                if plain is not None:
                    res.ob("R1.10", h_.where(c_), "%s: `%s`" % (h_.short, txt(c_)[:50]), False, "`%s` may add a point that is already in the list" % txt(plain)[:50])
                    res.violation("R1.10", h_, c_, "%s builds `%s` from a plain list whose `%s` is not behind a `not in` filter: two operands that "
                                  "share exactly one end point (opposite half lines with a common origin) put it in twice, and "
                                  "Segment(p, p) raises ValueError instead of the touching Point being returned"
                                  % (h_.short, txt(c_)[:50], txt(plain)[:40]), construct="%s: `%s` from a list with duplicates" % (h_.short, txt(c_)[:40]))
                    continue
                res.ob("R1.10", h_.where(c_), "%s: `%s`" % (h_.short, txt(c_)[:50]), True, "two items of a deduplicated collection / computed points", nontrivial=False)
                continue
            res.ob("R1.10", h_.where(c_), "%s: `%s`" % (h_.short, txt(c_)[:50]), guarded,
                   "guarded by a comparison of the two points" if guarded else "no test that the two end points differ")
            if not guarded:
                res.violation("R1.10", h_, c_, "%s builds `%s` from an end point of each operand without testing that they differ: two operands "
                              "that touch exactly there (opposite half lines with a common origin) make the constructor raise "
                              "ValueError instead of the touching Point being returned" % (h_.short, txt(c_)[:60]),
                              construct="%s: `%s` from possibly equal end points" % (h_.short, txt(c_)[:40]))
    ctx.require(res, "R1.10", n10, 3, "Segment constructions in the flat x flat handlers")
    # R1.5 the linear solver picks its pivot row by the pivot column (coverage.py)
    from ..coverage import check_pivot_choice
    check_pivot_choice(ctx, res, "R1.5")
    res.undecided_ob("completeness beyond end-point candidates; tolerance band; None only when disjoint")
