"""C10 -- distance is symmetric, total and non-negative.

Decides: R10.1 dispatch over the 8 documented ordered pairs with the swapped
orders forwarding to the computed ones; R10.2 non-negativity (sign domain);
R10.3 method forms and agreement of Point.distance with distance(Point, Point)
(polynomial normal form under the root); R10.4 R-CROSS on the distance code
(no normalised cross product of possibly parallel directions); R10.5 the value
does not depend on the length / sign of a direction vector; R10.6 no branch of
distance() or its helpers decides on the exact value of a computed float.
That the value equals the Euclidean minimum, and "zero exactly when they
intersect", are NOT decided.
"""
from __future__ import annotations

import ast
from typing import Dict, List, Optional, Tuple

from ..astutil import assigned_names, const_num, txt
from ..model import AnalysisError, walk_local
from ..rcross import check_cross, module_closure
from ..types import S, show

DOCUMENTED = [("Point", "Point"), ("Point", "Line"), ("Line", "Point"), ("Line", "Line"), ("Point", "Plane"),
              ("Plane", "Point"), ("Line", "Plane"), ("Plane", "Line")]


def _nonneg(ctx, fi, e: ast.AST, depth=0) -> Tuple[bool, str]:
    c = const_num(e)
    if c is not None:
        return c >= 0, "literal %r" % c
    if isinstance(e, ast.IfExp) and depth < 4:
        a, b = _nonneg(ctx, fi, e.body, depth + 1), _nonneg(ctx, fi, e.orelse, depth + 1)
        if a[0] and b[0]:
            return True, "both arms: %s / %s" % (a[1], b[1])
        return False, a[1] if not a[0] else b[1]
    if isinstance(e, ast.Call):
        if isinstance(e.func, ast.Name) and e.func.id == "abs":
            return True, "abs(...)"
        if isinstance(e.func, ast.Name) and e.func.id in ("max", "min") and e.args and depth < 4:
            rs = [_nonneg(ctx, fi, a_, depth + 1) for a_ in e.args]
            if (e.func.id == "max" and any(r[0] for r in rs)) or (e.func.id == "min" and all(r[0] for r in rs)):
                return True, "%s of non-negative value(s)" % e.func.id
        tg = ctx.types.call_targets.get((fi.qual, id(e)), set())
        if tg == {fi.qual}:
            return True, "recursive distance(...) (induction on the dispatch)"
        group = getattr(ctx, "_c10_group", None)
        if group and tg and tg <= group:
            ctx._c10_used |= tg
            return True, "call of %s within distance()'s own helpers (every return of each is checked; induction)" % "/".join(
                sorted(q.split(":")[-1] for q in tg))
        if isinstance(e.func, ast.Attribute) and e.func.attr in ("length", "__abs__") and tg and all(
                q.endswith("Vector.length") for q in tg):
            ok, why = _length_nonneg(ctx)
            return ok, ".length() " + why
        if txt(e.func) in ("math.sqrt", "sqrt", "math.hypot", "math.fabs"):
            return True, txt(e.func)
        if tg and all(q.endswith(":Point.distance") for q in tg):
            return True, "Point.distance (sqrt of squares)"
    if isinstance(e, ast.Name) and depth < 3:
        defs = assigned_names(fi.node).get(e.id, [])
        if defs and all(isinstance(d, ast.Assign) for d in defs):
            rs = [_nonneg(ctx, fi, d.value, depth + 1) for d in defs]
            return all(r[0] for r in rs), "; ".join(r[1] for r in rs)
    if isinstance(e, ast.BinOp) and isinstance(e.op, (ast.Mult, ast.Div)) and depth < 4:
        a, b = _nonneg(ctx, fi, e.left, depth + 1), _nonneg(ctx, fi, e.right, depth + 1)
        if a[0] and b[0]:
            return True, "product / quotient of non-negative factors"
    if isinstance(e, ast.BinOp) and isinstance(e.op, ast.Pow):
        p = const_num(e.right)
        if p is not None and (p == 0.5 or (float(p).is_integer() and int(p) % 2 == 0)):
            return True, "even power / square root"
    return False, "`%s` has no sign guarantee" % txt(e)[:50]


def _length_nonneg(ctx) -> Tuple[bool, str]:
    fi = ctx.repo.fn("Vector.length")
    rets = [r for r in walk_local(fi.node) if isinstance(r, ast.Return)]
    for r in rets:
        v = r.value
        ok = (isinstance(v, ast.BinOp) and isinstance(v.op, ast.Pow) and const_num(v.right) == 0.5) or \
             (isinstance(v, ast.Call) and txt(v.func) in ("math.sqrt", "sqrt"))
        if not ok:
            return False, "(Vector.length is not a principal square root: `%s`)" % txt(v)
    return bool(rets), "(principal square root)"


def run(ctx, res):
    res.explanation = (
        "Static decision of the structure of distance(): a branch for each of the 8 documented ordered pairs, the four "
        "swapped orders forwarding to distance(b, a) so both orders run one computation, a raising else; every result "
        "is non-negative by a sign domain (abs, length, non-negative literal, recursion); the method forms forward "
        "(self, other); and no normalised cross product of direction vectors is taken without a guard excluding "
        "parallel and anti-parallel operands (R-CROSS), so parallel lines cannot raise ZeroDivisionError. Equality "
        "with the Euclidean minimum and 'zero exactly when the operands intersect' are numeric and NOT decided."
    )
    repo, eng = ctx.repo, ctx.types
    fi = repo.fn("distance", "calc.distance")
    closure = module_closure(ctx, fi)
    ctx._c10_group = {f.qual for f in closure}
    ctx._c10_used = set()  # helpers whose value is returned by distance (directly or through each other)
    # operands re-bound only among themselves (`a, b = b, a`): then a parameter's type says which operand it holds
    rebinds_only = True
    for n_ in walk_local(fi.node):
        if isinstance(n_, (ast.Assign, ast.AugAssign, ast.AnnAssign, ast.For, ast.NamedExpr)):
            tg_ = n_.targets if isinstance(n_, ast.Assign) else [n_.target]
            for t_ in tg_:
                for nm in ast.walk(t_):
                    if isinstance(nm, ast.Name) and nm.id in fi.params[:2]:
                        v_ = getattr(n_, "value", None)
                        okv = isinstance(n_, ast.Assign) and (
                            (isinstance(v_, ast.Name) and v_.id in fi.params[:2]) or
                            (isinstance(v_, ast.Tuple) and all(isinstance(x_, ast.Name) and x_.id in fi.params[:2] for x_ in v_.elts)))
                        if not okv:
                            rebinds_only = False
    # the top-level statement that exchanges the operands (`if <a is the "larger" type>: a, b = b, a`), if any
    swap_stmt = None
    for st_ in fi.node.body:
        for n_ in ast.walk(st_):
            if isinstance(n_, ast.Assign) and len(n_.targets) == 1 and isinstance(n_.targets[0], ast.Tuple) \
                    and [txt(x_) for x_ in n_.targets[0].elts] == list(fi.params[:2]) and isinstance(n_.value, ast.Tuple) \
                    and [txt(x_) for x_ in n_.value.elts] == list(reversed(fi.params[:2])):
                swap_stmt = st_
    signature: Dict[Tuple[str, str], tuple] = {}
    computed: Dict[Tuple[str, str], ast.Return] = {}
    computed_all: List[Tuple[Tuple[str, str], ast.Return]] = []
    for ta, tb in DOCUMENTED:
        sm = eng.summary(fi, (S(ta), S(tb)))
        if sm is None:
            raise AnalysisError("no summary for distance(%s, %s)" % (ta, tb))
        bound = eng._bind(fi, (S(ta), S(tb)), {})
        lab = "distance(%s, %s)" % (ta, tb)
        own_raises = [r for r in walk_local(fi.node) if isinstance(r, ast.Raise) and id(r) in sm.reached]
        rets = [r for r in walk_local(fi.node) if isinstance(r, ast.Return) and id(r) in sm.reached]
        if own_raises and not rets:
            res.ob("R10.1", fi.where(), lab, False, "falls through to the raising else")
            res.violation("R10.1", fi, own_raises[0], "%s is documented but has no branch: it raises" % lab,
                          construct=lab + " unsupported")
            continue
        fw = None
        for r in rets:
            if isinstance(r.value, ast.Call) and eng.call_targets.get((fi.qual, id(r.value)), set()) == {fi.qual}:
                ts = tuple(show(eng.ctx_node_types.get((fi.qual, bound, id(a)), frozenset())) for a in r.value.args)
                names = tuple(txt(a) for a in r.value.args)
                if set(names) == set(fi.params[:2]):
                    fw = (r, ts)
        if fw is not None and len(rets) == 1:
            ok = fw[1] == (tb, ta) and ta != tb
            res.ob("R10.1", fi.where(fw[0]), lab, ok, "forwards to distance%s" % (fw[1],))
            if not ok:
                res.violation("R10.1", fi, fw[0],
                              "%s forwards to distance%s instead of the swapped pair (unbounded recursion / asymmetric result)"
                              % (lab, fw[1]), construct=lab + " forwarding")
        else:
            for r in rets:
                computed[(ta, tb)] = r
                computed_all.append(((ta, tb), r))
            if rebinds_only and swap_stmt is not None:
                # the operand types AFTER the exchange statement (read off the later uses of the two parameters): if they
                # are the same for both orders, and the same returns are reached, the two orders run one computation
                later: Dict[str, set] = {pa_: set() for pa_ in fi.params[:2]}
                for st_ in fi.node.body[fi.node.body.index(swap_stmt) + 1:]:
                    for nm_ in ast.walk(st_):
                        if isinstance(nm_, ast.Name) and isinstance(nm_.ctx, ast.Load) and nm_.id in later:
                            t_ = eng.ctx_node_types.get((fi.qual, bound, id(nm_)), frozenset())
                            if t_:
                                later[nm_.id] |= {show(t_)}
                if all(len(v_) == 1 for v_ in later.values()):
                    signature[(ta, tb)] = (tuple(sorted(id(r_) for r_ in rets)), tuple(next(iter(later[pa_])) for pa_ in fi.params[:2]))
            res.ob("R10.1", fi.where(rets[0]), lab, True, "computed by its own branch (%d return(s))" % len(rets))
        # R10.2 on every reached return
        for r in rets:
            ok, why = _nonneg(ctx, fi, r.value)
            res.ob("R10.2", fi.where(r), lab + ": `%s`" % txt(r.value)[:40], ok, why)
            if not ok:
                res.violation("R10.2", fi, r, "%s may be negative: %s" % (lab, why), construct=lab + " sign")
    for ta, tb in (("Point", "Line"), ("Point", "Plane"), ("Line", "Plane")):
        both = (ta, tb) in computed and (tb, ta) in computed
        sg = signature.get((ta, tb))
        if both and sg is not None and sg == signature.get((tb, ta)) and set(sg[1]) == {ta, tb}:
            res.ob("R10.1", fi.where(computed[(ta, tb)]), "{%s, %s}" % (ta, tb), True,
                   "the operands are exchanged in front of the dispatch: both orders continue with operand types %s and reach the "
                   "same return(s), e.g. `%s`" % (sg[1], txt(computed[(ta, tb)].value)[:40]))
            continue
        if both and computed[(ta, tb)].value is not None and computed[(tb, ta)].value is not None \
                and sum(1 for k_, _r in computed_all if k_ == (ta, tb)) == 1 and sum(1 for k_, _r in computed_all if k_ == (tb, ta)) == 1:
            from ..astutil import exchanged, expand_locals
            pa, pb = fi.params[:2]
            if txt(expand_locals(fi.node, computed[(ta, tb)].value, fi.params)) == exchanged(fi.node, computed[(tb, ta)].value, pa, pb, fi.params):
                res.ob("R10.1", fi.where(computed[(tb, ta)]), "{%s, %s}" % (ta, tb), True,
                       "the (%s, %s) branch evaluates the expression of the (%s, %s) branch with the operands exchanged" % (tb, ta, ta, tb))
                continue
        res.ob("R10.1", fi.where(), "{%s, %s}" % (ta, tb), not both, "one order forwards to the other")
        if both:
            res.violation("R10.1", fi, computed[(tb, ta)],
                          "distance computes (%s, %s) and (%s, %s) in separate branches; symmetry is no longer by construction"
                          % (ta, tb, tb, ta), construct="mixed pair {%s, %s} computed twice" % (ta, tb))
    ctx.require(res, "R10.1", len(DOCUMENTED), 8, "documented pairs")
    done2 = set()
    while True:
        todo2 = [h for h in closure[1:] if h.qual in ctx._c10_used and h.qual not in done2]
        if not todo2:
            break
        h = todo2[0]
        done2.add(h.qual)
        for r in walk_local(h.node):
            if isinstance(r, ast.Return) and eng.reached_anywhere(h, r):
                if r.value is None:
                    ok, why = False, "returns None"
                else:
                    ok, why = _nonneg(ctx, h, r.value)
                res.ob("R10.2", h.where(r), "%s: `%s`" % (h.short, txt(r.value)[:40] if r.value else "None"), ok, why)
                if not ok:
                    res.violation("R10.2", h, r, "%s (a helper of distance) may return a negative value: %s" % (h.short, why),
                                  construct="%s sign of `%s`" % (h.short, txt(r.value)[:40] if r.value else "None"))
    # R10.5 the value does not depend on the length / sign of a Line's direction vector
    from .c08 import EVEN, Gauge
    n5 = 0
    for (ta, tb), r in computed_all:
        for X, tX in zip(fi.params[:2], (ta, tb)):
            if tX != "Line":
                continue
            n5 += 1
            G = Gauge(fi, "", 1, q_text="%s.dv" % X)
            d, par = G.g(r.value)
            ok = d == 0 and par == EVEN
            res.ob("R10.5", fi.where(r), "distance(%s, %s) vs length/sign of %s.dv" % (ta, tb, X), ok,
                   "degree 0 and even in %s.dv" % X if ok else "degree %s, parity %s in %s.dv" % (d, par, X))
            if not ok:
                res.violation("R10.5", fi, r,
                              "distance(%s, %s) depends on the length or sign of the direction vector %s.dv (`%s` is of degree %s, %s "
                              "in it): two representations of the same line give different distances" % (ta, tb, X, txt(r.value)[:70], d, par),
                              construct="distance(%s, %s) gauge %s.dv" % (ta, tb, X))
    for h in closure[1:]:
        if h.qual not in ctx._c10_used:
            continue  # a predicate helper: its result is a classification, not a distance
        seen5 = set()
        for argt, sm in eng.summaries_of(h):
            for X, tX in argt:
                if X not in h.params or show(tX) != "Line":
                    continue
                for r in walk_local(h.node):
                    if not (isinstance(r, ast.Return) and r.value is not None and id(r) in sm.reached) or (X, id(r)) in seen5:
                        continue
                    seen5.add((X, id(r)))
                    n5 += 1
                    G = Gauge(h, "", 1, q_text="%s.dv" % X)
                    d, par = G.g(r.value)
                    ok = d == 0 and par == EVEN
                    res.ob("R10.5", h.where(r), "%s vs length/sign of %s.dv" % (h.short, X), ok,
                           "degree 0 and even in %s.dv" % X if ok else "degree %s, parity %s in %s.dv" % (d, par, X))
                    if not ok:
                        res.violation("R10.5", h, r,
                                      "%s (a helper of distance) depends on the length or sign of the direction vector %s.dv (`%s` is "
                                      "of degree %s, %s in it): two representations of the same line give different distances"
                                      % (h.short, X, txt(r.value)[:70], d, par), construct="%s gauge %s.dv" % (h.short, X))
    ctx.require(res, "R10.5", n5, 4, "direction-gauge obligations")
    # R10.3 method forms
    body = repo.cls("GeoBody")
    m = body.lookup("distance")
    ok = False
    why = "missing"
    if m is not None:
        rets = [r for r in walk_local(m.node) if isinstance(r, ast.Return)]
        if len(rets) == 1 and isinstance(rets[0].value, ast.Name):
            # `result = distance(self, other); return result`: a local with one definition, returned at once
            from ..astutil import single_defs
            d_ = single_defs(m.node, m.params).get(rets[0].value.id)
            if isinstance(d_, ast.Call):
                rets = [ast.Return(value=d_)]
        if len(rets) == 1 and isinstance(rets[0].value, ast.Call):
            tg = eng.call_targets.get((m.qual, id(rets[0].value)), set())
            args = [txt(a) for a in rets[0].value.args]
            ok = tg == {fi.qual} and args == m.params[:2]
            why = "returns distance(%s)" % ", ".join(args)
    res.ob("R10.3", m.where() if m else "body.py", "GeoBody.distance", ok, why)
    if not ok:
        res.violation("R10.3", m, m.node if m else None, "GeoBody.distance must return distance(self, other): %s" % why,
                      construct="GeoBody.distance forwarding", file="Geometry3D/geometry/body.py", function="GeoBody.distance")
    for cname in ("Line", "Plane"):
        mm = repo.cls(cname).lookup("distance")
        if mm is None or mm.cls.name != "GeoBody":
            raise AnalysisError("%s.distance is not the GeoBody method form" % cname)
    # Point.distance vs distance(Point, Point): same polynomial under the root
    try:
        from ..algebra import point_distance_forms
        f1, f2, okp = point_distance_forms(ctx)
        res.ob("R10.3", repo.fn("Point.distance").where(), "Point.distance == distance(Point, Point)", okp,
               "both are the square root of dx^2 + dy^2 + dz^2 (normal forms equal)" if okp else "normal forms differ: %s vs %s" % (f1, f2))
        if not okp:
            res.violation("R10.3", repo.fn("Point.distance"), repo.fn("Point.distance").node,
                          "Point.distance and distance(Point, Point) compute different expressions: %s vs %s" % (f1, f2),
                          construct="Point.distance agreement")
    except ImportError:
        res.note("R10.3 polynomial agreement of Point.distance is checked once the algebra engine is present")
    # R10.4 R-CROSS
    n = sum(check_cross(ctx, res, f_, "R10.4") for f_ in module_closure(ctx, fi))
    ctx.require(res, "R10.4", n, 1, "normalised cross products in distance()")
    # R10.6 every classification inside distance() and its helpers is tolerant
    from ..exact import report_exact
    reached = eng.reached_from([(fi, (S(ta), S(tb))) for ta, tb in DOCUMENTED])
    closure6 = list(closure) + [f_ for f_ in repo.functions(include_visualization=False) if f_.qual in reached and f_ not in closure]
    k6 = report_exact(ctx, res, "R10.6", closure6, "distance()")
    # R10.7 the result scales like a length (degree 1 under scaling all coordinates) on every documented pair, and no
    # expression on the way combines quantities of different degree
    from .c06 import Degree, Z
    dg = Degree(ctx)
    kd = lambda t: ("p",) if t == "Point" else ("o", t)
    n7 = 0
    for ta, tb in DOCUMENTED:
        r = dg.fn_degree(fi, (kd(ta), kd(tb)))
        got = r[1] if r is not None and r[0] == "s" else None
        if got is None:
            if dg.errors:
                continue
            raise AnalysisError("%s: the homogeneity degree of distance(%s, %s) cannot be determined" % (fi.where(), ta, tb))
        n7 += 1
        ok = got == 1 or got == Z
        res.ob("R10.7", fi.where(), "distance(%s, %s) has degree 1" % (ta, tb), ok, "degree %s under scaling of all coordinates" % got)
        if not ok:
            res.violation("R10.7", fi, fi.node, "distance(%s, %s) scales like k^%s under scaling all coordinates by k; a distance must scale "
                          "like k (a missing normalisation, a dropped square root, an extra length factor)" % (ta, tb, got),
                          construct="distance(%s, %s) degree" % (ta, tb))
    seen7 = set()
    for f_, node, msg in dg.errors:
        k_ = (f_.qual, txt(node), msg)
        if k_ in seen7:
            continue
        seen7.add(k_)
        res.ob("R10.7", f_.where(node), "%s: `%s`" % (f_.short, txt(node)[:50]), False, msg)
        res.violation("R10.7", f_, node, "dimensionally inconsistent expression in %s: %s" % (f_.short, msg),
                      construct="%s: inhomogeneous `%s`" % (f_.short, txt(node)[:60]))
    if not dg.errors:
        ctx.require(res, "R10.7", n7, 8, "documented operand pairs with a degree")
    ctx.require(res, "R10.6", k6, 8, "decision atoms of distance() examined")
    # R10.9 for two operands that are infinite point sets (Line, Plane) the result is never the distance between one stored
    # representative of each (`distance(Point(a.sv), Point(b.sv))`): the support point of a Line / Plane is an arbitrary
    # point of the set, sliding it along the object changes that value but not the distance of the sets
    from ..astutil import expand_locals

    def raw_rep(e, bound_):
        """the operand whose stored point this expression is (`Point(a.sv)`, `a.p`, `a.sv`), else None"""
        while isinstance(e, ast.Call) and ((isinstance(e.func, ast.Name) and e.func.id == "Point" and len(e.args) == 1)
                                           or txt(e.func) in ("copy.deepcopy", "copy.copy")) and e.args:
            e = e.args[0]
        if isinstance(e, ast.Attribute) and isinstance(e.value, ast.Name) and e.value.id in fi.params[:2]:
            tys_ = {str(t) for t in dict(bound_).get(e.value.id, ()) if not isinstance(t, tuple)}
            for cn in tys_:
                if cn in ("Line", "Plane") and ctx.transl.field_kind(cn, e.attr) == "P":
                    return e.value.id
        return None

    n9 = 0
    for ta, tb in DOCUMENTED:
        if "Point" in (ta, tb):
            continue
        sm = eng.summary(fi, (S(ta), S(tb)))
        bound = eng._bind(fi, (S(ta), S(tb)), {})
        for r in [r for r in walk_local(fi.node) if isinstance(r, ast.Return) and id(r) in sm.reached and r.value is not None]:
            n9 += 1
            v = expand_locals(fi.node, r.value, fi.params)
            while isinstance(v, ast.Call) and isinstance(v.func, ast.Name) and v.func.id in ("abs", "float") and len(v.args) == 1:
                v = v.args[0]
            pair = None
            if isinstance(v, ast.Call) and isinstance(v.func, ast.Name) and v.func.id == "distance" and len(v.args) == 2:
                pair = (v.args[0], v.args[1])
            elif isinstance(v, ast.Call) and isinstance(v.func, ast.Attribute) and v.func.attr == "distance" and len(v.args) == 1:
                pair = (v.func.value, v.args[0])
            elif isinstance(v, ast.Call) and isinstance(v.func, ast.Attribute) and v.func.attr == "length" and not v.args:
                d = v.func.value
                if isinstance(d, ast.BinOp) and isinstance(d.op, ast.Sub):
                    pair = (d.left, d.right)
                elif isinstance(d, ast.Call) and isinstance(d.func, ast.Name) and d.func.id == "Vector" and len(d.args) == 2:
                    pair = (d.args[0], d.args[1])
            reps = tuple(raw_rep(x, bound) for x in pair) if pair else (None, None)
            bad = None not in reps and reps[0] != reps[1]
            res.ob("R10.9", fi.where(r), "distance(%s, %s): `%s`" % (ta, tb, txt(r.value)[:40]), not bad,
                   "not the distance between two stored representatives" if not bad else "distance between the stored points of both operands")
            if bad:
                res.violation("R10.9", fi, r,
                              "distance(%s, %s) returns `%s`: the distance between one stored point of each operand. A %s and a %s are "
                              "infinite point sets and the stored support point is an arbitrary one of them (Line(P, Q) and Line(P + k(Q-P), Q) "
                              "are the same line): the value changes with the representation and is not the distance of the sets"
                              % (ta, tb, txt(r.value)[:60], ta, tb), construct="distance(%s, %s) between representatives" % (ta, tb))
    ctx.require(res, "R10.9", n9, 3, "returns of the Line / Plane pairs")
    # R10.10 the general form a x + b y + c z = d is read the same way by its writer and its readers: Plane(a, b, c, d) hands
    # the row [a, b, c, d] to the solver, which reads the last column as the right-hand side; general_form() returns n.p as d
    def signed(e, is_atom):
        """+1 / -1 when e is the atom up to a sign (unary minus, multiplication / division by a numeric constant); else None"""
        if is_atom(e):
            return 1
        if isinstance(e, ast.UnaryOp) and isinstance(e.op, ast.USub):
            k = signed(e.operand, is_atom)
            return -k if k is not None else None
        if isinstance(e, ast.UnaryOp) and isinstance(e.op, ast.UAdd):
            return signed(e.operand, is_atom)
        if isinstance(e, ast.BinOp) and isinstance(e.op, (ast.Mult, ast.Div)):
            for x_, y_ in ((e.left, e.right), (e.right, e.left)):
                c_ = const_num(y_)
                if c_ is not None and c_ != 0 and (isinstance(e.op, ast.Mult) or y_ is e.right):
                    k = signed(x_, is_atom)
                    return None if k is None else (k if c_ > 0 else -k)
        return None

    pl = repo.cls("Plane")
    gf, rd = pl.lookup("_init_gf"), pl.lookup("general_form")
    if gf is not None and len(gf.params) == 5:
        d_name = gf.params[4]
        rows_ = [c_.args[0].elts[0] for c_ in walk_local(gf.node) if isinstance(c_, ast.Call) and isinstance(c_.func, ast.Name)
                 and c_.func.id == "solve" and len(c_.args) == 1 and isinstance(c_.args[0], ast.List) and len(c_.args[0].elts) == 1
                 and isinstance(c_.args[0].elts[0], ast.List) and len(c_.args[0].elts[0].elts) == 4]
        if len(rows_) == 1:
            row_ = rows_[0]
            sg = signed(row_.elts[3], lambda e: isinstance(e, ast.Name) and e.id == d_name)
            coef = [signed(row_.elts[i_], lambda e, i_=i_: isinstance(e, ast.Name) and e.id == gf.params[1 + i_]) for i_ in range(3)]
            if sg is not None and None not in coef and len(set(coef)) == 1:
                ok = sg * coef[0] > 0
                res.ob("R10.10", gf.where(row_), "Plane(a, b, c, d): the row given to the solver is a x + b y + c z = d", ok, "`%s`" % txt(row_))
                if not ok:
                    res.violation("R10.10", gf, row_,
                                  "Plane(a, b, c, d) is documented as the plane a x + b y + c z = d, but the row `%s` handed to the solver "
                                  "(last column = right-hand side) describes a x + b y + c z = -d: the stored point lies on the mirrored "
                                  "plane, and every distance / intersection with a plane built from the general form refers to the wrong set"
                                  % txt(row_), construct="Plane._init_gf row sign")
            else:
                res.note("%s the row `%s` of Plane._init_gf is not the parameters up to a sign; sign convention not evaluated" % (gf.where(row_), txt(row_)))
        else:
            res.note("%s Plane._init_gf does not hand one literal row to solve(); sign convention not evaluated" % gf.where())
    if rd is not None:
        for r_ in [r_ for r_ in walk_local(rd.node) if isinstance(r_, ast.Return) and isinstance(r_.value, ast.Tuple) and len(r_.value.elts) == 4]:
            sn_ = rd.self_name

            def np_(e):
                t_ = txt(e)
                return t_ in ("%s.n * %s.p.pv()" % (sn_, sn_), "%s.p.pv() * %s.n" % (sn_, sn_))
            sg = signed(r_.value.elts[3], np_)
            cf = [signed(r_.value.elts[i_], lambda e, i_=i_: txt(e) == "%s.n[%d]" % (sn_, i_)) for i_ in range(3)]
            if sg is not None and None not in cf and len(set(cf)) == 1:
                ok = sg * cf[0] > 0
                res.ob("R10.10", rd.where(r_), "Plane.general_form(): d = n . p", ok, "`%s`" % txt(r_.value)[:70])
                if not ok:
                    res.violation("R10.10", rd, r_, "Plane.general_form() returns (a, b, c, d) with d = -(n . p) relative to its coefficients: "
                                  "the equation a x + b y + c z = d it documents is that of the mirrored plane, and "
                                  "Plane(*plane.general_form()) is not the plane", construct="Plane.general_form sign")
    sol = None
    try:
        sol = repo.cls("Solution").lookup("__call__")
    except Exception:
        sol = None
    if sol is not None:
        for a_ in walk_local(sol.node):
            # vals[var] = row[-1] / row[var]     and     s += row[-1]
            if isinstance(a_, ast.Assign) and isinstance(a_.value, ast.BinOp) and isinstance(a_.value.op, ast.Div):
                sg = signed(a_.value.left, lambda e: isinstance(e, ast.Subscript) and txt(e.slice) == "-1")
                if sg is not None:
                    res.ob("R10.10", sol.where(a_), "the solver reads the last column as the right-hand side", sg > 0, "`%s`" % txt(a_)[:60])
                    if sg < 0:
                        res.violation("R10.10", sol, a_, "the solver divides the NEGATED last column by the pivot (`%s`): rows are read as "
                                      "a x + b y + c z + d = 0 here while Plane(a, b, c, d) and the intersection kernels write them as "
                                      "... = d" % txt(a_)[:60], construct="Solution.__call__ rhs sign")
    # R10.8 positions and directions are not confused in distance() and in the constructors of its operands (affine.py)
    from ..affine import affine_scope, report_affine
    k8 = report_affine(ctx, res, "R10.8", affine_scope(ctx, [fi], ("Point", "Line", "Plane")), "the distance")
    ctx.require(res, "R10.8", k8, 10, "function contexts examined for position / direction mismatches")
    # R10.11 a Plane given in general form stores a point that does not depend on the scale of the equation (coverage.py)
    from ..coverage import check_general_form_point
    check_general_form_point(ctx, res, "R10.11")
    res.undecided_ob("the value equals the minimum Euclidean distance; zero exactly when intersection(a, b) is not None")
