"""C07 -- move translates the object in place and keeps it self-consistent.

Decides: R7.1 on every path of T.move from the accepting edge of the
isinstance(v, Vector) test to a normal exit, every *positional* field of T
(derived from the constructors' field table) is refreshed -- translated in
place by the same v, updated component-wise with matching axes, or re-assigned
from data that depends on v / on already refreshed state and on no stale
positional field; R7.2 the success path returns a constructor call of T's own
class fed from refreshed state; R7.3 a non-Vector argument raises.
That measures are unchanged and that v then -v restores equality are numeric
and NOT decided.
"""
from __future__ import annotations

import ast
from typing import Dict, FrozenSet, List, Optional, Set, Tuple

from ..astutil import parents, names_in, txt
from ..model import GEOM7, AnalysisError, FunctionInfo, walk_local
from ..types import S, show
from .c15 import method_reads

POSITION_TYPES = set(GEOM7) | {"Pyramid"}


# ------------------------------------------------------------ field classification
def _kind(fi: FunctionInfo, e: ast.AST, eng, depth=0) -> Set[str]:
    """affine kind of a vector-valued expression: {'P'} position, {'D'} direction/difference, {'?'} unknown"""
    if depth > 6:
        return {"?"}
    if isinstance(e, ast.Call):
        if isinstance(e.func, ast.Attribute):
            a = e.func.attr
            if a == "pv":
                return {"P"}
            if a in ("normalized", "unit", "cross"):
                return {"D"}
        if isinstance(e.func, ast.Name) and e.func.id == "Vector":
            if len(e.args) == 2:
                return {"D"}  # Vector(P1, P2) = P2 - P1
            return {"?"}
        if txt(e.func) == "copy.deepcopy" and e.args:
            return _kind(fi, e.args[0], eng, depth + 1)
        return {"?"}
    if isinstance(e, ast.IfExp):
        return _kind(fi, e.body, eng, depth + 1) | _kind(fi, e.orelse, eng, depth + 1)
    if isinstance(e, ast.UnaryOp):
        return _kind(fi, e.operand, eng, depth + 1)
    if isinstance(e, ast.BinOp):
        l, r = _kind(fi, e.left, eng, depth + 1), _kind(fi, e.right, eng, depth + 1)
        if isinstance(e.op, ast.Sub):
            if l == {"P"} and r == {"P"}:
                return {"D"}
            if l == {"P"} and r == {"D"}:
                return {"P"}
            if l == {"D"} and r == {"D"}:
                return {"D"}
        if isinstance(e.op, ast.Add):
            if "P" in l | r and "D" in l | r and len(l | r) == 2:
                return {"P"}
            if l == {"D"} and r == {"D"}:
                return {"D"}
        if isinstance(e.op, ast.Mult):
            if l == {"D"} or r == {"D"}:
                return {"D"}
        return {"?"}
    if isinstance(e, ast.Name):
        from ..astutil import assigned_names
        defs = assigned_names(fi.node).get(e.id, [])
        out: Set[str] = set()
        if e.id in fi.params:
            out.add("?")
        for d in defs:
            if isinstance(d, ast.Assign):
                out |= _kind(fi, d.value, eng, depth + 1)
            else:
                out.add("?")
        return out or {"?"}
    if isinstance(e, ast.Attribute) and isinstance(e.value, ast.Name) and e.value.id == fi.self_name:
        k = FIELD_KIND_CACHE.get((fi.cls.name if fi.cls else "", e.attr))
        return {k} if k in ("P", "D") else {"?"}
    return {"?"}


FIELD_KIND_CACHE: Dict[Tuple[str, str], str] = {}


def field_table(ctx) -> Dict[str, Dict[str, str]]:
    """class -> field -> 'positional' | 'directional'   (derived from every self.f store)"""
    if "c07.fields" in ctx.cache:
        return ctx.cache["c07.fields"]
    eng = ctx.types
    FIELD_KIND_CACHE.clear()
    table: Dict[str, Dict[str, str]] = {}
    for cname in GEOM7:
        c = ctx.repo.cls(cname)
        fields = sorted(f for (k, f) in eng.fields if k == cname)
        table[cname] = {}
        for _round in range(2):  # second round lets stores that read other fields settle
            for f in fields:
                ty = eng.fields[(cname, f)]
                tags = set()
                for t in ty:
                    if isinstance(t, tuple) and t[0] in ("list", "tuple", "set", "iter"):
                        tags |= {str(x) for x in t[1]}
                    elif not (isinstance(t, tuple) and t[0] == "Unknown"):
                        tags.add(str(t))
                tags.discard("None")
                if tags & POSITION_TYPES:
                    table[cname][f] = "positional"
                    continue
                if tags == {"Vector"}:
                    kinds: Set[str] = set()
                    for m in c.methods.values():
                        for n in walk_local(m.node):
                            if isinstance(n, ast.Assign):
                                for t in n.targets:
                                    if isinstance(t, ast.Attribute) and isinstance(t.value, ast.Name) \
                                            and t.value.id == m.self_name and t.attr == f:
                                        kinds |= _kind(m, n.value, eng)
                    k = "positional" if "P" in kinds else "directional"
                    table[cname][f] = k
                    FIELD_KIND_CACHE[(cname, f)] = "P" if k == "positional" else "D"
                    continue
                if cname == "Point" and tags <= {"num"}:
                    table[cname][f] = "positional"
                    continue
                if tags <= {"num", "bool", "str"}:
                    # a stored scalar on a geometry object (e.g. a memoised hash / measure): derived state that
                    # goes stale when the object moves unless move() re-assigns or invalidates it
                    table[cname][f] = "cache"
                    continue
                # anything else stored on a geometry object (tuples of offsets, lists of vectors, ...): derived state
                table[cname][f] = "cache"
    ctx.cache["c07.fields"] = table
    return table


def point_axes(ctx) -> Dict[str, int]:
    """coordinate field -> axis index, read from Point.pv(): Vector(self.x, self.y, self.z)"""
    pv = ctx.repo.fn("Point.pv")
    for r in walk_local(pv.node):
        if isinstance(r, ast.Return) and isinstance(r.value, ast.Call) and len(r.value.args) == 3:
            out = {}
            for i, a in enumerate(r.value.args):
                if isinstance(a, ast.Attribute) and isinstance(a.value, ast.Name) and a.value.id == pv.self_name:
                    out[a.attr] = i
            if len(out) == 3:
                return out
    raise AnalysisError("Point.pv() does not have the shape Vector(self.x, self.y, self.z)")


# ------------------------------------------------------------ the refresh analysis
class State:
    __slots__ = ("fresh", "taint", "axes")

    def __init__(self, fresh=frozenset(), taint=frozenset(), axes=frozenset()):
        self.fresh: FrozenSet[str] = frozenset(fresh)  # refreshed fields
        self.taint: FrozenSet[str] = frozenset(taint)  # locals that depend on v / refreshed state
        self.axes: FrozenSet[Tuple[str, int]] = frozenset(axes)  # (vector field, axis) already shifted

    def meet(self, o: "State") -> "State":
        return State(self.fresh & o.fresh, self.taint & o.taint, self.axes & o.axes)

    def key(self):
        return (self.fresh, self.taint, self.axes)


class MoveAnalysis:
    def __init__(self, ctx, fi: FunctionInfo, fields: Dict[str, str], res, v_name=None, depth=0):
        self.ctx = ctx
        self.fi = fi
        self.fields = fields
        self.res = res
        self.g = ctx.cfg(fi)
        self.sn = fi.self_name
        self.depth = depth
        self.v = v_name if v_name is not None else fi.params[1]
        self.pos = {f for f, k in fields.items() if k == "positional"}
        self.cache = {f for f, k in fields.items() if k == "cache"}
        self.axis_of = point_axes(ctx) if fi.cls.name == "Point" else {}
        self.mismatch: List[Tuple[ast.AST, str]] = []

    # -- expression facts
    def reads(self, e: ast.AST) -> Set[str]:
        out = set()
        # self.f.g where g is a *directional* field of f's class reads no position
        skip = set()
        table = field_table(self.ctx)
        for n in ast.walk(e):
            if isinstance(n, ast.Attribute) and isinstance(n.value, ast.Attribute) and isinstance(n.value.value, ast.Name) \
                    and n.value.value.id == self.sn:
                fty = self.ctx.types.fields.get((self.fi.cls.name, n.value.attr), frozenset())
                if fty and all(isinstance(t, str) and table.get(t, {}).get(n.attr) == "directional" for t in fty):
                    skip.add(id(n.value))
        for n in ast.walk(e):
            if id(n) in skip:
                continue
            if isinstance(n, ast.Attribute) and isinstance(n.value, ast.Name) and n.value.id == self.sn:
                m = self.fi.cls.lookup(n.attr)
                if m is not None:
                    out |= {r[5:] for r in method_reads(self.ctx, m)}
                else:
                    out.add(n.attr)
        return out

    def derived(self, e: ast.AST, st: State, target: Optional[str] = None) -> bool:
        """e depends on v / refreshed state and reads no stale positional field.  When the field `target`
        is being assigned, its own old value may be read provided the translation v takes part
        (self.f = g(self.f, v) is an update, self.f = self.f is not)."""
        rs = self.reads(e)
        nm = names_in(e)
        stale = (rs & self.pos) - st.fresh
        if target is not None and target in stale and (self.v in nm or nm & st.taint):
            stale = stale - {target}
        if stale:
            return False
        return self.v in nm or bool(nm & st.taint) or bool(rs & st.fresh)

    def image_of(self, e: ast.AST, st: State) -> Optional[str]:
        """e reads exactly one stale positional field F and the translation takes part: the moved image of F"""
        rs = self.reads(e)
        nm = names_in(e)
        stale = (rs & self.pos) - st.fresh
        if len(stale) == 1 and (self.v in nm or nm & st.taint):
            return next(iter(stale))
        return None

    def is_empty_container(self, e: ast.AST) -> bool:
        if isinstance(e, (ast.List, ast.Tuple, ast.Set, ast.Dict)):
            return not (e.elts if not isinstance(e, ast.Dict) else e.keys)
        return isinstance(e, ast.Call) and isinstance(e.func, ast.Name) and e.func.id in ("set", "list", "dict", "tuple") and not e.args

    def self_field(self, e: ast.AST) -> Optional[str]:
        if isinstance(e, ast.Attribute) and isinstance(e.value, ast.Name) and e.value.id == self.sn:
            return e.attr
        return None

    # -- transfer
    def transfer(self, node, st: State) -> State:
        fresh, taint, axes = set(st.fresh), set(st.taint), set(st.axes)
        a = node.ast
        if node.kind == "loop":
            # loop variable depends on what is iterated
            it = a.iter
            dep = self.derived(it, st) or (isinstance(it, ast.Call) and isinstance(it.func, ast.Name) and it.func.id == "range")
            # for x in self.F: x.move(v)  /  for x in (self.F, self.G): x.move(v)   -- every element is translated in place:
            # after the loop the field(s) are refreshed (the statement must be unconditional in the loop body)
            if isinstance(a.target, ast.Name) and not a.orelse:
                moved = any(isinstance(b, ast.Expr) and isinstance(b.value, ast.Call) and isinstance(b.value.func, ast.Attribute)
                            and b.value.func.attr == "move" and isinstance(b.value.func.value, ast.Name) and b.value.func.value.id == a.target.id
                            and len(b.value.args) == 1 and isinstance(b.value.args[0], ast.Name) and b.value.args[0].id == self.v
                            for b in a.body)
                no_jump = not any(isinstance(x, (ast.Break, ast.Continue, ast.Return)) for b in a.body for x in ast.walk(b))
                if moved and no_jump:
                    srcs = it.elts if isinstance(it, (ast.Tuple, ast.List)) else [it]
                    fs = [self.self_field(x) for x in srcs]
                    if all(f is not None for f in fs):
                        fresh |= set(fs)
            # for i in range(3): self.F[i] += v[i]   -- the component-wise translation written as a loop over the three axes
            if isinstance(it, ast.Call) and isinstance(it.func, ast.Name) and it.func.id == "range" and len(it.args) == 1 \
                    and isinstance(it.args[0], ast.Constant) and it.args[0].value == 3 and isinstance(a.target, ast.Name) and not a.orelse:
                i = a.target.id
                shifted = set()
                plain = True
                for b in a.body:
                    if isinstance(b, ast.AugAssign) and isinstance(b.op, ast.Add) and isinstance(b.target, ast.Subscript) \
                            and self.self_field(b.target.value) is not None and isinstance(b.target.slice, ast.Name) and b.target.slice.id == i \
                            and isinstance(b.value, ast.Subscript) and isinstance(b.value.value, ast.Name) and b.value.value.id == self.v \
                            and isinstance(b.value.slice, ast.Name) and b.value.slice.id == i:
                        shifted.add(self.self_field(b.target.value))
                    else:
                        plain = False
                if plain:
                    fresh |= shifted
            for n in ast.walk(a.target):
                if isinstance(n, ast.Name):
                    if self.derived(it, st):
                        taint.add(n.id)
                    else:
                        taint.discard(n.id)
            return State(fresh, taint, axes)
        if a is None or node.kind in ("entry", "exit", "raise_exit"):
            return st
        scan = a if node.kind != "cond" else a
        # in-place translation calls anywhere in the statement:  <expr>.move(v)
        for c in ast.walk(scan):
            if isinstance(c, ast.Call) and isinstance(c.func, ast.Attribute) and c.func.attr == "move" \
                    and len(c.args) == 1 and isinstance(c.args[0], ast.Name) and c.args[0].id == self.v:
                recv = c.func.value
                f = self.self_field(recv)
                if f is not None:
                    fresh.add(f)
                elif isinstance(recv, ast.Name):
                    # a loop element being moved: the container it came from is handled at re-assignment;
                    # the element itself now depends on v
                    taint.add(recv.id)
        # a helper method of the same object that (re)builds fields: its effect on the refreshed set is computed by the
        # same analysis run over its body, starting from the current state
        if isinstance(a, (ast.Expr, ast.Assign)) and self.depth < 3:
            for c in ast.walk(a.value):
                if isinstance(c, ast.Call) and isinstance(c.func, ast.Attribute) and isinstance(c.func.value, ast.Name) \
                        and c.func.value.id == self.sn and self.fi.cls is not None:
                    callee = self.fi.cls.lookup(c.func.attr)
                    if callee is None or callee is self.fi or callee.self_name is None:
                        continue
                    writes = any(isinstance(x, ast.Attribute) and isinstance(x.value, ast.Name) and x.value.id == callee.self_name
                                 and isinstance(x.ctx, ast.Store) for x in walk_local(callee.node))
                    if not writes:
                        continue
                    # the translation vector handed on as an argument (`self._move_points(v)`) is the helper's translation parameter
                    vname = "\0no translation parameter"
                    for i_, a_ in enumerate(c.args):
                        if isinstance(a_, ast.Name) and a_.id == self.v and i_ + 1 < len(callee.params):
                            vname = callee.params[i_ + 1]
                    for k_ in c.keywords:
                        if isinstance(k_.value, ast.Name) and k_.value.id == self.v and k_.arg in callee.params:
                            vname = k_.arg
                    sub = MoveAnalysis(self.ctx, callee, self.fields, self.res, v_name=vname, depth=self.depth + 1)
                    out = sub.run_from([sub.g.entry], State(fresh, (), axes))
                    if out is not None:
                        fresh = set(out.fresh)
                        self.mismatch += sub.mismatch
        if isinstance(a, ast.AugAssign) and isinstance(a.op, ast.Add):
            t = a.target
            # self.x += v[i]   (Point)          self.sv[i] += v[i]   (Line)
            comp = None
            if isinstance(a.value, ast.Subscript) and isinstance(a.value.value, ast.Name) and a.value.value.id == self.v \
                    and isinstance(a.value.slice, ast.Constant) and isinstance(a.value.slice.value, int):
                comp = a.value.slice.value
            f = self.self_field(t)
            if f is not None and f in self.axis_of:
                if comp is None or comp != self.axis_of[f]:
                    self.mismatch.append((a, "coordinate `%s` (axis %d) is shifted by `%s`" % (f, self.axis_of[f], txt(a.value))))
                else:
                    fresh.add(f)
            elif isinstance(t, ast.Subscript) and self.self_field(t.value) is not None and isinstance(t.slice, ast.Constant):
                f = self.self_field(t.value)
                i = t.slice.value
                if comp is None or comp != i:
                    self.mismatch.append((a, "component %s of `%s` is shifted by `%s`" % (i, f, txt(a.value))))
                else:
                    axes.add((f, i))
                    if {(f, 0), (f, 1), (f, 2)} <= axes:
                        fresh.add(f)
        if isinstance(a, ast.Delete):
            for t in a.targets:
                f = self.self_field(t)
                if f is not None and f in self.cache:
                    fresh.add(f)  # `del self.f`: the stored value is dropped, the next reader computes it anew
        if isinstance(a, ast.Assign):
            for t in a.targets:
                f = self.self_field(t)
                if f is not None:
                    if f in self.cache:
                        fresh.add(f)  # re-computed or invalidated
                    elif self.is_empty_container(a.value) or self.derived(a.value, State(fresh, taint, axes), target=f):
                        fresh.add(f)
                    else:
                        fresh.discard(f)
                elif isinstance(t, ast.Name):
                    if self.derived(a.value, State(fresh, taint, axes)) or self.is_empty_container(a.value) \
                            or self.image_of(a.value, State(fresh, taint, axes)) is not None:
                        # (a local holding the moved image of ONE not yet refreshed field -- `moved = [p.move(v) for p in
                        # self.points]` -- is moved state, exactly as `self.points = [p.move(v) ...]` refreshes the field)
                        taint.add(t.id)
                    else:
                        taint.discard(t.id)
                elif isinstance(t, ast.Subscript):
                    f2 = self.self_field(t.value)
                    if f2 is not None and not self.derived(a.value, State(fresh, taint, axes)):
                        fresh.discard(f2)
                    if isinstance(t.value, ast.Name) and not self.derived(a.value, State(fresh, taint, axes)):
                        taint.discard(t.value.id)
        if isinstance(a, ast.Expr) and isinstance(a.value, ast.Call) and isinstance(a.value.func, ast.Attribute) \
                and a.value.func.attr in ("add", "append", "extend", "update", "insert"):
            recv = a.value.func.value
            ok = all(self.derived(x, State(fresh, taint, axes)) for x in a.value.args)
            f = self.self_field(recv)
            if f is not None and not ok:
                fresh.discard(f)
            if isinstance(recv, ast.Name) and not ok:
                taint.discard(recv.id)
        return State(fresh, taint, axes)

    def run(self):
        g = self.g
        # the accepting edge of the isinstance(v, Vector) test
        starts = []
        for c in g.conds():
            e = c.ast
            lab = "T"
            if isinstance(e, ast.UnaryOp) and isinstance(e.op, ast.Not):
                e, lab = e.operand, "F"  # guard clause: `if not isinstance(v, Vector): raise`
            if isinstance(e, ast.Call) and isinstance(e.func, ast.Name) and e.func.id == "isinstance" and len(e.args) == 2 \
                    and isinstance(e.args[0], ast.Name) and e.args[0].id == self.v and txt(e.args[1]) == "Vector":
                starts += g.edge_targets(c.id, lab)
        if not starts:
            raise AnalysisError("%s: no isinstance(%s, Vector) test found" % (self.fi.where(), self.v))
        return self.solve(starts, State())

    def run_from(self, starts, init: State) -> Optional[State]:
        """state at the normal exits when the body is entered in state `init` (helper methods)"""
        IN = self.solve(starts, init)
        g = self.g
        outs = [self.transfer(g.nodes[p], IN[p]) for p, _ in g.pred[g.exit] if p in IN]
        if not outs:
            return None
        st = outs[0]
        for o in outs[1:]:
            st = st.meet(o)
        return st

    def solve(self, starts, init: State):
        g = self.g
        IN: Dict[int, State] = {}
        work = []
        for s in starts:
            IN[s] = init
            work.append(s)
        while work:
            n = work.pop()
            out0 = self.transfer(g.nodes[n], IN[n])
            for y, l in g.succ[n]:
                if y in (g.raise_exit,):
                    continue
                out = out0
                na = g.nodes[n].ast
                # `if hasattr(self, "f")`: on the false edge the attribute-absent cache f does not exist -- nothing stale
                if l == "F" and isinstance(na, ast.Call) and isinstance(na.func, ast.Name) and na.func.id == "hasattr" and len(na.args) == 2 \
                        and isinstance(na.args[0], ast.Name) and na.args[0].id == self.sn and isinstance(na.args[1], ast.Constant) \
                        and na.args[1].value in self.cache:
                    out = State(set(out0.fresh) | {na.args[1].value}, out0.taint, out0.axes)
                new = out if y not in IN else IN[y].meet(out)
                if y not in IN or new.key() != IN[y].key():
                    IN[y] = new
                    work.append(y)
        return IN


def check_move(ctx, res, cname: str, fields: Dict[str, str]):
    fi = ctx.repo.cls(cname).lookup("move")
    if fi is None or fi.cls.name != cname:
        raise AnalysisError("%s does not define move" % cname)
    ma = MoveAnalysis(ctx, fi, fields, res)
    IN = ma.run()
    g = ma.g
    for node, why in ma.mismatch:
        res.ob("R7.1", fi.where(node), "%s.move: `%s`" % (cname, txt(node)), False, why)
        res.violation("R7.1", fi, node, "%s.move pairs the wrong axes: %s" % (cname, why), construct="%s.move axis pairing" % cname)
    rets = [n for n in g.nodes.values() if n.kind == "return" and n.id in IN]
    exits_fall = g.exit in IN and any(p in IN and g.nodes[p].kind != "return" for p, _ in g.pred[g.exit])
    if not rets and not exits_fall:
        raise AnalysisError("%s.move: no normal exit reached from the Vector branch" % cname)
    pos = sorted(f for f, k in fields.items() if k in ("positional", "cache"))
    for r in rets:
        st = ma.transfer(r, IN[r.id])
        st_before = IN[r.id]
        for f in pos:
            ok = f in st_before.fresh
            if not ok and fields.get(f) == "cache":
                # a stored derived value that does not depend on the position survives the move as it is
                from ..transl import invariant
                k_ = ctx.transl.field_kind(cname, f)
                if invariant(k_):
                    res.ob("R7.1", fi.where(r.ast), "%s.move and the stored value %s" % (cname, f), True,
                           "every value stored into `%s` is translation invariant (built from differences of positions, lengths, "
                           "directions): it needs no refresh" % f)
                    continue
            res.ob("R7.1", fi.where(r.ast), "%s.move refreshes %s" % (cname, f), ok,
                   "translated / rebuilt from moved state on every path" if ok else "still holds pre-move data at `%s`" % txt(r.ast)[:50])
            if not ok:
                res.violation("R7.1", fi, fi.node,
                              ("%s.move leaves the positional field `%s` where it was: queries on the moved object answer for the old "
                               "position" % (cname, f)) if fields.get(f) != "cache" else
                              ("%s.move neither re-computes nor invalidates the stored value `%s`: queries that read it answer for the "
                               "position before the move" % (cname, f)),
                              construct="%s.move does not refresh %s" % (cname, f),
                              detail={"refreshed on every path": sorted(st_before.fresh), "positional fields": pos})
        # R7.2
        v = r.ast.value
        ty = ctx.types.types_at(fi, v) if v is not None else frozenset()
        ok_cls = set(map(str, ty)) == {cname} and isinstance(v, ast.Call)
        why = "returns %s" % show(ty)
        ok_args = True
        if ok_cls:
            seen_fields: List[str] = []
            for a in list(v.args) + [k.value for k in v.keywords]:
                rs = ma.reads(a)
                stale = (rs & ma.pos) - st_before.fresh
                if stale:
                    ok_args = False
                    why = "argument `%s` reads the stale field(s) %s" % (txt(a), sorted(stale))
                if not (rs or names_in(a) & st_before.taint):
                    ok_args = False
                    why = "argument `%s` does not come from the moved object" % txt(a)
                direct = ma.self_field(a)
                if direct is not None and direct in ma.pos:
                    if direct in seen_fields:
                        ok_args = False
                        why = "field `%s` is passed twice" % direct
                    seen_fields.append(direct)
            init = ctx.repo.cls(cname).lookup("__init__")
            need = len(init.params) - 1 - len(init.defaults) if init is not None and not init.vararg else 1
            if len(v.args) + len(v.keywords) < need:
                ok_args = False
                why = "constructor call has too few arguments"
            if ok_args:
                why = "%s(...) built from refreshed state" % cname
        ok = ok_cls and ok_args
        res.ob("R7.2", fi.where(r.ast), "%s.move return value" % cname, ok, why)
        if not ok:
            res.violation("R7.2", fi, r.ast, "%s.move must return an object equal to the moved receiver (a %s built from the refreshed "
                          "fields): %s" % (cname, cname, why), construct="%s.move return value" % cname)
    if exits_fall:
        falls = [p for p, _ in g.pred[g.exit] if p in IN and g.nodes[p].kind != "return"]
        st_end = ma.transfer(g.nodes[falls[0]], IN[falls[0]])
        for f in pos:
            if f not in st_end.fresh:
                res.violation("R7.1", fi, fi.node, "%s.move leaves the positional field `%s` where it was" % (cname, f),
                              construct="%s.move does not refresh %s" % (cname, f))
        res.ob("R7.2", fi.where(), "%s.move falls off the end" % cname, False, "returns None on a success path")
        res.violation("R7.2", fi, fi.node, "%s.move can finish without returning the moved object" % cname,
                      construct="%s.move implicit None" % cname)
    # R7.3
    eng = ctx.types
    n_bad = 0
    for bound, sm in eng.summaries_of(fi):
        tags = [show(vv) for _, vv in bound]
        if len(tags) == 2 and tags[0] == cname and tags[1] != "Vector":
            n_bad += 1
            ok = not sm.normal and bool(sm.raises)
            res.ob("R7.3", fi.where(), "%s.move(%s)" % (cname, tags[1]), ok, "raises" if ok else "returns %s" % show(sm.ret))
            if not ok:
                res.violation("R7.3", fi, fi.node, "%s.move(%s) does not raise for a non-Vector argument" % (cname, tags[1]),
                              construct="%s.move accepts non-Vector" % cname)
    if n_bad == 0:
        raise AnalysisError("%s.move was not evaluated on a non-Vector argument" % cname)


def notes_r74(ctx, res):
    eng = ctx.types
    ty = eng.fields.get(("ConvexPolyhedron", "convex_polygons"), frozenset())
    kinds = sorted(t[0] for t in ty if isinstance(t, tuple))
    if "tuple" in kinds and "list" in kinds:
        res.note("ConvexPolyhedron.convex_polygons is a list after __init__ and a tuple after move while the flip loop assigns into "
                 "it (`self.convex_polygons[i] = -convex_polygon`): a latent TypeError that outward-oriented faces never trigger")
    ef = ctx.effects
    for cname in ("Line", "Plane"):
        m = ctx.repo.cls(cname).lookup("move")
        s = ef.summ[m.qual]
        if s.retS or s.retE:
            res.note("%s.move returns an object that shares state with the receiver (%s); the statement only asks for equality"
                     % (cname, sorted(s.retS | s.retE)))


def field_shares(ctx, cname: str) -> Dict[Tuple[str, str], str]:
    """(F, G) -> reason: field F of the class holds (by reference) an object that field G holds as well, because some
    method stores  self.F = K(..., <element of self.G>, ...)  with a constructor K that keeps that argument by
    reference (effect summary of K.__init__), or  self.F = <element of self.G>  directly"""
    ef = ctx.effects
    eng = ctx.types
    c = ctx.repo.cls(cname)
    out: Dict[Tuple[str, str], str] = {}
    for m in c.methods.values():
        sn = m.self_name
        if sn is None:
            continue
        for st in walk_local(m.node):
            if not (isinstance(st, ast.Assign) and len(st.targets) == 1 and isinstance(st.targets[0], ast.Attribute)
                    and isinstance(st.targets[0].value, ast.Name) and st.targets[0].value.id == sn):
                continue
            F = st.targets[0].attr

            def field_of(e):
                """self.G / self.G[i] -> G"""
                while isinstance(e, ast.Subscript):
                    e = e.value
                if isinstance(e, ast.Attribute) and isinstance(e.value, ast.Name) and e.value.id == sn:
                    return e.attr
                return None

            v = st.value
            if isinstance(v, ast.UnaryOp):
                v = v.operand
            G = field_of(v)
            if G is not None and G != F and isinstance(st.value, ast.Subscript):
                out[(F, G)] = "`%s` in %s" % (txt(st)[:60], m.short)
            if isinstance(v, ast.Call):
                tgs = eng.call_targets.get((m.qual, id(v)), set())
                for q in tgs:
                    k = eng.fn_by_qual.get(q)
                    if k is None or k.name != "__init__":
                        continue
                    caps = {r[2:] for r in ef.summ[k.qual].cap if r.startswith("P:")}
                    for i, a in enumerate(v.args):
                        G = field_of(a)
                        if G is None or G == F:
                            continue
                        pname = k.params[i + 1] if i + 1 < len(k.params) else k.vararg
                        if pname in caps:
                            out[(F, G)] = "`%s` in %s (%s keeps `%s` by reference)" % (txt(st)[:60], m.short, k.short, pname)
    return out


def r74_single_translation(ctx, res):
    """move() translates every object once: two in-place translations on one path may not reach the same object --
    the same field twice, or two fields that share an object (the plane of a polygon is anchored at one of its
    vertices)"""
    n = 0
    for cname in GEOM7:
        fi = ctx.repo.cls(cname).lookup("move")
        if fi is None or fi.cls.name != cname:
            continue
        sn, v = fi.self_name, fi.params[1]
        g = ctx.cfg(fi)
        asg = {}
        for st in walk_local(fi.node):
            if isinstance(st, (ast.For, ast.comprehension)) and isinstance(st.target, ast.Name):
                asg[st.target.id] = st.iter
        sites = []
        par = parents(fi.node)
        for c in walk_local(fi.node):
            if not (isinstance(c, ast.Call) and isinstance(c.func, ast.Attribute) and c.func.attr == "move" and len(c.args) == 1):
                continue
            recv = c.func.value
            if isinstance(recv, ast.Name) and recv.id in asg:
                recv = asg[recv.id]
            while isinstance(recv, ast.Subscript):
                recv = recv.value
            if isinstance(recv, ast.Attribute) and isinstance(recv.value, ast.Name) and recv.value.id == sn:
                stmt = c
                while id(stmt) in par and not isinstance(stmt, ast.stmt):
                    stmt = par[id(stmt)]
                sites.append((c, recv.attr, stmt))
        shares = field_shares(ctx, cname)
        n += 1
        bad = []
        for i, (c1, f1, s1) in enumerate(sites):
            for c2, f2, s2 in sites[i + 1:]:
                why = None
                if f1 == f2:
                    why = "both translate `%s.%s`" % (sn, f1)
                elif (f1, f2) in shares or (f2, f1) in shares:
                    why = "`%s.%s` and `%s.%s` share an object: %s" % (sn, f1, sn, f2, shares.get((f1, f2)) or shares.get((f2, f1)))
                if why is None:
                    continue
                n1, n2 = g.nodes_of(s1), g.nodes_of(s2)
                if n1 and n2 and (n2[0] in g.reach([n1[0]]) or n1[0] in g.reach([n2[0]])) and s1 is not s2:
                    bad.append((c1, c2, why))
        ok = not bad
        res.ob("R7.4", fi.where(), "%s.move translates every object once" % cname, ok,
               "%d in-place translation(s), no two of them reach one object (sharing: %s)" % (len(sites), sorted(shares) or "none") if ok else
               "`%s` and `%s`: %s" % (txt(bad[0][0])[:30], txt(bad[0][1])[:30], bad[0][2]))
        for c1, c2, why in bad[:2]:
            res.violation("R7.4", fi, c2, "%s.move translates one object twice: `%s` and `%s` -- %s; after move(v) that part of the "
                          "receiver sits at +2v" % (cname, txt(c1)[:40], txt(c2)[:40], why),
                          construct="%s.move double translation %s / %s" % (cname, txt(c1)[:30], txt(c2)[:30]))
    ctx.require(res, "R7.4", n, 7, "move methods")


MEASURES = [("Point", "distance"), ("Segment", "length"), ("ConvexPolygon", "length"), ("ConvexPolygon", "area"),
            ("ConvexPolyhedron", "length"), ("ConvexPolyhedron", "area"), ("ConvexPolyhedron", "volume"),
            ("Pyramid", "height"), ("Pyramid", "volume")]


def r75_measures_invariant(ctx, res):
    """'measures are unchanged': each measure method, evaluated in the translation-invariance domain with its receiver
    translated as a whole, yields an invariant scalar -- it is built from differences of positions, lengths, directions.
    Where the domain cannot tell (an unusual formula) the clause stays undecided: this rule only ever *confirms*."""
    T = ctx.transl
    n = 0
    for cname, mname in MEASURES:
        if not ctx.repo.has_cls(cname):
            continue
        m = ctx.repo.cls(cname).lookup(mname)
        if m is None:
            continue
        ak = (T.self_kind(m),) + tuple("P" if cname == "Point" else "?" for _ in m.params[1:])
        k = T.fn_kind(m, ak)
        if k == "I":
            n += 1
            res.ob("R7.5", m.where(), "%s.%s is translation invariant" % (cname, mname), True,
                   "evaluates to an invariant scalar when every position is shifted by the same vector")
        else:
            res.undecided_ob("%s.%s unchanged by move(): its formula is not recognisably built from differences of positions (domain value %s)"
                             % (cname, mname, k))
    res.count("measure methods confirmed translation invariant", n)


def r76_item_access_plain(ctx, res):
    """R7.6: the component-wise translation `self.F[i] += v[i]` (and coordinate assignment in general) goes through
    Vector.__setitem__ / __getitem__: they must store / read the element as it is -- a conversion of the stored value
    (int(..), type(old)(..), round(..)) loses part of the translation"""
    n = 0
    c = ctx.repo.cls("Vector")
    for mname in ("__setitem__", "__getitem__"):
        m = c.lookup(mname)
        if m is None:
            continue
        n += 1
        body = [s_ for s_ in m.node.body if not (isinstance(s_, ast.Expr) and isinstance(s_.value, ast.Constant))]
        sn = m.self_name
        if mname == "__setitem__" and len(m.params) == 3:
            item, value = m.params[1], m.params[2]
            stores = [s_ for s_ in walk_local(m.node) if isinstance(s_, (ast.Assign, ast.AugAssign))]
            ok_form = len(stores) == 1 and isinstance(stores[0], ast.Assign) and len(stores[0].targets) == 1 \
                and isinstance(stores[0].targets[0], ast.Subscript) and txt(stores[0].targets[0].slice) == item \
                and isinstance(stores[0].targets[0].value, ast.Attribute) and txt(stores[0].targets[0].value.value) == sn
            if not ok_form:
                raise AnalysisError("%s: Vector.__setitem__ is not a single element store" % m.where())
            v = stores[0].value
            plain = isinstance(v, ast.Name) and v.id == value
            res.ob("R7.6", m.where(stores[0]), "Vector.__setitem__ stores the value as given", plain,
                   "`%s`" % txt(stores[0])[:60])
            if not plain:
                if not any(isinstance(x, ast.Name) and x.id == value for x in ast.walk(v)):
                    why = "the stored expression `%s` does not contain the value" % txt(v)[:40]
                else:
                    why = "the value is converted on the way: `%s`" % txt(v)[:50]
                res.violation("R7.6", m, stores[0],
                              "Vector.__setitem__ does not store the value it is given (%s). Line.move translates the support vector "
                              "component by component (`self.sv[i] += v[i]`): a converted component (an int support vector truncates "
                              "the fractional part of the move) leaves the line at a position that is not the translated one"
                              % why, construct="Vector.__setitem__ converts the stored value")
        elif mname == "__getitem__" and len(m.params) == 2:
            rets = [r for r in walk_local(m.node) if isinstance(r, ast.Return)]
            plain = len(rets) == 1 and isinstance(rets[0].value, ast.Subscript) and txt(rets[0].value.slice) == m.params[1] \
                and isinstance(rets[0].value.value, ast.Attribute) and txt(rets[0].value.value.value) == sn
            if not plain:
                raise AnalysisError("%s: Vector.__getitem__ is not a plain element read" % m.where())
            res.ob("R7.6", m.where(rets[0]), "Vector.__getitem__ reads the element as it is", True, "`%s`" % txt(rets[0])[:60])
    ctx.require(res, "R7.6", n, 2, "item access methods of Vector")


def run(ctx, res):
    res.explanation = (
        "Forward must-dataflow over the CFG of each of the 7 move() methods from the accepting edge of the "
        "isinstance(v, Vector) test: every positional field of the class (field table derived from every self.f "
        "store; vector fields classified position/direction by an affine-kind algebra) must be refreshed on every "
        "path to a normal exit -- by .move(v) on it, by component-wise += v[i] with matching axes, or by "
        "re-assignment from data depending on v / refreshed state and on no stale positional field; the success "
        "path returns a constructor call of the own class fed from refreshed state; a non-Vector argument raises. "
        "Every other stored value (cache) is re-assigned, deleted or translation invariant; the measure methods are "
        "confirmed translation invariant in the same domain (R7.5). v then -v restores equality (floating point) is NOT decided."
    )
    table = field_table(ctx)
    n_pos = sum(1 for c in table.values() for k in c.values() if k == "positional")
    n_dir = sum(1 for c in table.values() for k in c.values() if k == "directional")
    res.count("positional fields", n_pos)
    res.count("directional fields", n_dir)
    res.extra["field_table"] = table
    # (18 on the pinned tree; derived attributes turned into properties are no longer stored state -- the primary positional
    # data are the 3 coordinates, Line.sv, Plane.p, the end points / origin, the vertex and the face collections: 10)
    ctx.require(res, "R7.1", n_pos, 10, "positional fields")
    for cname in GEOM7:
        check_move(ctx, res, cname, table[cname])
    r74_single_translation(ctx, res)
    notes_r74(ctx, res)
    r75_measures_invariant(ctx, res)
    r76_item_access_plain(ctx, res)
    # R7.7 positions and directions are not confused in move() and in the constructors it returns through (affine.py)
    from ..affine import affine_scope, report_affine
    roots = [m for c in ctx.repo.classes() if c.name in GEOM7 for m in c.methods.values() if m.name == "move"]
    k7 = report_affine(ctx, res, "R7.7", affine_scope(ctx, roots, GEOM7), "the moved object")
    ctx.require(res, "R7.7", k7, 20, "function contexts examined for position / direction mismatches")
    res.undecided_ob("move(v) then move(-v) restores an equal object (floating point); measures of the function volume() "
                     "(it goes through distance / intersection)")
