"""C05 -- membership (`in`) agrees with geometric containment.

Decides: R5.1 each of the 18 supported (x, S) pairs resolves -- through
__contains__, the class_level comparison and in_ -- to a branch that returns a
boolean expression (never a fallback: raise, returned exception object,
"always False" branch, missing in_); R5.2 every composite branch tests *all*
defining points of x (conjunction), or the equivalent carrier statement.
The numerical truth of each predicate and the tolerance band are NOT decided.
"""
from __future__ import annotations

import ast
from typing import Dict, List, Optional, Set, Tuple

from ..astutil import assigned_names, txt
from ..membership import resolve
from ..model import AnalysisError, FunctionInfo, walk_local
from ..types import show

SUPPORTED = (
    [("Point", s) for s in ("Line", "HalfLine", "Segment", "Plane", "ConvexPolygon", "ConvexPolyhedron")]
    + [("Segment", s) for s in ("Line", "HalfLine", "Segment", "Plane", "ConvexPolygon", "ConvexPolyhedron")]
    + [("HalfLine", s) for s in ("Line", "HalfLine", "Plane")]
    + [("Line", "Plane")]
    + [("ConvexPolygon", s) for s in ("Plane", "ConvexPolyhedron")]
)


def point_fields(eng, cname: str) -> List[str]:
    """defining points of a composite type: its fields holding a Point (from the field table)"""
    out = []
    for (c, f), v in sorted(eng.fields.items()):
        if c == cname and set(map(str, v)) == {"Point"}:
            out.append(f)
    return out


_REACHED: Optional[Set[int]] = None  # statements reached in the operand-type context that is being examined


def _subst_locals(fi: FunctionInfo, e: ast.AST, depth=0) -> ast.AST:
    """replace a local name that has a single definition (among the statements reached in the current type context)
    by its defining expression"""
    if depth > 3:
        return e
    asg = assigned_names(fi.node)
    if isinstance(e, ast.Name) and e.id in asg and e.id not in fi.params:
        defs = asg[e.id]
        if _REACHED is not None:
            defs = [d for d in defs if id(d) in _REACHED] or defs
        if len(defs) == 1 and isinstance(defs[0], ast.Assign):
            return _subst_locals(fi, defs[0].value, depth + 1)
    return e


_CLASSES: Dict[str, str] = {}  # the operand names of the branch under analysis -> their classes (set by r52)


def _expand_helpers(fi: FunctionInfo, e: ast.AST, classes: Dict[str, str], depth: int = 0) -> ast.AST:
    """helper methods read as their bodies, with the receiver's class deciding which method is meant:
         R.m(args)            m a single-`return e` method          ->  e[self := R, params := args]
         R.m(args)            m a generator of `yield e_i` only     ->  (e_1, ..., e_k)   (a finite sequence of conditions / points)
         all((t_1, ..., t_k))                                         ->  t_1 and ... and t_k   (all() stops at the first false item)
         all(elt for v in (t_1, ..., t_k))                            ->  elt[v := t_1] and ...
    """
    import copy as _copy
    if depth > 5:
        return e
    repo = _REPO[0]

    class Sub(ast.NodeTransformer):
        def __init__(self, amap):
            self.amap = amap

        def visit_Name(self, n):
            if isinstance(n.ctx, ast.Load) and n.id in self.amap:
                return _copy.deepcopy(self.amap[n.id])
            return n

    def call(c: ast.Call, classes):
        if not (isinstance(c.func, ast.Attribute) and isinstance(c.func.value, ast.Name) and c.func.value.id in classes
                and not c.keywords and not any(isinstance(a, ast.Starred) for a in c.args)):
            return None
        cn = classes[c.func.value.id]
        if not repo.has_cls(cn):
            return None
        m = repo.cls(cn).lookup(c.func.attr)
        if m is None or m.self_name is None or len(m.params) != len(c.args) + 1:
            return None
        body = [s_ for s_ in m.node.body if not (isinstance(s_, ast.Expr) and isinstance(s_.value, ast.Constant))]
        amap = dict(zip(m.params[1:], c.args))
        amap[m.params[0]] = ast.Name(id=c.func.value.id, ctx=ast.Load())
        inner = {}
        for p_, a_ in amap.items():
            if isinstance(a_, ast.Name) and a_.id in classes:
                inner[p_] = classes[a_.id]
        if len(body) == 1 and isinstance(body[0], ast.Return) and body[0].value is not None:
            # expand inside the callee first (its own names), then substitute
            v = _expand_helpers(m, body[0].value, inner, depth + 1)
            return Sub(amap).visit(_copy.deepcopy(v))
        if len(body) == 1 and isinstance(body[0], ast.For) and not body[0].orelse and isinstance(body[0].target, ast.Name) \
                and len(body[0].body) == 1 and isinstance(body[0].body[0], ast.Expr) and isinstance(body[0].body[0].value, ast.Yield) \
                and body[0].body[0].value.value is not None:
            # for x in ITER: yield E(x)   ==   (E(x) for x in ITER);   for x in ITER: yield x   ==   ITER
            lp = body[0]
            ye = lp.body[0].value.value
            if isinstance(ye, ast.Name) and ye.id == lp.target.id:
                return Sub(amap).visit(_copy.deepcopy(lp.iter))
            ge = ast.GeneratorExp(elt=_copy.deepcopy(ye), generators=[ast.comprehension(target=_copy.deepcopy(lp.target), iter=_copy.deepcopy(lp.iter), ifs=[], is_async=0)])
            return Sub({k_: v_ for k_, v_ in amap.items() if k_ != lp.target.id}).visit(ge)
        if body and all(isinstance(s_, ast.Expr) and isinstance(s_.value, ast.Yield) and s_.value.value is not None for s_ in body):
            items = [_expand_helpers(m, s_.value.value, inner, depth + 1) for s_ in body]
            return ast.Tuple(elts=[Sub(amap).visit(_copy.deepcopy(v)) for v in items], ctx=ast.Load())
        return None

    class Ex(ast.NodeTransformer):
        def visit_Call(self, c):
            self.generic_visit(c)
            r = call(c, classes)
            if r is not None:
                return r
            if isinstance(c.func, ast.Name) and c.func.id == "all" and len(c.args) == 1 and not c.keywords:
                a = c.args[0]
                if isinstance(a, (ast.Tuple, ast.List)) and a.elts:
                    return ast.BoolOp(op=ast.And(), values=list(a.elts)) if len(a.elts) > 1 else a.elts[0]
                if isinstance(a, (ast.GeneratorExp, ast.ListComp)) and len(a.generators) == 1 and not a.generators[0].ifs \
                        and isinstance(a.generators[0].target, ast.Name) and isinstance(a.generators[0].iter, (ast.Tuple, ast.List)) \
                        and a.generators[0].iter.elts:
                    var = a.generators[0].target.id
                    vals = [Sub({var: it}).visit(_copy.deepcopy(a.elt)) for it in a.generators[0].iter.elts]
                    return ast.BoolOp(op=ast.And(), values=vals) if len(vals) > 1 else vals[0]
            return c

    out = Ex().visit(_copy.deepcopy(e))
    ast.fix_missing_locations(out)
    return out


_REPO: List = [None]


def conjuncts(fi: FunctionInfo, e: ast.AST) -> Optional[List[ast.AST]]:
    """flatten a conjunction; None if the top-level connective is not `and`"""
    e = _subst_locals(fi, e)
    if fi.cls is not None:
        # helper methods of the class read as their bodies:  self._end_points_in(other)  /  other._end_points_in(self)
        from ..astutil import inline_self_calls
        e = inline_self_calls(fi.cls.lookup, tuple(fi.params[:2]), e)
        if _CLASSES and _REPO[0] is not None:
            e = _expand_helpers(fi, e, _CLASSES)
    if isinstance(e, ast.BoolOp):
        if not isinstance(e.op, ast.And):
            return None
        out = []
        for v in e.values:
            c = conjuncts(fi, v)
            if c is None:
                return None
            out += c
        return out
    # all(<test> for p in (x, y))
    if isinstance(e, ast.Call) and isinstance(e.func, ast.Name) and e.func.id == "all" and len(e.args) == 1 \
            and isinstance(e.args[0], (ast.GeneratorExp, ast.ListComp)) and len(e.args[0].generators) == 1:
        gen = e.args[0].generators[0]
        if isinstance(gen.iter, (ast.Tuple, ast.List)) and isinstance(gen.target, ast.Name) and not gen.ifs:
            out = []
            for item in gen.iter.elts:
                class R(ast.NodeTransformer):
                    def visit_Name(self, n):
                        if n.id == gen.target.id:
                            return item
                        return n
                import copy as _c
                out.append(R().visit(_c.deepcopy(e.args[0].elt)))
            return out
    return [e]


def is_membership(c: ast.AST, elem_txt: str, cont_txt: str) -> bool:
    return (isinstance(c, ast.Compare) and len(c.ops) == 1 and isinstance(c.ops[0], ast.In)
            and txt(c.left) == elem_txt and txt(c.comparators[0]) == cont_txt)


def memberships(cs: List[ast.AST], cont_txt: str) -> Set[str]:
    out = set()
    for c in cs:
        if isinstance(c, ast.Compare) and len(c.ops) == 1 and isinstance(c.ops[0], ast.In) and txt(c.comparators[0]) == cont_txt:
            out.add(txt(c.left))
    return out


def r51(ctx, res):
    eng = ctx.types
    resolved = {}
    for x, s in SUPPORTED:
        r = resolve(eng, s, x)
        resolved[(x, s)] = r
        where = "%s.__contains__" % s
        fact = "; ".join("%s:%d `%s`" % (t[0], t[1], t[2][:40]) for t in r["terminals"][:4])
        res.ob("R5.1", where, "%s in %s" % (x, s), r["ok"], "ends in " + fact)
        if not r["ok"]:
            bad = [t for t in r["terminals"] if t[3] != "ok"]
            c = eng.class_by_name[s]
            m = c.lookup("__contains__")
            res.violation("R5.1", m, m.node if m else c.node,
                          "`%s in %s` is a supported membership test but resolves to a fallback: %s" % (
                              x, s, "; ".join("%s line %d `%s` [%s]" % t for t in bad)),
                          construct="%s in %s -> fallback" % (x, s))
    ctx.require(res, "R5.1", len(resolved), 18, "supported pairs")
    return resolved


def _universal_loop(ctx, fi: FunctionInfo, x_name: str, s_name: str, coll_attr: str) -> Tuple[bool, str]:
    """for p in X.<coll>: if not p in S: return False ... return True"""
    g = ctx.cfg(fi)
    for h in [n for n in g.nodes.values() if n.kind == "loop"]:
        it = h.ast.iter
        if not (txt(it) == "%s.%s" % (x_name, coll_attr) and isinstance(h.ast.target, ast.Name)):
            continue
        v = h.ast.target.id
        conds = [c for c in g.conds() if h.id in c.loops and is_membership(c.ast, v, s_name)]
        if not conds:
            return False, "the loop over %s.%s does not test `%s in %s`" % (x_name, coll_attr, v, s_name)
        c = conds[0]
        # false edge -> return False ; loop exit -> return True; body cannot complete without the test
        f_t = g.edge_targets(c.id, "F")
        okF = bool(f_t) and all(g.nodes[y].kind == "return" and txt(g.nodes[y].ast.value) == "False" for y in f_t)
        done = g.edge_targets(h.id, "done")
        okD = bool(done) and all(g.nodes[y].kind == "return" and txt(g.nodes[y].ast.value) == "True" for y in done)
        starts = g.edge_targets(h.id, "iter")
        cut = {(c.id, y, l) for y, l in g.succ[c.id]}
        r = g.reach(starts, avoid_edges=cut)
        bypass = h.id in r or g.exit in r
        # after a successful test the iteration must go on to the next vertex, not return
        acc = g.edge_targets(c.id, "T")
        early = g.exit in g.reach(acc, avoid_nodes={h.id})
        bypass = bypass or early
        if okF and okD and not bypass:
            return True, "loop over all of %s.%s returning False on the first failure and True after" % (x_name, coll_attr)
        return False, "loop over %s.%s is not a universal quantifier (false edge returns False: %s, exit returns True: %s, bypass: %s)" % (
            x_name, coll_attr, okF, okD, bypass)
    return False, "no loop over %s.%s" % (x_name, coll_attr)


KIND = {"dv": "tangent", "vector": "tangent", "n": "normal"}  # Line.dv, HalfLine.vector, Plane.n


def direction_kind_ok(c: ast.AST) -> Optional[Tuple[bool, str]]:
    """u.parallel(v) needs equal kinds (tangent/tangent), u.orthogonal(v) different kinds (tangent/normal)"""
    for call in ast.walk(c):
        if isinstance(call, ast.Call) and isinstance(call.func, ast.Attribute) and call.func.attr in ("parallel", "orthogonal") \
                and len(call.args) == 1 and isinstance(call.func.value, ast.Attribute) and isinstance(call.args[0], ast.Attribute):
            k1, k2 = KIND.get(call.func.value.attr), KIND.get(call.args[0].attr)
            if k1 is None or k2 is None:
                return None
            same = k1 == k2
            ok = same if call.func.attr == "parallel" else not same
            return ok, "%s of a %s and a %s vector" % (call.func.attr, k1, k2)
    return None


def r52(ctx, res, resolved):
    eng = ctx.types
    n = 0
    for (x, s), r in resolved.items():
        if x != "Point" and not r["ok"]:
            n += 1  # reported by R5.1; still an enumerated composite pair
        if x == "Point" or not r["ok"]:
            continue
        for fi, t, bound, cls in r["nodes"]:
            if cls != "ok" or not isinstance(t, ast.Return) or t.value is None:
                continue
            global _REACHED
            sm_ = eng.memo.get((fi.qual, bound))
            _REACHED = sm_.reached if sm_ is not None else None
            in_form = fi.name == "in_"
            x_name = fi.params[0] if in_form else fi.params[1]
            s_name = fi.params[1] if in_form else fi.params[0]
            _REPO[0] = ctx.repo
            _CLASSES.clear()
            _CLASSES.update({x_name: x, s_name: s})
            where = fi.where(t)
            construct = "%s in %s: %s" % (x, s, fi.short)
            # constant returns belong to a universal loop
            if isinstance(t.value, ast.Constant) and isinstance(t.value.value, bool):
                if x == "ConvexPolygon":
                    if t.value.value is True:
                        n += 1
                        ok, why = _universal_loop(ctx, fi, x_name, s_name, "points")
                        res.ob("R5.2", where, construct, ok, why)
                        if not ok:
                            res.violation("R5.2", fi, t, "`%s in %s` must hold for every vertex of the polygon: %s" % (x, s, why),
                                          construct=construct + " universal loop")
                    continue
                raise AnalysisError("%s: constant return in the composite branch %s" % (where, construct))
            if x == "ConvexPolygon":
                # all(v in S for v in X.points): the comprehension form of the universal vertex loop
                from ..astutil import expand_locals
                tv = expand_locals(fi.node, t.value, fi.params)
                tv = _expand_helpers(fi, tv, _CLASSES)
                if isinstance(tv, ast.Call) and isinstance(tv.func, ast.Name) and tv.func.id == "all" and len(tv.args) == 1 \
                        and isinstance(tv.args[0], (ast.GeneratorExp, ast.ListComp)):
                    ge = tv.args[0]
                    n += 1
                    ok = len(ge.generators) == 1 and not ge.generators[0].ifs and isinstance(ge.generators[0].target, ast.Name) \
                        and txt(ge.generators[0].iter) == "%s.points" % x_name and is_membership(ge.elt, ge.generators[0].target.id, s_name)
                    why = "all(... in %s) over every vertex %s.points" % (s_name, x_name) if ok else \
                        "`%s` is not a universal quantifier over all of %s.points testing membership in %s" % (txt(tv)[:60], x_name, s_name)
                    res.ob("R5.2", where, construct, ok, why)
                    if not ok:
                        res.violation("R5.2", fi, t, "`%s in %s` must hold for every vertex of the polygon: %s" % (x, s, why),
                                      construct=construct + " universal loop")
                    continue
            cs = conjuncts(fi, t.value)
            n += 1
            if cs is None:
                res.ob("R5.2", where, construct, False, "top-level connective is not a conjunction")
                res.violation("R5.2", fi, t,
                              "`%s in %s` must be the conjunction over all defining points of the %s, but `%s` is not a conjunction"
                              % (x, s, x, txt(t.value)[:80]), construct=construct + " not a conjunction")
                continue
            mem = memberships(cs, s_name)
            if x == "Segment":
                need = {"%s.%s" % (x_name, f) for f in point_fields(eng, "Segment")}
                if len(need) < 2:
                    raise AnalysisError("Segment has fewer than two Point fields in the inferred field table")
                missing = need - mem
                ok = not missing
                res.ob("R5.2", where, construct, ok, "tests %s in %s" % (sorted(mem), s_name))
                if not ok:
                    res.violation("R5.2", fi, t,
                                  "`Segment in %s` must test both end points; %s is not tested (`%s`)" % (
                                      s, sorted(missing), txt(t.value)[:80]),
                                  construct=construct + " missing end point")
            elif x == "HalfLine":
                need = {"%s.%s" % (x_name, f) for f in point_fields(eng, "HalfLine")}
                missing = need - mem
                dir_terms = [c for c in cs if ("%s.vector" % x_name) in txt(c) and not is_membership(c, "", "")]
                ok = not missing and bool(dir_terms)
                for dt in dir_terms:
                    dk = direction_kind_ok(dt)
                    if dk is not None and not dk[0]:
                        res.ob("R5.2", where, construct + " direction kind", False, dk[1])
                        res.violation("R5.2", fi, t, "`HalfLine in %s`: the direction condition `%s` is the %s -- containment "
                                      "needs the direction along the %s" % (s, txt(dt)[:60], dk[1], s),
                                      construct=construct + " direction kind")
                res.ob("R5.2", where, construct, ok, "origin %s in %s and direction term `%s`" % (
                    sorted(mem), s_name, txt(dir_terms[0])[:50] if dir_terms else "-"))
                if not ok:
                    res.violation("R5.2", fi, t,
                                  "`HalfLine in %s` needs the origin in %s and a direction condition; missing: %s%s" % (
                                      s, s, sorted(missing), "" if dir_terms else " direction term"),
                                  construct=construct + " origin/direction")
            elif x == "Line":
                pt = [m_ for m_ in mem if m_.startswith("Point(%s." % x_name)]
                dir_terms = [c for c in cs if x_name in {n_.id for n_ in ast.walk(c) if isinstance(n_, ast.Name)}
                             and not (isinstance(c, ast.Compare) and isinstance(c.ops[0], ast.In))]
                ok = bool(pt) and bool(dir_terms)
                res.ob("R5.2", where, construct, ok, "a point of the line in %s (%s) and direction term `%s`" % (
                    s_name, pt, txt(dir_terms[0])[:50] if dir_terms else "-"))
                if not ok:
                    res.violation("R5.2", fi, t, "`Line in %s` needs a point of the line in %s and a direction condition (`%s`)" % (
                        s, s, txt(t.value)[:80]), construct=construct + " point/direction")
            elif x == "ConvexPolygon":
                eqs = [c for c in cs if isinstance(c, ast.Compare) and isinstance(c.ops[0], ast.Eq)
                       and {txt(c.left), txt(c.comparators[0])} == {"%s.plane" % x_name, s_name}]
                ok = bool(eqs) and len(cs) == 1
                res.ob("R5.2", where, construct, ok, "carrier statement `%s`" % txt(t.value)[:60])
                if not ok:
                    res.violation("R5.2", fi, t, "`ConvexPolygon in %s` must compare the polygon's plane with the %s (`%s`)" % (
                        s, s, txt(t.value)[:80]), construct=construct + " carrier equality")
            else:
                raise AnalysisError("no composite rule for %s" % x)
    ctx.require(res, "R5.2", n, 12, "composite branches")


def r53_point_branches(ctx, res):
    """bounded containers: a Point can only be `in` S if it lies on S's carrier; the polyhedron test is a
    universally quantified loop over all faces"""
    from ..types import S
    from .c15 import cond_deps
    eng = ctx.types
    n = 0
    for cname in ("Segment", "HalfLine", "ConvexPolygon"):
        c = ctx.repo.cls(cname)
        m = c.lookup("__contains__")
        sm = eng.summary(m, (S(cname), S("Point")))
        if sm is None:
            raise AnalysisError("%s.__contains__ was not evaluated on a Point" % cname)
        carriers = sorted(f for (k, f), v in eng.fields.items() if k == cname and set(map(str, v)) <= {"Line", "Plane"})
        if not carriers:
            # the carrier may be a read-only property computed from the defining points (`@property def line(self)`)
            for mname, pm in sorted(c.methods.items()):
                if "property" in pm.decorators:
                    rt = set()
                    for _b, psm in eng.summaries_of(pm):
                        rt |= set(map(str, psm.ret))
                    if rt and rt <= {"Line", "Plane"}:
                        carriers.append(mname)
        if len(carriers) != 1:
            raise AnalysisError("%s: expected exactly one carrier field, found %s" % (cname, carriers))
        me, other = m.params[:2]
        want = "%s in %s.%s" % (other, me, carriers[0])
        g = ctx.cfg(m)
        pfields = point_fields(eng, cname)

        from ..astutil import expand_locals
        want_neg = "%s not in %s.%s" % (other, me, carriers[0])

        def has_carrier(e, positive=True) -> bool:
            """does `e` (locals expanded, and everything it depends on) contain the carrier membership test?"""
            visited = []
            cond_deps(ctx, m, e, visited)
            visited.append(expand_locals(m.node, e, m.params))
            w = want if positive else want_neg
            return any(isinstance(x, ast.Compare) and txt(x) == w for v in visited for x in ast.walk(v))

        for r in [x for x in walk_local(m.node) if isinstance(x, ast.Return) and id(x) in sm.reached]:
            n += 1
            ok, why = False, ""
            if isinstance(r.value, ast.Constant) and r.value.value is False:
                ok, why = True, "rejecting return"
            elif r.value is not None and has_carrier(r.value):
                ok, why = True, "value depends on `%s`" % want
            else:
                nid = g.nodes_of(r)
                dom = g.dominating_edges(nid[0]) if nid else []
                for cnode, _, lab in dom:
                    ce = g.nodes[cnode].ast
                    if (lab == "T" and has_carrier(ce)) or (lab == "F" and has_carrier(ce, positive=False)):
                        ok, why = True, "only reached when `%s` holds" % want
                    # coincidence with a defining point: Vector(self.<point field>, other).length() < get_eps()
                    cx = expand_locals(m.node, ce, m.params)
                    if lab == "T" and isinstance(cx, ast.Compare) and len(cx.ops) == 1 and isinstance(cx.ops[0], (ast.Lt, ast.LtE)) \
                            and "get_eps()" in txt(cx.comparators[0]):
                        t = txt(cx.left)
                        if any("Vector(%s.%s, %s)" % (me, f, other) in t or "Vector(%s, %s.%s)" % (other, me, f) in t for f in pfields) \
                                and ".length()" in t:
                            ok, why = True, "the point coincides with a defining point of the %s (within eps)" % cname
            res.ob("R5.3", m.where(r), "Point in %s: `%s`" % (cname, txt(r)[:50]), ok, why or "can be True off the carrier")
            if not ok:
                res.violation("R5.3", m, r, "`Point in %s` can return True without the point lying on the %s's carrier %s: `%s` "
                              "neither depends on nor is guarded by `%s`" % (cname, cname, carriers[0], txt(r)[:60], want),
                              construct="Point in %s: carrier test missing at `%s`" % (cname, txt(r)[:50]))
    # polyhedron: not strictly outside ANY face
    m = ctx.repo.cls("ConvexPolyhedron").lookup("__contains__")
    me, other = m.params[:2]
    g = ctx.cfg(m)
    n += 1
    ok, why = False, "no loop over all faces"
    # comprehension form of the universal quantifier:  return not any(<outside test> for f in self.convex_polygons)
    #                                                  return all(<inside test> for f in self.convex_polygons)
    from ..astutil import expand_locals as _xl
    smq = eng.summary(m, (S("ConvexPolyhedron"), S("Point")))
    prets = [r for r in walk_local(m.node) if isinstance(r, ast.Return) and smq is not None and id(r) in smq.reached]
    accepting = [r for r in prets if not (isinstance(r.value, ast.Constant) and r.value.value is False)]
    if len(accepting) == 1 and accepting[0].value is not None:
        v = _xl(m.node, accepting[0].value, m.params)
        q = None
        if isinstance(v, ast.UnaryOp) and isinstance(v.op, ast.Not) and isinstance(v.operand, ast.Call) and txt(v.operand.func) == "any":
            q = v.operand
        elif isinstance(v, ast.Call) and txt(v.func) == "all":
            q = v
        if q is not None and len(q.args) == 1 and isinstance(q.args[0], (ast.GeneratorExp, ast.ListComp)):
            ge = q.args[0]
            if len(ge.generators) == 1 and not ge.generators[0].ifs and txt(ge.generators[0].iter) == "%s.convex_polygons" % me \
                    and isinstance(ge.generators[0].target, ast.Name):
                names = {x.id for x in ast.walk(ge.elt) if isinstance(x, ast.Name)}
                if other in names and ge.generators[0].target.id in names:
                    ok, why = True, "`%s` quantifies over every face of %s.convex_polygons" % (txt(v)[:50], me)
                else:
                    why = "the per-face test does not depend on the point and the face"
    for h in [x for x in g.nodes.values() if x.kind == "loop"]:
        if ok:
            break
        if txt(h.ast.iter) != "%s.convex_polygons" % me:
            continue
        conds = [c for c in g.conds() if h.id in c.loops]
        rej = [c for c in conds for lab in ("T", "F") if g.edge_targets(c.id, lab) and all(
            g.nodes[y].kind == "return" and txt(g.nodes[y].ast.value) == "False" for y in g.edge_targets(c.id, lab))]
        done = g.edge_targets(h.id, "done")
        okD = bool(done) and all(g.nodes[y].kind == "return" and txt(g.nodes[y].ast.value) == "True" for y in done)
        early = any(g.nodes[y].kind == "return" and txt(g.nodes[y].ast.value) == "True" and h.id in g.nodes[y].loops
                    for y in g.nodes)
        # every accepting return of the Point branch lies behind the completed loop
        smp = eng.summary(m, (S("ConvexPolyhedron"), S("Point")))
        done_edges = {(h.id, y, "done") for y in done}
        before = g.reach([g.entry], avoid_edges=done_edges)
        for rn in g.nodes.values():
            if rn.kind == "return" and rn.id in before and h.id not in rn.loops and smp is not None and id(rn.ast) in smp.reached \
                    and not (isinstance(rn.ast.value, ast.Constant) and rn.ast.value.value is False):
                early = True
                early_node = rn
        if rej and okD and not early:
            deps = cond_deps(ctx, m, rej[0].ast)
            if other in deps:
                ok, why = True, "returns False at the first face the point is outside of (`%s`), True after all faces" % txt(rej[0].ast)[:40]
            else:
                why = "the per-face test does not depend on the point"
        else:
            why = "loop over the faces is not a universal quantifier (rejecting test: %s, True after loop: %s, early True: %s)" % (
                bool(rej), okD, early)
    res.ob("R5.3", m.where(), "Point in ConvexPolyhedron: all faces", ok, why)
    if not ok:
        res.violation("R5.3", m, m.node, "`Point in ConvexPolyhedron` must hold for every face: %s" % why,
                      construct="Point in ConvexPolyhedron: face loop")
    ctx.require(res, "R5.3", n, 6, "Point-branch returns")


def r54_pure(ctx, res):
    """a membership test that modifies an operand changes the answers of later membership tests"""
    ef = ctx.effects
    n = 0
    for c in ctx.repo.classes():
        for name in ("__contains__", "in_"):
            m = c.methods.get(name)
            if m is None:
                continue
            n += 1
            s_ = ef.summ[m.qual]
            direct = {r: w for r, w in s_.mut.items() if not w[1].startswith("call of ") or ".move {" in w[1] or "__setitem__ {" in w[1]}
            ok = not direct
            res.ob("R5.4", m.where(), "%s is effect-free" % m.short, ok,
                   "writes nothing reachable from its operands" if ok else "writes %s" % sorted(direct))
            for r, (where, what) in sorted(direct.items()):
                res.violation("R5.4", m, m.node,
                              "the membership predicate %s modifies %s in place (%s at %s): after one `in` test the same objects answer "
                              "later membership tests differently" % (m.short, "its receiver" if r == "P:" + m.params[0] else "its operand",
                                                                      what[:60], where),
                              construct="%s writes %s" % (m.short, r), detail={"effect chain": ef.chain(m.qual, r)})
    ctx.require(res, "R5.4", n, 9, "membership predicates")


def r55_inclusive_thresholds(ctx, res, cnames=("Line", "Plane", "Segment", "HalfLine", "ConvexPolygon", "ConvexPolyhedron"), rule="R5.5", minimum=4):
    """boundary points count as contained: every ordering comparison of a computed quantity that decides
    `Point in S` must leave a tolerance margin (its threshold depends on the live get_eps()); a comparison with an
    exact threshold (`< 0`) rejects boundary points whose signed distance is float noise"""
    from ..types import S
    from .c15 import cond_deps
    eng = ctx.types
    n = 0
    for cname in cnames:
        m = ctx.repo.cls(cname).lookup("__contains__")
        sm = eng.summary(m, (S(cname), S("Point")))
        if sm is None:
            raise AnalysisError("%s.__contains__ was not evaluated on a Point" % cname)
        seen = set()
        g = ctx.cfg(m)
        # the Point branch and the private helper methods of the same object it calls (`self._inside_all_edges(p)`)
        bodies = [(m, g, sm.reached)]
        for st0 in walk_local(m.node):
            if isinstance(st0, ast.stmt) and id(st0) in sm.reached:
                for c0 in ast.walk(st0):
                    if isinstance(c0, ast.Call) and isinstance(c0.func, ast.Attribute) and isinstance(c0.func.value, ast.Name) \
                            and c0.func.value.id == m.self_name and c0.func.attr.startswith("_") and not c0.func.attr.startswith("__"):
                        hm = ctx.repo.cls(cname).lookup(c0.func.attr)
                        if hm is not None and all(hm is not b_[0] for b_ in bodies) and len(bodies) < 5:
                            reached_h = set()
                            for _, sh in eng.summaries_of(hm):
                                reached_h |= sh.reached
                            bodies.append((hm, ctx.cfg(hm), reached_h))
                    elif isinstance(c0, ast.Call) and isinstance(c0.func, ast.Name) and c0.func.id.startswith("_"):
                        # a private function of the same module (`_on_inner_side(normal, start, end, point)`)
                        b0 = m.resolve(c0.func.id)
                        hm = b0.target if (b0 is not None and b0.kind == "func" and b0.target.module is m.module) else None
                        if hm is not None and all(hm is not b_[0] for b_ in bodies) and len(bodies) < 5:
                            reached_h = set()
                            for _, sh in eng.summaries_of(hm):
                                reached_h |= sh.reached
                            bodies.append((hm, ctx.cfg(hm), reached_h))
        for m_, g, reached_ in bodies:
          for st in walk_local(m_.node):
              if not isinstance(st, ast.stmt) or id(st) not in reached_:
                  continue
              # only the statement's own expressions (nested statements are visited on their own)
              exprs = []
              if isinstance(st, (ast.If, ast.While)):
                  exprs = [st.test]
              elif isinstance(st, (ast.Return, ast.Assign, ast.AugAssign, ast.Expr)) and getattr(st, "value", None) is not None:
                  exprs = [st.value]
              for ex in exprs:
                  for c in ast.walk(ex):
                      if not isinstance(c, ast.Compare) or id(c) in seen:
                          continue
                      seen.add(id(c))
                      if not all(isinstance(o, (ast.Lt, ast.LtE, ast.Gt, ast.GtE)) for o in c.ops):
                          continue
                      sides = [c.left] + list(c.comparators)
                      # integer bookkeeping (len(), indices) is not a geometric threshold
                      if any(isinstance(x, ast.Call) and isinstance(x.func, ast.Name) and x.func.id in ("len", "range") for sd in sides for x in ast.walk(sd)):
                          continue
                      tys = [set(map(str, eng.types_at(m_, sd))) for sd in sides]
                      raw = [eng.types_at(m_, sd) for sd in sides]
                      numeric = [bool(t) and t <= {"num", "bool"} for t in tys]
                      vague = [(not r_) or all(isinstance(x_, tuple) and x_ and x_[0] == "Unknown" for x_ in r_) for r_ in raw]
                      # (an ordering comparison with a number compares numbers: a side of unknown type -- a value out of map(),
                      # min() over zip(*...) -- is a number too)
                      if not (all(a_ or b_ for a_, b_ in zip(numeric, vague)) and any(numeric)):
                          continue
                      if isinstance(st, (ast.If, ast.While)):
                          # a branching test decides membership only if one of its outcomes rejects directly
                          # (return False / flag = False); an exact pre-check that falls through to the tolerant test is harmless
                          rejecting = False
                          for cn in g.conds():
                              if cn.ast is c or any(x is c for x in ast.walk(cn.ast)):
                                  for y, _l in g.succ[cn.id]:
                                      ya = g.nodes[y].ast
                                      if g.nodes[y].kind == "return" and isinstance(ya.value, ast.Constant) and ya.value.value is False:
                                          rejecting = True
                                      if isinstance(ya, ast.Assign) and isinstance(ya.value, ast.Constant) and ya.value.value is False:
                                          rejecting = True
                          if not rejecting:
                              continue
                      n += 1
                      deps = set()
                      for sd in sides:
                          deps |= cond_deps(ctx, m_, sd)
                      ok = "get_eps" in deps
                      res.ob(rule, m_.where(c), "Point in %s: `%s`" % (cname, txt(c)[:60]), ok,
                             "threshold depends on the live tolerance get_eps()" if ok else "exact threshold: no tolerance margin")
                      if not ok:
                          res.violation(rule, m_, c, "`Point in %s` decides with the exact comparison `%s`: points on the boundary (where the "
                                        "compared quantity is zero up to float noise) are rejected, but boundary points count as contained"
                                        % (cname, txt(c)[:60]), construct="Point in %s: exact threshold `%s`" % (cname, txt(c)[:40]))
    ctx.require(res, rule, n, minimum, "threshold comparisons in the Point branches")


def run(ctx, res):
    res.explanation = (
        "Abstract evaluation of S.__contains__(x) for the 18 supported operand-type pairs (isinstance branches, "
        "class_level constants, forward to x.in_(S)): each pair must end in a branch returning a boolean expression, "
        "never in a fallback (raise, returned exception object, 'always False' branch, missing in_). Each composite "
        "branch must be the conjunction of the membership of every defining point of x (fields of type Point taken "
        "from the inferred field table), or the equivalent carrier statement (origin + direction, plane equality, "
        "universally quantified vertex loop). By convexity of S this is equivalent to containment; dropping a "
        "conjunct is not. For the bounded containers a Point can be `in` S only if it lies on S's carrier line / plane "
        "(every accepting return depends on, or is guarded by, the carrier membership, or the point coincides with a "
        "defining point), and the polyhedron test is a universal loop over all faces. The numerical truth of the leaf predicates, inclusive boundaries and the tolerance band "
        "are NOT decided; that the tolerances are live reads is decided under C19 for the whole package."
    )
    resolved = r51(ctx, res)
    r52(ctx, res, resolved)
    r53_point_branches(ctx, res)
    r54_pure(ctx, res)
    r55_inclusive_thresholds(ctx, res)
    # R5.6 positions and directions are not confused in the membership code and in the constructors (affine.py)
    from ..affine import affine_scope, report_affine
    from ..model import GEOM7
    roots = [m for c in ctx.repo.classes() if c.name in GEOM7 for m in c.methods.values() if m.name in ("__contains__", "in_")]
    k6 = report_affine(ctx, res, "R5.6", affine_scope(ctx, roots, GEOM7), "the answer of `in`")
    ctx.require(res, "R5.6", k6, 30, "function contexts examined for position / direction mismatches")
    # R5.7 a Plane given in general form stores a point that does not depend on the scale of the equation (coverage.py)
    from ..coverage import check_general_form_point
    check_general_form_point(ctx, res, "R5.7")
    res.undecided_ob("numerical truth of Point-in-S predicates (which side of an oblique edge), inclusive boundaries, tolerance band")
