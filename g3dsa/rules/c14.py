"""C14 -- shape builders.

Decides: R14.1 the builders do not modify their arguments (effect summaries);
R14.2 R-CROSS on the circle frame (axis directions along or opposite to a
coordinate axis cannot make the frame degenerate); R14.3 the n >= 3 rejection;
R14.4 every ring / cap / side loop closes its cycle.
Vertex/edge/face counts, that vertices lie on the surface at equal steps, and
the closed-form area/volume are numeric and NOT decided.
"""
from __future__ import annotations

from ..cycles import check_cycles
from ..model import AnalysisError
from ..rcross import check_cross
from .c15 import GuardOb, check_guard

BUILDERS = ["ConvexPolygon.Parallelogram", "ConvexPolyhedron.Parallelepiped", "ConvexPolygon.Circle", "get_circle_point_list",
            "ConvexPolyhedron.Sphere", "ConvexPolyhedron.Cylinder", "ConvexPolyhedron.Cone"]


def run(ctx, res):
    res.explanation = (
        "Static decision of four structural clauses of C14: the seven builders (Parallelogram, Parallelepiped, Circle, "
        "get_circle_point_list, Sphere, Cylinder, Cone) have no effect on their arguments (effect/ownership summaries: "
        "every in-place move is applied to a deep copy or to a fresh Point); the circle frame's normalised cross "
        "products are guarded against parallel AND anti-parallel operands for every reaching definition of the base "
        "axis (R-CROSS), so axis directions along or opposite to a coordinate axis cannot raise; n < 3 is rejected on "
        "every path; every ring/cap/side loop pairs index i with a wrap-around successor over the full range. Counts, "
        "positions of the vertices and closed-form measures are numeric and NOT decided."
    )
    ef = ctx.effects
    n = 0
    for short in BUILDERS:
        fi = ctx.repo.fn(short)
        s = ef.summ[fi.qual]
        n += 1
        bad = sorted(r for r in s.mut if r.startswith("P:") and r != "P:cls")
        res.ob("R14.1", fi.where(), fi.short, not bad,
               "no effect on any argument" if not bad else "may modify %s" % bad)
        for r in bad:
            res.violation("R14.1", fi, fi.node, "builder %s modifies its argument `%s` in place" % (fi.short, r[2:]),
                          construct="%s writes %s" % (fi.short, r), detail={"effect chain": ef.chain(fi.qual, r)})
    ctx.require(res, "R14.1", n, 7, "builders")
    moves = [m for m in ef.mutator_sites if m["caller"].split(":")[-1] in BUILDERS]
    seen = set()
    for m in moves:
        k = (m["where"], m["text"])
        if k in seen:
            continue
        seen.add(k)
        res.ob("R14.1", m["where"], "%s: `%s`" % (m["caller"].split(":")[-1], m["text"]), not m["recv"].S,
               "receiver is fresh" if not m["recv"].S else "receiver may be %s" % sorted(m["recv"].S))
    # R14.2
    k = check_cross(ctx, res, ctx.repo.fn("get_circle_point_list"), "R14.2")
    ctx.require(res, "R14.2", k, 2, "normalised cross products in get_circle_point_list (one per reaching definition of the base axis)")
    # R14.3
    check_guard(ctx, res, GuardOb("get_circle_point_list", "n >= 3", "a circle with n < 3 must be rejected",
                                  inputs_any={"n"}, min_accept=3, subject="n"), rule="R14.3")
    # R14.4
    c = 0
    for short in ("ConvexPolyhedron.Sphere", "ConvexPolyhedron.Cylinder", "ConvexPolyhedron.Cone"):
        c += check_cycles(ctx, res, ctx.repo.fn(short), "R14.4")
    ctx.require(res, "R14.4", c, 3, "cycle loops in the builders")
    res.undecided_ob("vertex/edge/face counts, vertices on the specified surface at equal steps, closed-form area and volume (numeric)")
