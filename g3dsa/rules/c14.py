"""C14 -- shape builders.

Decides: R14.1 the builders do not modify their arguments (effect summaries);
R14.2 R-CROSS on the circle frame (axis directions along or opposite to a
coordinate axis cannot make the frame degenerate); R14.3 the n >= 3 rejection;
R14.4 every ring / cap / side loop closes its cycle.
Vertex/edge/face counts, that vertices lie on the surface at equal steps, and
the closed-form area/volume are numeric and NOT decided.
"""
from __future__ import annotations

from ..cycles import check_cycles
from ..model import AnalysisError
from ..rcross import check_cross
from .c15 import GuardOb, check_guard

BUILDERS = ["ConvexPolygon.Parallelogram", "ConvexPolyhedron.Parallelepiped", "ConvexPolygon.Circle", "get_circle_point_list",
            "ConvexPolyhedron.Sphere", "ConvexPolyhedron.Cylinder", "ConvexPolyhedron.Cone"]


def r145_frame(ctx, res):
    """every vertex lies in the plane through the centre perpendicular to the normal, on a circle: the two
    frame vectors must be perpendicular to the normal *by construction* (cross products with the normal
    as a factor), perpendicular to each other, and of equal length"""
    import ast
    from ..astutil import assigned_names, expand_locals, txt
    from ..model import walk_local
    from ..rcross import _strip_norm

    fi = ctx.repo.fn("get_circle_point_list")
    normal = fi.params[1]
    asg = assigned_names(fi.node)

    def canon_is_normal(e, depth=0) -> bool:
        e = _strip_norm(e)
        if isinstance(e, ast.Name):
            if e.id == normal:
                return True
            defs = asg.get(e.id, [])
            return depth < 3 and bool(defs) and all(isinstance(d, ast.Assign) and canon_is_normal(d.value, depth + 1) for d in defs)
        return False

    def is_unit_normal(e, depth=0) -> bool:
        if isinstance(e, ast.Call) and isinstance(e.func, ast.Attribute) and e.func.attr in ("normalized", "unit"):
            return canon_is_normal(e.func.value)
        if isinstance(e, ast.Name) and depth < 3:
            defs = asg.get(e.id, [])
            return bool(defs) and all(isinstance(d, ast.Assign) and is_unit_normal(d.value, depth + 1) for d in defs)
        return False

    # the translation applied to the centre:   A * cos(t) + B * sin(t)   (locals read as their definitions)
    def factors(e):
        """flatten a product into its factors"""
        if isinstance(e, ast.BinOp) and isinstance(e.op, ast.Mult):
            return factors(e.left) + factors(e.right)
        return [e]

    def is_trig(e):
        return isinstance(e, ast.Call) and txt(e.func) in ("math.cos", "math.sin", "cos", "sin")

    def is_vectorish(e, _seen=()):
        """a frame-vector factor: a local / a cross product / a normalised vector (scalars here are numbers, the radius
        parameter and the trigonometric functions)"""
        core = _strip_norm(e)
        if isinstance(core, ast.Call) and isinstance(core.func, ast.Attribute) and core.func.attr in ("cross",):
            return True
        if isinstance(e, ast.Call) and isinstance(e.func, ast.Attribute) and e.func.attr in ("normalized", "unit"):
            return True
        if isinstance(e, ast.Name) and e.id in asg and e.id not in fi.params and e.id not in _seen:
            seen2 = _seen + (e.id,)
            return any(isinstance(d, ast.Assign) and (is_vectorish(d.value, seen2) or (
                isinstance(d.value, ast.BinOp) and any(is_vectorish(x, seen2) for x in factors(d.value)))) for d in asg[e.id])
        return False

    sides = None
    move_call = None
    for c in walk_local(fi.node):
        if not (isinstance(c, ast.Call) and isinstance(c.func, ast.Attribute) and c.func.attr == "move" and c.args):
            continue
        arg0 = expand_locals(fi.node, c.args[0], fi.params)
        if isinstance(arg0, ast.BinOp) and isinstance(arg0.op, ast.Add):
            fs = [factors(arg0.left), factors(arg0.right)]
            if all(any(is_trig(x) for x in f_) for f_ in fs):
                sides, move_call = fs, c
    if sides is None:
        raise AnalysisError("%s: the circle's frame vectors could not be identified" % fi.where())
    frame = []  # [(vector factor AST, sorted scalar factor texts)]
    for f_ in sides:
        vecs = [x for x in f_ if is_vectorish(x)]
        scal = sorted(txt(x) for x in f_ if not is_vectorish(x) and not is_trig(x))
        if len(vecs) != 1:
            raise AnalysisError("%s: the circle's frame vectors could not be identified (`%s`)" % (fi.where(move_call), txt(move_call.args[0])[:60]))
        frame.append((vecs[0], scal))

    def defs_of(e):
        """[(definition statement or None, value expr)] -- every reaching definition of a local, or the expression itself;
        re-scalings `f = f * r` are returned separately"""
        if isinstance(e, ast.Name) and e.id in asg and e.id not in fi.params:
            out, scales = [], []
            for d in asg[e.id]:
                if not isinstance(d, ast.Assign):
                    out.append((d, None))
                    continue
                v = d.value
                if isinstance(v, ast.BinOp) and isinstance(v.op, ast.Mult) and any(isinstance(x, ast.Name) and x.id == e.id for x in (v.left, v.right)):
                    scales.append(txt([x for x in (v.left, v.right) if not (isinstance(x, ast.Name) and x.id == e.id)][0]))
                    continue
                out.append((d, v))
            return out, scales
        return [(None, e)], []

    info = []
    for vec, scal in frame:
        ds, scales = defs_of(vec)
        crosses, other = [], []
        for d, v in ds:
            if v is None:
                other.append(d)
                continue
            normed = isinstance(v, ast.Call) and isinstance(v.func, ast.Attribute) and v.func.attr in ("normalized", "unit")
            core = _strip_norm(v)
            if isinstance(core, ast.Name) and core.id in asg and core.id not in fi.params and len(asg[core.id]) == 1 \
                    and isinstance(asg[core.id][0], ast.Assign):
                core = _strip_norm(asg[core.id][0].value)
            if isinstance(core, ast.Call) and isinstance(core.func, ast.Attribute) and core.func.attr == "cross" and len(core.args) == 1:
                crosses.append((d if d is not None else move_call, v, core.func.value, core.args[0], normed))
            else:
                other.append(d if d is not None else move_call)
        info.append({"name": txt(vec)[:30], "crosses": crosses, "other": other, "scales": sorted(scal + scales)})
    for it_ in info:
        f = it_["name"]
        for d in it_["other"]:
            res.ob("R14.5", fi.where(d), "frame vector %s: `%s`" % (f, txt(d)[:50]), False, "not a cross product with the normal")
            res.violation("R14.5", fi, d,
                          "the circle's frame vector `%s` is set by `%s`, which is not perpendicular to the normal by construction: for "
                          "normals that are close to but not exactly along the axis the vertices leave the circle's plane" % (f, txt(d)[:60]),
                          construct="get_circle_point_list: frame vector %s = %s" % (f, txt(d.value)[:50] if isinstance(d, ast.Assign) else "?"))
        for d, v, X, Y, normed in it_["crosses"]:
            ok = canon_is_normal(X) or canon_is_normal(Y)
            res.ob("R14.5", fi.where(d), "frame vector %s: `%s`" % (f, txt(v)[:50]), ok,
                   "a cross product with the normal as a factor (perpendicular to it for every input)" if ok else "the normal is not a factor")
            if not ok:
                res.violation("R14.5", fi, d, "the circle's frame vector `%s = %s` is not a cross product with the normal: it need not lie "
                              "in the circle's plane" % (f, txt(v)[:60]), construct="get_circle_point_list: frame vector %s cross" % f)
    # mutual perpendicularity and equal length
    A, B = info
    na, nb = txt(frame[0][0]), txt(frame[1][0])

    def aliases(name):
        """the frame vector and the un-scaled vector it is a multiple of (`radius_v1 = unit_v1 * radius`)"""
        from ..astutil import single_defs as _sd
        sd_ = _sd(fi.node, fi.params)
        out_, cur_ = {name}, name
        for _ in range(4):
            d_ = sd_.get(cur_)
            if isinstance(d_, ast.BinOp) and isinstance(d_.op, (ast.Mult, ast.Div)):
                vs_ = [x_ for x_ in (d_.left, d_.right) if isinstance(x_, ast.Name) and x_.id in sd_ and is_vectorish(x_)]
                if len(vs_) == 1:
                    cur_ = vs_[0].id
                    out_.add(cur_)
                    continue
            break
        return out_
    al_a, al_b = aliases(na), aliases(nb)
    # (a frame vector that is already written out as an expression: the same vector with or without the final .normalized())
    al_a |= {txt(_strip_norm(frame[0][0]))}
    al_b |= {txt(_strip_norm(frame[1][0]))}
    import os as _os
    if _os.environ.get("G3DSA_DEBUG_FRAME"):
        print("frame", na, nb, al_a, al_b, [(txt(X), txt(Y), n_) for _, _, X, Y, n_ in A["crosses"]], [(txt(X), txt(Y), n_) for _, _, X, Y, n_ in B["crosses"]])
    mutual = any(txt(_strip_norm(Y)) in al_a or txt(_strip_norm(X)) in al_a for _, _, X, Y, _ in B["crosses"]) or \
        any(txt(_strip_norm(Y)) in al_b or txt(_strip_norm(X)) in al_b for _, _, X, Y, _ in A["crosses"])
    unit_ok = True
    for it_, other_name in ((A, nb), (B, na)):
        for d, v, X, Y, normed in it_["crosses"]:
            if normed:
                continue
            # un-normalised cross product: unit only if both factors are unit and perpendicular: unit normal x other frame vector
            facs = [X, Y]
            if not (any(is_unit_normal(z) for z in facs) and any(txt(_strip_norm(z)) in (al_b if other_name == nb else al_a) for z in facs)):
                unit_ok = False
    # (the un-normalised one inherits unit length from the other only if every definition of the other is normalised)
    for it_, other in ((A, B), (B, A)):
        if any(not normed for _, _, _, _, normed in it_["crosses"]) and any(not normed for _, _, _, _, normed in other["crosses"]):
            unit_ok = False
    same_scale = A["scales"] == B["scales"]
    ok = mutual and unit_ok and same_scale
    res.ob("R14.5", fi.where(), "frame vectors are perpendicular to each other and of equal length", ok,
           "one is the cross product of the unit normal with the other; both scaled by %s" % (A["scales"] or "1") if ok else
           "mutual: %s, unit: %s, scales %s / %s" % (mutual, unit_ok, A["scales"], B["scales"]))
    if not ok:
        res.violation("R14.5", fi, fi.node, "the circle's frame is not orthogonal with equal lengths by construction (mutually "
                      "perpendicular: %s, unit before scaling: %s, scale factors %s vs %s): the vertices would lie on an ellipse" % (
                          mutual, unit_ok, A["scales"], B["scales"]), construct="get_circle_point_list: frame orthonormality")


def r146_rings_agree(ctx, res):
    """caps and side faces share their vertices: in Cylinder / Cone every vertex ring obtained from
    get_circle_point_list(...) for the side faces must be requested with the same centre, normal, radius and n as a
    cap built by Circle(...) (which calls get_circle_point_list with its own arguments); the ring depends on the sign
    of the normal (the frame is n x e, n x (n x e)), so `normal=-h` for the cap gives a reflected ring"""
    import ast
    from ..astutil import const_num, expand_locals, txt
    from ..model import walk_local

    gc = ctx.repo.fn("get_circle_point_list")
    circ = ctx.repo.fn("ConvexPolygon.Circle")
    gparams = list(gc.params)
    cparams = list(circ.params[1:])  # without cls
    n = 0
    for short in ("ConvexPolyhedron.Cylinder", "ConvexPolyhedron.Cone"):
        fi = ctx.repo.fn(short)

        def norm_call(c, params, defaults_of):
            vals = {}
            for i, a in enumerate(c.args):
                if i < len(params):
                    vals[params[i]] = a
            for k in c.keywords:
                if k.arg is not None:
                    vals[k.arg] = k.value
            out = []
            for p_ in ("center", "normal", "radius", "n"):
                # parameter names of the two callees agree by position
                idx = ["center", "normal", "radius", "n"].index(p_)
                pname = params[idx] if idx < len(params) else p_
                v = vals.get(pname)
                if v is None:
                    d = defaults_of.defaults
                    first = len(defaults_of.params) - len(d)
                    j = defaults_of.params.index(pname) - first if pname in defaults_of.params else -1
                    out.append(txt(d[j]) if 0 <= j < len(d) else "?")
                    continue
                v = expand_locals(fi.node, v, fi.params)
                if p_ == "normal":
                    # a positive constant multiple of the normal gives the same ring (it is normalised)
                    while isinstance(v, ast.BinOp) and isinstance(v.op, ast.Mult):
                        kl, kr = const_num(v.left), const_num(v.right)
                        if kl is not None and kl > 0:
                            v = v.right
                        elif kr is not None and kr > 0:
                            v = v.left
                        else:
                            break
                out.append(txt(v))
            return tuple(out)

        caps, rings = {}, {}
        for c in walk_local(fi.node):
            if not isinstance(c, ast.Call):
                continue
            name = c.func.id if isinstance(c.func, ast.Name) else (c.func.attr if isinstance(c.func, ast.Attribute) else None)
            if name == "Circle":
                caps[norm_call(c, cparams, circ)] = c
            elif name == "get_circle_point_list":
                rings[norm_call(c, gparams, gc)] = c
        if not caps:
            # caps built directly from the rings (ConvexPolygon(ring)): nothing to compare, they share the ring by construction
            res.note("%s %s requests no separate Circle(...) cap; caps and side faces can only share the rings it builds" % (fi.where(), short))
            n += max(len(rings), 1)
            continue
        if not rings:
            res.note("%s %s takes its side-face vertices from the caps themselves (no separate ring)" % (fi.where(), short))
            continue
        for key, c in sorted(rings.items()):
            n += 1
            ok = key in caps
            res.ob("R14.6", fi.where(c), "%s: ring %s" % (short, key), ok,
                   "the same ring is the vertex set of a cap built by Circle(center, normal, radius, n)" if ok else
                   "no cap is built with these arguments; caps: %s" % sorted(caps))
            if not ok:
                res.violation("R14.6", fi, c, "%s builds its side faces on the ring get_circle_point_list%s but no cap Circle(...) is "
                              "requested with the same centre, normal, radius and n (caps: %s): caps and side faces do not share "
                              "their vertices, the surface is not closed" % (short, key, sorted(caps)),
                              construct="%s: ring %s without matching cap" % (short, key))
        for key, c in sorted(caps.items()):
            if key not in rings:
                n += 1
                res.ob("R14.6", fi.where(c), "%s: cap %s" % (short, key), False, "no side-face ring with these arguments; rings: %s" % sorted(rings))
                res.violation("R14.6", fi, c, "%s builds the cap Circle%s but the side faces use the ring(s) %s: the cap's vertices are "
                              "not the side faces' vertices" % (short, key, sorted(rings)), construct="%s: cap %s without matching ring" % (short, key))
    ctx.require(res, "R14.6", n, 2, "vertex rings of Cylinder / Cone (or builders that make their own rings)")


def r147_orientation_free_guards(ctx, res):
    """a parallelogram / parallelepiped is the same set whatever the sign and order of its edge vectors: a rejection
    guard may not compare a quantity that changes sign with one of the vectors (a signed area / triple product) with a
    threshold one-sidedly -- half of the valid argument orders would be refused"""
    import ast
    from ..astutil import expand_locals, txt
    from .c15 import rejection_guards, vector_parity

    n = 0
    for short, vecs in (("ConvexPolygon.Parallelogram", ("v1", "v2")), ("ConvexPolyhedron.Parallelepiped", ("v1", "v2", "v3"))):
        fi = ctx.repo.fn(short)
        vecs = tuple(v for v in vecs if v in fi.params)
        g = ctx.cfg(fi)
        bad = []
        k = 0
        for nid, rej, acc in rejection_guards(ctx, fi):
            e = expand_locals(fi.node, g.nodes[nid].ast, fi.params)
            for c in ast.walk(e):
                if not (isinstance(c, ast.Compare) and len(c.ops) == 1 and isinstance(c.ops[0], (ast.Lt, ast.LtE, ast.Gt, ast.GtE))):
                    continue
                k += 1
                for v in vecs:
                    pl, pr = vector_parity(c.left, v), vector_parity(c.comparators[0], v)
                    if (pl == "odd" and pr == "even") or (pl == "even" and pr == "odd"):
                        bad.append((c, v))
        n += 1
        ok = not bad
        res.ob("R14.7", fi.where(), "%s: rejection guards do not depend on the sign of an edge vector" % short, ok,
               "%d ordering comparison(s) in the guards, all even in %s" % (k, ", ".join(vecs)) if ok else
               "`%s` changes sign with %s" % (txt(bad[0][0])[:50], bad[0][1]))
        for c, v in bad[:1]:
            res.violation("R14.7", fi, c, "%s rejects on `%s`, a quantity that changes sign when %s is negated (or two edge vectors are "
                          "exchanged), compared one-sidedly: valid edge vectors in the other orientation are refused" % (short, txt(c)[:60], v),
                          construct="%s: signed guard `%s`" % (short, txt(c)[:40]))
    ctx.require(res, "R14.7", n, 2, "builders with edge vectors")


def r148_inputs_used(ctx, res):
    """R14.8: the object a builder returns depends on every one of its inputs (backward slice from the returned value:
    data dependences through assignments, container updates and loops, control dependences through the enclosing tests)"""
    import ast
    from ..model import walk_local
    from ..astutil import parents
    n = 0
    for short in BUILDERS:
        fi = ctx.repo.fn(short)
        par = parents(fi.node)
        relevant, stmts_seen = set(), set()

        def names(e):
            return {x.id for x in ast.walk(e) if isinstance(x, ast.Name)}

        def add_ctl(node):
            # tests / loop headers enclosing a relevant statement
            p_ = par.get(id(node))
            out = set()
            while p_ is not None and p_ is not fi.node:
                if isinstance(p_, (ast.If, ast.While)):
                    out |= names(p_.test)
                elif isinstance(p_, ast.For):
                    out |= names(p_.iter) | names(p_.target)
                p_ = par.get(id(p_))
            return out

        for r in walk_local(fi.node):
            if isinstance(r, ast.Return) and r.value is not None:
                relevant |= names(r.value) | add_ctl(r)
        changed = True
        while changed:
            changed = False
            for st in walk_local(fi.node):
                new = set()
                if isinstance(st, (ast.Assign, ast.AugAssign, ast.AnnAssign)) and getattr(st, "value", None) is not None:
                    tg = st.targets if isinstance(st, ast.Assign) else [st.target]
                    tn = set()
                    for t in tg:
                        tn |= names(t)
                    if tn & relevant:
                        new = names(st.value) | tn | add_ctl(st)
                elif isinstance(st, ast.For):
                    if names(st.target) & relevant:
                        new = names(st.iter) | add_ctl(st)
                elif isinstance(st, ast.Expr) and isinstance(st.value, ast.Call) and isinstance(st.value.func, ast.Attribute):
                    # container update / in-place method on a relevant local: receiver.m(args)
                    if names(st.value.func.value) & relevant:
                        new = names(st.value) | add_ctl(st)
                elif isinstance(st, ast.comprehension):
                    if names(st.target) & relevant:
                        new = names(st.iter)
                if not new <= relevant:
                    relevant |= new
                    changed = True
        for p_ in fi.params:
            if p_ in ("cls", "self"):
                continue
            n += 1
            ok = p_ in relevant
            res.ob("R14.8", fi.where(), "%s: input `%s`" % (short, p_), ok,
                   "the returned object depends on it" if ok else "the returned object does not depend on it")
            if not ok:
                res.violation("R14.8", fi, fi.node,
                              "%s ignores its input `%s`: no data or control dependence leads from it to the returned object, so every "
                              "value of `%s` builds the same shape (a default or a constant is used in its place)" % (short, p_, p_),
                              construct="%s ignores %s" % (short, p_))
    ctx.require(res, "R14.8", n, 20, "builder inputs")


def _flatten_product(e, num, den, inv=False):
    import ast
    if isinstance(e, ast.BinOp) and isinstance(e.op, ast.Mult):
        _flatten_product(e.left, num, den, inv)
        _flatten_product(e.right, num, den, inv)
    elif isinstance(e, ast.BinOp) and isinstance(e.op, ast.Div):
        _flatten_product(e.left, num, den, inv)
        _flatten_product(e.right, num, den, not inv)
    else:
        (den if inv else num).append(e)


def _quarter_turn_angle(ang, var, lo, stop_txt):
    """is `ang` = pi * q * (var + c) / N with q <= 1/2, so that for var in range(lo, N + k), k - 1 + c <= 0, lo + c >= 0 the
    angle increases with var and stays inside [0, pi/2]?  -> (ok, explanation)"""
    import ast
    from fractions import Fraction
    from ..astutil import const_num, txt
    num, den = [], []
    _flatten_product(ang, num, den)
    q = Fraction(1)
    pis = 0
    lin = None
    names_den = []
    for side, fs in (("n", num), ("d", den)):
        for f in fs:
            if txt(f) in ("math.pi", "pi"):
                if side == "d":
                    return False, "pi in the denominator"
                pis += 1
                continue
            k = const_num(f)
            if k is not None and k != 0 and float(k) == int(k):
                q = q * int(k) if side == "n" else q / int(k)
                continue
            if side == "n" and any(isinstance(x, ast.Name) and x.id == var for x in ast.walk(f)):
                if lin is not None:
                    return False, "two factors depend on the loop variable"
                lin = f
                continue
            if side == "d" and isinstance(f, ast.Name):
                names_den.append(f.id)
                continue
            return False, "factor `%s` is not recognised" % txt(f)
    if pis != 1 or lin is None or len(names_den) != 1:
        return False, "not of the form pi * q * (%s + c) / N" % var
    c = 0
    if isinstance(lin, ast.Name):
        c = 0
    elif isinstance(lin, ast.BinOp) and isinstance(lin.op, (ast.Add, ast.Sub)) and isinstance(lin.left, ast.Name) and lin.left.id == var \
            and const_num(lin.right) is not None:
        c = const_num(lin.right) * (1 if isinstance(lin.op, ast.Add) else -1)
    elif isinstance(lin, ast.BinOp) and isinstance(lin.op, ast.Add) and isinstance(lin.right, ast.Name) and lin.right.id == var \
            and const_num(lin.left) is not None:
        c = const_num(lin.left)
    else:
        return False, "`%s` is not %s plus a constant" % (txt(lin), var)
    N = names_den[0]
    # stop = N + k
    st = stop_txt.replace(" ", "")
    if st == N:
        k = 0
    elif st.startswith(N + "-") and st[len(N) + 1:].isdigit():
        k = -int(st[len(N) + 1:])
    elif st.startswith(N + "+") and st[len(N) + 1:].isdigit():
        k = int(st[len(N) + 1:])
    else:
        return False, "the loop bound `%s` is not %s plus a constant" % (stop_txt, N)
    if q <= 0 or q > Fraction(1, 2) or k - 1 + c > 0 or lo + c < 0:
        return False, "the angle is not confined to [0, pi/2] (q = %s, last index %s%+d, offset %+d)" % (q, N, k - 1, c)
    return True, "pi * %s * (%s%+d) / %s, increasing from %s to at most pi/2" % (q, var, c, N, "0" if lo + c == 0 else "a positive angle")


def r1410_latitude_order(ctx, res):
    """R14.10: the latitude rings of Sphere are stacked in the order in which the bands connect them.  With the polar angle
    growing with the loop index inside (0, pi/2), the axial offset `R sin` grows and the ring radius `R cos` shrinks: the first
    ring built is the one next to the equator.  The bands join the equator ring to element [0] of the ring list; exchanging
    sin and cos reverses the stacking while the bands stay, and the surface folds over itself."""
    import ast
    from ..astutil import const_num, expand_locals, txt
    from ..model import walk_local

    fi = ctx.repo.fn("ConvexPolyhedron.Sphere")
    eng = ctx.types
    loops = []
    for lp in walk_local(fi.node):
        if not (isinstance(lp, ast.For) and isinstance(lp.target, ast.Name) and isinstance(lp.iter, ast.Call)
                and isinstance(lp.iter.func, ast.Name) and lp.iter.func.id == "range" and 1 <= len(lp.iter.args) <= 2):
            continue
        trig = {}
        for st in ast.walk(lp):
            if isinstance(st, ast.Assign) and len(st.targets) == 1 and isinstance(st.targets[0], ast.Name):
                v = st.value
                calls = [c for c in ast.walk(v) if isinstance(c, ast.Call) and txt(c.func) in ("math.sin", "math.cos", "sin", "cos") and len(c.args) == 1]
                if len(calls) == 1 and isinstance(v, ast.BinOp) and isinstance(v.op, ast.Mult) and (v.left is calls[0] or v.right is calls[0]):
                    trig[st.targets[0].id] = (txt(calls[0].func).split(".")[-1], v.right if v.left is calls[0] else v.left, calls[0].args[0], st)
        if trig:
            loops.append((lp, trig))
    if not loops:
        res.note("%s Sphere has no loop that places rings by `R * sin / cos` of an index angle; latitude order not evaluated" % fi.where())
        return
    n = 0
    for lp, trig in loops:
        var = lp.target.id
        lo = 0 if len(lp.iter.args) == 1 else const_num(lp.iter.args[0])
        if lo is None:
            raise AnalysisError("%s: lower bound of the ring loop is not a constant" % fi.where(lp))
        kinds = {k: t[0] for k, t in trig.items()}
        if sorted(kinds.values()) != ["cos", "sin"]:
            raise AnalysisError("%s: the ring loop does not define one sine and one cosine quantity (%s)" % (fi.where(lp), kinds))
        for name, (fn, coef, ang, st) in trig.items():
            ok, why = _quarter_turn_angle(expand_locals(fi.node, ang, fi.params), var, int(lo), txt(lp.iter.args[-1]))
            if not ok:
                raise AnalysisError("%s: angle `%s` of the ring loop: %s" % (fi.where(st), txt(ang), why))
            if not (isinstance(coef, ast.Name) and coef.id in fi.params):
                raise AnalysisError("%s: `%s` is not <parameter> * %s(angle)" % (fi.where(st), txt(st)[:50], fn))
        # roles: the axial offset is the quantity that multiplies a vector or appears negated; the other is the ring radius
        offset = set()
        for x in ast.walk(lp):
            if isinstance(x, ast.UnaryOp) and isinstance(x.op, ast.USub) and isinstance(x.operand, ast.Name) and x.operand.id in trig:
                offset.add(x.operand.id)
            if isinstance(x, ast.BinOp) and isinstance(x.op, ast.Mult):
                for a_, b_ in ((x.left, x.right), (x.right, x.left)):
                    if isinstance(a_, ast.Name) and a_.id in trig and {str(t) for t in eng.types_at(fi, b_) if not isinstance(t, tuple)} == {"Vector"}:
                        offset.add(a_.id)
        if len(offset) != 1:
            raise AnalysisError("%s: which of %s is the axial offset of the rings cannot be told" % (fi.where(lp), sorted(trig)))
        off = next(iter(offset))
        rad = next(k for k in trig if k != off)
        # orientation: the ring lists filled in this loop, and the ring that element [0] is joined to
        lists = {c.func.value.id for c in ast.walk(lp) if isinstance(c, ast.Call) and isinstance(c.func, ast.Attribute)
                 and c.func.attr == "append" and isinstance(c.func.value, ast.Name)}
        inside = {t_.id for st_ in ast.walk(lp) if isinstance(st_, ast.Assign) for t_ in st_.targets if isinstance(t_, ast.Name)}
        outer = {t_.id for st_ in walk_local(fi.node) if isinstance(st_, ast.Assign) for t_ in st_.targets if isinstance(t_, ast.Name)} - inside - lists
        equators = set()
        joined = False
        for c in walk_local(fi.node):
            if isinstance(c, ast.Call):
                subs = [x for a_ in c.args for x in ast.walk(a_) if isinstance(x, ast.Subscript)]
                firsts = [x for x in subs if isinstance(x.value, ast.Subscript) and isinstance(x.value.value, ast.Name) and x.value.value.id in lists
                          and const_num(x.value.slice) == 0]
                firsts += [x for x in subs if isinstance(x.value, ast.Name) and x.value.id in lists and const_num(x.slice) == 0]
                eqs = {x.value.id for x in subs if isinstance(x.value, ast.Name) and x.value.id in outer}
                eqs |= {a_.id for a_ in c.args if isinstance(a_, ast.Name) and a_.id in outer
                        and any(isinstance(t, tuple) and t[0] in ("list", "tuple") for t in eng.types_at(fi, a_))}
                if firsts and eqs:
                    joined = True
                    equators |= eqs
        if not joined:
            raise AnalysisError("%s: no face joins the equator ring (%s) to element [0] of the ring lists (%s); the stacking order "
                                "cannot be compared with the connection order" % (fi.where(lp), sorted(equators), sorted(lists)))
        n += 1
        ok = kinds[off] == "sin" and kinds[rad] == "cos"
        res.ob("R14.10", fi.where(lp), "Sphere: rings stacked from the equator to the pole", ok,
               "axial offset `%s` = R sin(angle) grows, ring radius `%s` = R cos(angle) shrinks with the index; element [0] is joined to the equator"
               % (off, rad) if ok else "axial offset `%s` = R %s(angle), ring radius `%s` = R %s(angle)" % (off, kinds[off], rad, kinds[rad]))
        if not ok:
            res.violation("R14.10", fi, trig[off][3],
                          "Sphere stacks its latitude rings in the reverse of the order in which the bands connect them: with the angle "
                          "growing with the index inside (0, pi/2), the axial offset `%s` = R %s(angle) shrinks and the ring radius `%s` = "
                          "R %s(angle) grows, so element [0] of the ring list -- which the faces join to the equator ring -- is the ring "
                          "next to the pole. The vertex set is the same, the surface folds over itself (wrong area and volume, not convex)"
                          % (off, kinds[off], rad, kinds[rad]), construct="Sphere: latitude rings in reverse order")
    ctx.require(res, "R14.10", n, 1, "ring loops of Sphere")


def run(ctx, res):
    res.explanation = (
        "Static decision of four structural clauses of C14: the seven builders (Parallelogram, Parallelepiped, Circle, "
        "get_circle_point_list, Sphere, Cylinder, Cone) have no effect on their arguments (effect/ownership summaries: "
        "every in-place move is applied to a deep copy or to a fresh Point); the circle frame's normalised cross "
        "products are guarded against parallel AND anti-parallel operands for every reaching definition of the base "
        "axis (R-CROSS), so axis directions along or opposite to a coordinate axis cannot raise; n < 3 is rejected on "
        "every path; every ring/cap/side loop pairs index i with a wrap-around successor over the full range. Counts, "
        "positions of the vertices and closed-form measures are numeric and NOT decided."
    )
    ef = ctx.effects
    n = 0
    for short in BUILDERS:
        fi = ctx.repo.fn(short)
        s = ef.summ[fi.qual]
        n += 1
        bad = sorted(r for r in s.mut if r.startswith("P:") and r != "P:cls")
        res.ob("R14.1", fi.where(), fi.short, not bad,
               "no effect on any argument" if not bad else "may modify %s" % bad)
        for r in bad:
            res.violation("R14.1", fi, fi.node, "builder %s modifies its argument `%s` in place" % (fi.short, r[2:]),
                          construct="%s writes %s" % (fi.short, r), detail={"effect chain": ef.chain(fi.qual, r)})
    ctx.require(res, "R14.1", n, 7, "builders")
    moves = [m for m in ef.mutator_sites if m["caller"].split(":")[-1] in BUILDERS]
    seen = set()
    for m in moves:
        k = (m["where"], m["text"])
        if k in seen:
            continue
        seen.add(k)
        res.ob("R14.1", m["where"], "%s: `%s`" % (m["caller"].split(":")[-1], m["text"]), not m["recv"].S,
               "receiver is fresh" if not m["recv"].S else "receiver may be %s" % sorted(m["recv"].S))
    # R14.2
    k = check_cross(ctx, res, ctx.repo.fn("get_circle_point_list"), "R14.2")
    ctx.require(res, "R14.2", k, 1, "normalised cross products in get_circle_point_list (one per reaching definition of the base axis)")
    r145_frame(ctx, res)
    r146_rings_agree(ctx, res)
    r147_orientation_free_guards(ctx, res)
    r148_inputs_used(ctx, res)
    r1410_latitude_order(ctx, res)
    # R14.3
    check_guard(ctx, res, GuardOb("get_circle_point_list", "n >= 3", "a circle with n < 3 must be rejected",
                                  inputs_any={"n"}, min_accept=3, subject="n"), rule="R14.3")
    # R14.4
    c = 0
    for short in ("ConvexPolyhedron.Sphere", "ConvexPolyhedron.Cylinder", "ConvexPolyhedron.Cone"):
        c += check_cycles(ctx, res, ctx.repo.fn(short), "R14.4")
    ctx.require(res, "R14.4", c, 3, "cycle loops in the builders")
    # R14.9 positions and directions are not confused in the builders (affine.py)
    from ..affine import affine_scope, report_affine
    k9 = report_affine(ctx, res, "R14.9", affine_scope(ctx, [ctx.repo.fn(b_) for b_ in BUILDERS], ("ConvexPolygon", "ConvexPolyhedron")), "the shape built")
    ctx.require(res, "R14.9", k9, 7, "function contexts examined for position / direction mismatches")
    # R14.11 no vertex coordinate is rounded
    from ..exact import report_rounding
    kr = report_rounding(ctx, res, "R14.11", affine_scope(ctx, [ctx.repo.fn(b_) for b_ in BUILDERS], ()), "a vertex")
    ctx.require(res, "R14.11", kr, 7, "functions scanned for rounding")
    res.undecided_ob("vertex/edge/face counts, vertices on the specified surface at equal steps, closed-form area and volume (numeric)")
