"""C11 -- angle, parallel and orthogonal agree with direction geometry.

Decides: R11.1 dispatch totality + symmetry by construction for the five
operand-type pairs of each of the three functions; R11.2 range folding of every
angle result into [0, pi/2] (interval domain; `acute` folds exactly at pi/2);
R11.3 tangent/normal duality (predicate swapped and angle complemented iff the
two direction kinds differ); R11.4 R-ACOS; R11.5 method forms.
"parallel is True exactly when the angle is 0" (tolerance numerics) is NOT decided.
"""
from __future__ import annotations

import ast
import math
from typing import Dict, List, Optional, Tuple

from ..astutil import const_num, txt
from ..model import AnalysisError, FunctionInfo, walk_local
from ..rcross import check_acos
from ..types import S, show

PAIRS = [("Line", "Line"), ("Line", "Plane"), ("Plane", "Line"), ("Plane", "Plane"), ("Vector", "Vector")]
KIND = {"Line": ("dv", "tangent"), "Plane": ("n", "normal"), "Vector": (None, "tangent")}
PI = math.pi


def _reached_returns(eng, fi, args):
    sm = eng.summary(fi, args)
    if sm is None:
        raise AnalysisError("no summary for %s%s" % (fi.short, [show(a) for a in args]))
    rets = [r for r in walk_local(fi.node) if isinstance(r, ast.Return) and id(r) in sm.reached]
    rz = [r for r in walk_local(fi.node) if isinstance(r, ast.Raise) and id(r) in sm.reached]
    return sm, rets, rz


def _forward(eng, fi, bound, r) -> Optional[Tuple[str, Tuple[str, str]]]:
    """return f(x, y) to the same function: -> (qual, arg type names)"""
    if isinstance(r.value, ast.Call):
        tg = eng.call_targets.get((fi.qual, id(r.value)), set())
        if tg == {fi.qual} and len(r.value.args) == 2:
            ts = tuple(show(eng.ctx_node_types.get((fi.qual, bound, id(a)), frozenset())) for a in r.value.args)
            return fi.qual, ts
    return None


def r111(ctx, res, fname, module="calc.angle"):
    eng = ctx.types
    fi = ctx.repo.fn(fname, module)
    direct: Dict[Tuple[str, str], ast.Return] = {}
    for ta, tb in PAIRS:
        sm, rets, rz = _reached_returns(eng, fi, (S(ta), S(tb)))
        bound = eng._bind(fi, (S(ta), S(tb)), {})
        where = fi.where()
        lab = "%s(%s, %s)" % (fname, ta, tb)
        own_raise = [r for r in rz]
        if own_raise or not rets:
            res.ob("R11.1", where, lab, False, "reaches `%s`" % (txt(own_raise[0])[:50] if own_raise else "no return"))
            res.violation("R11.1", fi, own_raise[0] if own_raise else fi.node,
                          "%s has no branch for the documented operand pair: it raises" % lab, construct=lab + " unsupported")
            continue
        if len(rets) != 1:
            raise AnalysisError("%s reaches %d returns" % (lab, len(rets)))
        r = rets[0]
        fw = _forward(eng, fi, bound, r)
        if fw is not None:
            ok = fw[1] == (tb, ta) and (tb, ta) != (ta, tb)
            res.ob("R11.1", fi.where(r), lab, ok, "forwards to %s%s" % (fname, fw[1]))
            if not ok:
                res.violation("R11.1", fi, r,
                              "%s forwards to %s%s: it must forward to the swapped pair (otherwise unbounded recursion or a "
                              "different computation for the two argument orders)" % (lab, fname, fw[1]),
                              construct=lab + " forwarding")
        else:
            direct[(ta, tb)] = r
            at = {}
            for nm in ast.walk(r):
                if isinstance(nm, ast.Name) and nm.id in fi.params[:2]:
                    ty = set(map(str, eng.ctx_node_types.get((fi.qual, bound, id(nm)), frozenset())))
                    if len(ty) == 1:
                        at[nm.id] = ty.pop()
            ctx.cache.setdefault("c11.types_at_return", {})[(fname, ta, tb)] = (
                at.get(fi.params[0], ta), at.get(fi.params[1], tb))
            res.ob("R11.1", fi.where(r), lab, True, "branch `%s`" % txt(r)[:60])
    # symmetry: a mixed pair must be computed by one branch only (the other forwards)
    for ta, tb in (("Line", "Plane"),):
        # (one branch reached from both orders after the arguments were put in a canonical order is still one computation)
        both = (ta, tb) in direct and (tb, ta) in direct and direct[(ta, tb)] is not direct[(tb, ta)]
        if both and isinstance(direct[(ta, tb)], ast.Return) and isinstance(direct[(tb, ta)], ast.Return) \
                and direct[(ta, tb)].value is not None and direct[(tb, ta)].value is not None:
            from ..astutil import exchanged, expand_locals
            pa, pb = fi.params[:2]
            if txt(expand_locals(fi.node, direct[(ta, tb)].value, fi.params)) == exchanged(fi.node, direct[(tb, ta)].value, pa, pb, fi.params):
                res.ob("R11.1", fi.where(direct[(tb, ta)]), "%s {%s, %s}" % (fname, ta, tb), True,
                       "the (%s, %s) branch evaluates the expression of the (%s, %s) branch with the operands exchanged: `%s`" % (
                           tb, ta, ta, tb, txt(direct[(tb, ta)].value)[:50]))
                continue
        res.ob("R11.1", fi.where(), "%s {%s, %s}" % (fname, ta, tb), not both, "one order forwards to the other")
        if both:
            res.violation("R11.1", fi, direct[(tb, ta)],
                          "%s computes (%s, %s) and (%s, %s) in two separate branches; symmetry is no longer by construction"
                          % (fname, ta, tb, tb, ta), construct="%s mixed pair computed twice" % fname)
    return fi, direct


def _vec_of(e: ast.AST, pname: str, tname: str) -> bool:
    """is `e` the direction vector of operand `pname` of type tname (a.dv / a.n / a)?"""
    attr = KIND[tname][0]
    t = txt(e)
    return t == (pname if attr is None else "%s.%s" % (pname, attr))


def _classify_predicate(e: ast.AST, fi, ta, tb, tables=None, _depth=0) -> Optional[str]:
    """'par' / 'orth' applied to the two operands' direction vectors, 'eq' for their plain equality, else None"""
    a, b = fi.params[:2]
    # the sibling dispatcher applied to the two operands (`return parallel(b, a)` inside orthogonal): what the sibling's
    # branch for those operand types computes
    if tables and _depth < 3 and isinstance(e, ast.Call) and isinstance(e.func, ast.Name) and e.func.id in tables \
            and len(e.args) == 2 and not e.keywords and sorted(txt(x) for x in e.args) == sorted((a, b)):
        sfi, sdirect = tables[e.func.id]
        ts = (ta, tb) if txt(e.args[0]) == a else (tb, ta)
        r = sdirect.get(ts)
        if r is None and (ts[1], ts[0]) in sdirect:
            ts = (ts[1], ts[0])
            r = sdirect[ts]
        if r is not None and sfi is not fi:
            return _classify_predicate(r.value, sfi, ts[0], ts[1], tables, _depth + 1)
    if isinstance(e, ast.Compare) and len(e.ops) == 1 and isinstance(e.ops[0], (ast.Eq, ast.NotEq)):
        u, v = e.left, e.comparators[0]
        if (_vec_of(u, a, ta) and _vec_of(v, b, tb)) or (_vec_of(u, b, tb) and _vec_of(v, a, ta)):
            return "eq"
    if isinstance(e, ast.Call) and isinstance(e.func, ast.Attribute) and e.func.attr in ("parallel", "orthogonal") and len(e.args) == 1:
        u, v = e.func.value, e.args[0]
        if (_vec_of(u, a, ta) and _vec_of(v, b, tb)) or (_vec_of(u, b, tb) and _vec_of(v, a, ta)):
            return "par" if e.func.attr == "parallel" else "orth"
    # null(u * v)  == orthogonal
    if isinstance(e, ast.Call) and isinstance(e.func, ast.Name) and e.func.id == "null" and len(e.args) == 1 \
            and isinstance(e.args[0], ast.BinOp) and isinstance(e.args[0].op, ast.Mult):
        u, v = e.args[0].left, e.args[0].right
        if (_vec_of(u, a, ta) and _vec_of(v, b, tb)) or (_vec_of(u, b, tb) and _vec_of(v, a, ta)):
            return "orth"
    return None


def r113_predicates(ctx, res, fname, want_same, fi, direct, tables=None):
    for (ta0, tb0), r in sorted(direct.items()):
        ta, tb = ctx.cache.get("c11.types_at_return", {}).get((fname, ta0, tb0), (ta0, tb0))
        if ta not in KIND or tb not in KIND:
            raise AnalysisError("%s: operand types %s, %s at `%s`" % (fi.where(r), ta, tb, txt(r)[:40]))
        same = KIND[ta][1] == KIND[tb][1]
        want = want_same if same else ("orth" if want_same == "par" else "par")
        ud = _unpack_defs(ctx, fi, ta0, tb0)
        got = _classify_predicate(_resolve_local(fi, r.value, ud), fi, ta, tb, tables)
        lab = "%s(%s, %s)" % (fname, ta, tb)
        if got == "eq":
            res.ob("R11.3", fi.where(r), lab, False, "decided by equality of the direction vectors")
            res.violation("R11.3", fi, r,
                          "%s compares the two direction vectors with `%s`: equal vectors are one representation among many of the "
                          "same direction (opposite or rescaled vectors denote parallel objects too); use the vector predicate"
                          % (lab, txt(r.value)[:40]), construct=lab + " decided by vector equality")
            continue
        if got is None:
            ex = _resolve_local(fi, r.value, ud)
            via_angle = [c for c in ast.walk(ex) if isinstance(c, ast.Call) and (
                (isinstance(c.func, ast.Name) and c.func.id in ("angle", "acute")) or
                (isinstance(c.func, ast.Attribute) and c.func.attr == "angle"))]
            tol = any(isinstance(c, ast.Call) and isinstance(c.func, ast.Name) and c.func.id in ("null", "get_eps") for c in ast.walk(ex))
            if via_angle and tol:
                res.ob("R11.3", fi.where(r), lab, False, "decided by comparing an inverse-cosine angle with the tolerance")
                res.violation("R11.3", fi, r,
                              "%s is decided by comparing `%s` with the tolerance: the angle comes from acos of a quotient that rounds "
                              "just below 1 for exactly parallel directions (acos(1 - 2**-53) is about 1.5e-8, far above eps = 1e-10), so the "
                              "predicate depends on float rounding of |u||v| instead of the direction vectors; use the vector predicate" % (
                                  lab, txt(via_angle[0])[:40]), construct=lab + " decided through acos")
                continue
            raise AnalysisError("%s: `%s` is not a recognised vector predicate on the operands' direction vectors"
                                % (fi.where(r), txt(r.value)))
        ok = got == want
        res.ob("R11.3", fi.where(r), lab, ok, "%s and %s directions -> vector predicate %s" % (KIND[ta][1], KIND[tb][1], got))
        if not ok:
            res.violation("R11.3", fi, r,
                          "%s uses the %s predicate on a %s and a %s direction; %s of the objects needs the %s predicate" % (
                              lab, "parallel" if got == "par" else "orthogonal", KIND[ta][1], KIND[tb][1], fname,
                              "parallel" if want == "par" else "orthogonal"), construct=lab + " predicate kind")


# ---- interval domain for angle()
def _interval(ctx, fi, e: ast.AST, acute_ok: bool) -> Optional[Tuple[float, float, str]]:
    """(lo, hi, shape) of an angle expression; shape in acute | complement | raw"""
    c = const_num(e)
    if c is not None:
        return (c, c, "const")
    if isinstance(e, ast.Call) and isinstance(e.func, ast.Name) and e.func.id == "acute" and len(e.args) == 1:
        inner = _interval(ctx, fi, e.args[0], acute_ok)
        if inner is None:
            return None
        # if acute() itself is broken that is reported at acute(); the call sites keep their nominal range
        return (0.0, PI / 2, "acute")
    if isinstance(e, ast.Call) and isinstance(e.func, ast.Attribute) and e.func.attr == "angle" and len(e.args) == 1:
        return (0.0, PI, "raw")
    if isinstance(e, ast.Call) and txt(e.func) in ("math.acos", "acos") and len(e.args) == 1:
        a = e.args[0]
        nonneg = isinstance(a, ast.Call) and txt(a.func) == "abs" or (
            isinstance(a, ast.BinOp) and isinstance(a.op, ast.Div) and isinstance(a.left, ast.Call) and txt(a.left.func) == "abs")
        return (0.0, PI / 2 if nonneg else PI, "direct")
    if isinstance(e, ast.Call) and txt(e.func) in ("math.asin", "asin") and len(e.args) == 1:
        a = e.args[0]
        nonneg = isinstance(a, ast.Call) and txt(a.func) == "abs" or (
            isinstance(a, ast.BinOp) and isinstance(a.op, ast.Div) and isinstance(a.left, ast.Call) and txt(a.left.func) == "abs")
        return (0.0 if nonneg else -PI / 2, PI / 2, "direct")
    if isinstance(e, ast.Name):
        from ..astutil import assigned_names
        defs = assigned_names(fi.node).get(e.id, [])
        if len(defs) == 1 and isinstance(defs[0], ast.Assign):
            return _interval(ctx, fi, defs[0].value, acute_ok)
        return None
    if isinstance(e, ast.BinOp) and isinstance(e.op, ast.Sub):
        a, b = _interval(ctx, fi, e.left, acute_ok), _interval(ctx, fi, e.right, acute_ok)
        if a is None or b is None:
            return None
        return (a[0] - b[1], a[1] - b[0], "complement" if a[2] == "const" and b[2] == "acute" else "raw")
    return None


def _acute_paths(fi):
    """symbolic execution of acute() over the linear domain  value = k*p + c : [(conds, (k, c))] for every
    return, conds = [(op, thr)] meaning `p op thr` (op in '>' '>=' '<' '<='); None if the shape is not linear/branching"""
    p = fi.params[0]
    out = []

    class Unrec(Exception):
        pass

    def lin(e, env):
        c = const_num(e)
        if c is not None:
            return (0.0, float(c))
        if isinstance(e, ast.Name):
            if e.id in env:
                return env[e.id]
            raise Unrec()
        if isinstance(e, ast.UnaryOp) and isinstance(e.op, ast.USub):
            k, c = lin(e.operand, env)
            return (-k, -c)
        if isinstance(e, ast.BinOp) and isinstance(e.op, (ast.Add, ast.Sub)):
            (k1, c1), (k2, c2) = lin(e.left, env), lin(e.right, env)
            sg = 1 if isinstance(e.op, ast.Add) else -1
            return (k1 + sg * k2, c1 + sg * c2)
        if isinstance(e, ast.BinOp) and isinstance(e.op, ast.Mult):
            (k1, c1), (k2, c2) = lin(e.left, env), lin(e.right, env)
            if k1 == 0:
                return (c1 * k2, c1 * c2)
            if k2 == 0:
                return (c2 * k1, c2 * c1)
        raise Unrec()

    NEG = {">": "<=", ">=": "<", "<": ">=", "<=": ">"}
    FLIP = {">": "<", ">=": "<=", "<": ">", "<=": ">="}
    OPS = {ast.Gt: ">", ast.GtE: ">=", ast.Lt: "<", ast.LtE: "<="}

    def cond(t, env):
        """test -> (op, thr) on the ORIGINAL p"""
        if isinstance(t, ast.UnaryOp) and isinstance(t.op, ast.Not):
            op, thr = cond(t.operand, env)
            return NEG[op], thr
        if not (isinstance(t, ast.Compare) and len(t.ops) == 1 and type(t.ops[0]) in OPS):
            raise Unrec()
        (k1, c1), (k2, c2) = lin(t.left, env), lin(t.comparators[0], env)
        op = OPS[type(t.ops[0])]
        k, c = k1 - k2, c2 - c1  # k*p op c
        if k == 0:
            raise Unrec()
        if k < 0:
            op = FLIP[op]
        return op, c / k

    def ret(e, env, conds):
        if isinstance(e, ast.IfExp):
            cd = cond(e.test, env)
            ret(e.body, env, conds + [cd])
            ret(e.orelse, env, conds + [(NEG[cd[0]], cd[1])])
        else:
            out.append((conds, lin(e, env)))

    def run(stmts, env, conds):
        """returns fall-through states [(env, conds)]"""
        states = [(env, conds)]
        for st in stmts:
            nxt = []
            for env, conds in states:
                if isinstance(st, ast.Expr) and isinstance(st.value, ast.Constant):
                    nxt.append((env, conds))
                elif isinstance(st, ast.Return):
                    if st.value is None:
                        raise Unrec()
                    ret(st.value, env, conds)
                elif isinstance(st, ast.Assign) and len(st.targets) == 1 and isinstance(st.targets[0], ast.Name):
                    e2 = dict(env)
                    if isinstance(st.value, ast.IfExp):
                        cd = cond(st.value.test, env)
                        e3 = dict(env)
                        e2[st.targets[0].id] = lin(st.value.body, env)
                        e3[st.targets[0].id] = lin(st.value.orelse, env)
                        nxt.append((e2, conds + [cd]))
                        nxt.append((e3, conds + [(NEG[cd[0]], cd[1])]))
                    else:
                        e2[st.targets[0].id] = lin(st.value, env)
                        nxt.append((e2, conds))
                elif isinstance(st, ast.If):
                    cd = cond(st.test, env)
                    nxt += run(st.body, env, conds + [cd])
                    nxt += run(st.orelse, env, conds + [(NEG[cd[0]], cd[1])])
                else:
                    raise Unrec()
            states = nxt
        return states

    try:
        left = run(fi.node.body, {p: (1.0, 0.0)}, [])
    except Unrec:
        return None
    if left:
        return None  # a path falls off the end (returns None)
    return out


def check_acute(ctx, res) -> bool:
    fi = ctx.repo.fn("acute", "calc.acute")
    ok = False
    why = "unrecognised shape"
    paths = _acute_paths(fi)
    if paths is not None:
        # feasible paths: a single threshold test (a path with two contradictory tests is dropped)
        def feasible(conds):
            lo, hi = -1e18, 1e18
            for op, thr in conds:
                if op in (">", ">="):
                    lo = max(lo, thr)
                else:
                    hi = min(hi, thr)
            return lo <= hi
        paths = [pp for pp in paths if feasible(pp[0])]
        up = [pp for pp in paths if pp[0] and all(op in (">", ">=") for op, _ in pp[0])]
        dn = [pp for pp in paths if pp[0] and all(op in ("<", "<=") for op, _ in pp[0])]
        if len(paths) == 2 and len(up) == 1 and len(dn) == 1:
            thr_u = max(t for _, t in up[0][0])
            thr_d = min(t for _, t in dn[0][0])
            (ku, cu), (kd, cd_) = up[0][1], dn[0][1]
            ok = abs(thr_u - PI / 2) < 1e-12 and abs(thr_d - PI / 2) < 1e-12 and abs(ku + 1) < 1e-12 and abs(cu - PI) < 1e-12 \
                and abs(kd - 1) < 1e-12 and abs(cd_) < 1e-12
            why = "above %.6f returns %g*rad + %.6f, below %.6f returns %g*rad + %.6f" % (thr_u, ku, cu, thr_d, kd, cd_)
        else:
            why = "returns %s" % [(c, v) for c, v in paths][:4]
            if not paths:
                why = "unrecognised shape"
    res.ob("R11.2", fi.where(), "acute()", ok, why)
    if not ok:
        if why == "unrecognised shape":
            raise AnalysisError("calc/acute.py: acute() has an unrecognised shape; cannot decide the folding")
        res.violation("R11.2", fi, fi.node, "acute() does not fold exactly at pi/2 (%s)" % why, construct="acute folding")
    return ok


def r112_r113_angle(ctx, res, fi, direct):
    acute_ok = check_acute(ctx, res)
    for (ta0, tb0), r in sorted(direct.items()):
        ta, tb = ctx.cache.get("c11.types_at_return", {}).get((fi.name, ta0, tb0), (ta0, tb0))
        if ta not in KIND or tb not in KIND:
            raise AnalysisError("%s: operand types %s, %s at `%s`" % (fi.where(r), ta, tb, txt(r)[:40]))
        lab = "angle(%s, %s)" % (ta, tb)
        ud = _unpack_defs(ctx, fi, ta0, tb0)
        iv = _interval(ctx, fi, _resolve_local(fi, r.value, ud), acute_ok)
        if iv is None:
            raise AnalysisError("%s: cannot bound `%s`" % (fi.where(r), txt(r.value)))
        lo, hi, shape = iv
        ok = lo >= -1e-12 and hi <= PI / 2 + 1e-12
        res.ob("R11.2", fi.where(r), lab, ok, "range [%.4f, %.4f] (%s)" % (lo, hi, shape))
        if not ok:
            res.violation("R11.2", fi, r, "%s can return values in [%.4f, %.4f]; the acute angle lies in [0, pi/2] (missing acute())"
                          % (lab, lo, hi), construct=lab + " range")
        same = KIND[ta][1] == KIND[tb][1]
        want = "acute" if same else "complement"
        if shape in ("acute", "complement"):
            ok3 = shape == want
            res.ob("R11.3", fi.where(r), lab, ok3, "%s/%s directions -> %s" % (KIND[ta][1], KIND[tb][1], shape))
            if not ok3:
                res.violation("R11.3", fi, r,
                              "%s: the directions are %s and %s, so the angle between the objects is %s; the code returns %s" % (
                                  lab, KIND[ta][1], KIND[tb][1],
                                  "the acute angle of the vectors" if same else "pi/2 minus the acute angle of the vectors",
                                  "the complement" if shape == "complement" else "the uncomplemented angle"),
                              construct=lab + " complement")
        # the vectors must be the operands' direction vectors
        a, b = fi.params[:2]
        calls = [c for c in ast.walk(_resolve_local(fi, r.value, ud)) if isinstance(c, ast.Call) and isinstance(c.func, ast.Attribute)
                 and c.func.attr == "angle"]
        okv = any((_vec_of(c.func.value, a, ta) and _vec_of(c.args[0], b, tb)) or
                  (_vec_of(c.func.value, b, tb) and _vec_of(c.args[0], a, ta)) for c in calls if len(c.args) == 1)
        if not calls:
            # a direct formula: it must mention the direction vectors of both operands
            full = _resolve_local(fi, r.value, ud)
            mentioned = {txt(x) for x in ast.walk(full) if isinstance(x, (ast.Attribute, ast.Name))}
            va = a if KIND[ta][0] is None else "%s.%s" % (a, KIND[ta][0])
            vb = b if KIND[tb][0] is None else "%s.%s" % (b, KIND[tb][0])
            okv = va in mentioned and vb in mentioned
        res.ob("R11.3", fi.where(r), lab + " operands", okv, "angle of the two operands' direction vectors")
        if not okv:
            res.violation("R11.3", fi, r, "%s is not computed from the direction vectors of both operands" % lab,
                          construct=lab + " operands")


def _resolve_local(fi, e, ud=None):
    """locals read as their definitions, private single-return helpers of the module read as their bodies; `ud` maps the
    names bound by `u, v, flag = helper(a, b)` to the helper's return elements in the operand-type context at hand"""
    from ..astutil import expand_locals, inline_module_calls
    import copy as _copy
    if ud:
        class R(ast.NodeTransformer):
            def visit_Name(self, n):
                if isinstance(n.ctx, ast.Load) and n.id in ud:
                    return _copy.deepcopy(ud[n.id])
                return n
        e = _copy.deepcopy(e)
        for _ in range(4):
            e = R().visit(expand_locals(fi.node, R().visit(e), fi.params))
    return inline_module_calls(fi, expand_locals(fi.node, e, fi.params))


def _unpack_defs(ctx, fi, ta: str, tb: str):
    """{name: expression} for names bound by tuple-unpacking the result of a module-level helper that, for the operand
    types (ta, tb), reaches exactly one `return e1, ..., ek` (a classifier such as `u, v, mixed = _direction_pair(a, b)`)"""
    import copy as _copy
    eng = ctx.types
    out = {}
    # locals with one definition per branch of a type dispatch (`u = a.dv` under isinstance(a, Line), `u = a.n` under
    # isinstance(a, Plane), ...): in the context (ta, tb) the definition that E1 reached
    sm0 = eng.summary(fi, (S(ta), S(tb)))
    if sm0 is not None:
        from ..astutil import assigned_names
        for nm, defs in assigned_names(fi.node).items():
            if nm in fi.params or len(defs) < 2 or not all(isinstance(d, ast.Assign) and len(d.targets) == 1 for d in defs):
                continue
            live = [d for d in defs if id(d) in sm0.reached]
            if len(live) == 1:
                out[nm] = live[0].value
    stores = {}
    for n in walk_local(fi.node):
        if isinstance(n, ast.Name) and isinstance(n.ctx, ast.Store):
            stores[n.id] = stores.get(n.id, 0) + 1
    for st in walk_local(fi.node):
        if not (isinstance(st, ast.Assign) and len(st.targets) == 1 and isinstance(st.targets[0], ast.Tuple)
                and isinstance(st.value, ast.Call) and isinstance(st.value.func, ast.Name) and not st.value.keywords):
            continue
        b = fi.resolve(st.value.func.id)
        if b is None or b.kind != "func" or b.target.cls is not None or len(b.target.params) != len(st.value.args):
            continue
        h = b.target
        argt = []
        for a_ in st.value.args:
            if isinstance(a_, ast.Name) and a_.id == fi.params[0] and stores.get(a_.id, 0) == 0:
                argt.append(S(ta))
            elif isinstance(a_, ast.Name) and len(fi.params) > 1 and a_.id == fi.params[1] and stores.get(a_.id, 0) == 0:
                argt.append(S(tb))
            else:
                argt.append(eng.types_at(fi, a_))
        sm = eng.summary(h, tuple(argt))
        if sm is None:
            continue
        rets = [r for r in walk_local(h.node) if isinstance(r, ast.Return) and id(r) in sm.reached]
        if len(rets) != 1 or not isinstance(rets[0].value, ast.Tuple) or len(rets[0].value.elts) != len(st.targets[0].elts):
            continue
        sub = dict(zip(h.params, st.value.args))

        class Sub(ast.NodeTransformer):
            def visit_Name(self, n):
                if n.id in sub and isinstance(n.ctx, ast.Load):
                    return _copy.deepcopy(sub[n.id])
                return n
        from ..astutil import expand_locals
        for t_, x_ in zip(st.targets[0].elts, rets[0].value.elts):
            if isinstance(t_, ast.Name) and stores.get(t_.id, 0) == 1:
                out[t_.id] = Sub().visit(expand_locals(h.node, x_, h.params))
    return out


def r115(ctx, res):
    eng = ctx.types
    body = ctx.repo.cls("GeoBody")
    for name in ("angle", "parallel", "orthogonal"):
        m = body.lookup(name)
        target = ctx.repo.fn(name, "calc.angle")
        ok = False
        why = "missing"
        if m is not None:
            rets = [r for r in walk_local(m.node) if isinstance(r, ast.Return)]
            if len(rets) == 1 and isinstance(rets[0].value, ast.Call):
                tg = eng.call_targets.get((m.qual, id(rets[0].value)), set())
                args = [txt(a) for a in rets[0].value.args]
                ok = tg == {target.qual} and args == m.params[:2]
                why = "returns %s(%s)" % (name, ", ".join(args))
        res.ob("R11.5", m.where() if m else "geometry/body.py", "GeoBody.%s" % name, ok, why)
        if not ok:
            res.violation("R11.5", m, m.node if m else None, "method form GeoBody.%s must return %s(self, other): %s" % (name, name, why),
                          construct="GeoBody.%s forwarding" % name, file="Geometry3D/geometry/body.py", function="GeoBody." + name)
    for cname in ("Line", "Plane"):
        c = ctx.repo.cls(cname)
        for name in ("angle", "parallel", "orthogonal"):
            m = c.lookup(name)
            ok = m is not None and m.cls.name == "GeoBody"
            res.ob("R11.5", c.module.relpath, "%s.%s" % (cname, name), ok, "inherited from GeoBody" if ok else "overridden or missing",
                   nontrivial=False)
            if not ok:
                raise AnalysisError("%s.%s is not the GeoBody method form" % (cname, name))


def run(ctx, res):
    res.explanation = (
        "Static decision of the structure of angle/parallel/orthogonal: a branch for each of the five operand pairs "
        "with the mixed pair computed once and the swapped order forwarding to it (symmetry by construction), every "
        "angle result folded into [0, pi/2] (interval domain over acute(), pi/2 - acute(), raw acos range; acute() "
        "itself folds exactly at pi/2), tangent/normal duality (vector predicate swapped and angle complemented iff "
        "the direction kinds differ), every acos argument clamped to [-1, 1] (R-ACOS) so that parallel / "
        "anti-parallel operands cannot raise, and the method forms forward (self, other). That parallel is True "
        "exactly when the angle is 0 is tolerance numerics and NOT decided."
    )
    n = 0
    tables = {fname: r111(ctx, res, fname) for fname in ("parallel", "orthogonal")}
    for fname, want in (("parallel", "par"), ("orthogonal", "orth")):
        fi, direct = tables[fname]
        r113_predicates(ctx, res, fname, want, fi, direct, tables)
        n += len(direct)
    fi, direct = r111(ctx, res, "angle")
    r112_r113_angle(ctx, res, fi, direct)
    n += len(direct)
    ctx.require(res, "R11.3", n, 12, "non-forwarding branches")
    k = check_acos(ctx, res, ctx.repo.fn("Vector.angle"), "R11.4")
    for f in ctx.repo.functions(include_visualization=False):
        if f.short != "Vector.angle":
            k += check_acos(ctx, res, f, "R11.4")
    ctx.require(res, "R11.4", k, 1, "acos/asin sites")
    r115(ctx, res)
    # R11.6 every decision reached from the three functions on the documented operand pairs is tolerant (R-EXACT)
    from ..exact import report_exact
    eng = ctx.types
    roots = [(ctx.repo.fn(f_, "calc.angle"), (S(ta), S(tb))) for f_ in ("parallel", "orthogonal", "angle") for ta, tb in PAIRS]
    reached = eng.reached_from(roots)
    fns = [f_ for f_ in ctx.repo.functions(include_visualization=False) if f_.qual in reached]
    k6 = report_exact(ctx, res, "R11.6", fns, "angle / parallel / orthogonal")
    ctx.require(res, "R11.6", k6, 10, "decision atoms reached from angle / parallel / orthogonal")
    # R11.7 scale freedom: angle / parallel / orthogonal do not change when all coordinates are scaled (degree 0)
    from .c06 import Degree, Z
    dg = Degree(ctx)
    n7 = 0
    for f_ in ("parallel", "orthogonal", "angle"):
        fi_ = ctx.repo.fn(f_, "calc.angle")
        for ta, tb in PAIRS:
            if "Vector" in (ta, tb):
                continue
            r = dg.fn_degree(fi_, (("o", ta), ("o", tb)))
            got = r[1] if r is not None and r[0] == "s" else None
            if got is None:
                if dg.errors:
                    continue
                raise AnalysisError("%s: the homogeneity degree of %s(%s, %s) cannot be determined" % (fi_.where(), f_, ta, tb))
            n7 += 1
            ok = got == 0 or got == Z
            res.ob("R11.7", fi_.where(), "%s(%s, %s) has degree 0" % (f_, ta, tb), ok, "degree %s under scaling of all coordinates" % got)
            if not ok:
                res.violation("R11.7", fi_, fi_.node, "%s(%s, %s) scales like k^%s under scaling all coordinates by k; an angle / a direction "
                              "predicate must not depend on the scale (a missing normalisation)" % (f_, ta, tb, got),
                              construct="%s(%s, %s) degree" % (f_, ta, tb))
    seen7 = set()
    for g_, node, msg in dg.errors:
        k_ = (g_.qual, txt(node), msg)
        if k_ in seen7:
            continue
        seen7.add(k_)
        res.ob("R11.7", g_.where(node), "%s: `%s`" % (g_.short, txt(node)[:50]), False, msg)
        res.violation("R11.7", g_, node, "dimensionally inconsistent expression in %s: %s" % (g_.short, msg),
                      construct="%s: inhomogeneous `%s`" % (g_.short, txt(node)[:60]))
    if not dg.errors:
        ctx.require(res, "R11.7", n7, 12, "operand pairs with a degree")
    res.undecided_ob("parallel/orthogonal are True exactly when the angle is 0 / pi/2 (tolerance numerics); accuracy near the ends of the range")
