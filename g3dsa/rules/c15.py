"""C15 -- degenerate or invalid constructions are rejected, never returned.

Decides (CFG + type facts): every listed validation is a *rejection guard* that
no normal path can bypass, that depends on the inputs it is meant to validate
and -- where the statement speaks of near-degenerate inputs -- whose evaluation
reads the live tolerance; unsupported operand types make the operation raise
(abstract evaluation on the unsupported type); exceptions are raised, not
returned.  Implicit rejections through arithmetic exceptions and the
*sufficiency* of the guards are NOT decided.
"""
from __future__ import annotations

import ast
import re
from typing import Dict, List, Optional, Set, Tuple

from ..astutil import assigned_names, names_in, parents, self_attrs_in, txt
from ..model import GEOM7, AnalysisError, FunctionInfo, walk_local
from ..types import BUILTIN_EXC, S, has_unknown, show


# ----------------------------------------------------------------- helpers
def method_reads(ctx, fi: FunctionInfo, depth: int = 0) -> Set[str]:
    """'self.attr' names read by a method, transitively through self.m() calls"""
    key = ("reads", fi.qual)
    if key in ctx.cache:
        return ctx.cache[key]
    ctx.cache[key] = set()
    out: Set[str] = set()
    sn = fi.self_name
    if sn is None:
        return out
    for n in walk_local(fi.node):
        if isinstance(n, ast.Attribute) and isinstance(n.value, ast.Name) and n.value.id == sn:
            m = fi.cls.lookup(n.attr) if fi.cls else None
            if m is not None and depth < 4:
                out |= method_reads(ctx, m, depth + 1)
            elif isinstance(n.ctx, ast.Load):
                out.add("self." + n.attr)
    ctx.cache[key] = out
    return out


def cond_deps(ctx, fi: FunctionInfo, expr: ast.AST, visited: Optional[List[ast.AST]] = None) -> Set[str]:
    """names (and self.attr pseudo-names) an expression depends on: def-use closure over the
    function's assignments, plus the field read sets of self-methods it calls"""
    asg = assigned_names(fi.node)
    sn = fi.self_name
    seen: Set[str] = set()
    todo: List[ast.AST] = [expr]
    out: Set[str] = set()
    # attribute stores  self.f = e  are definitions of 'self.f'
    attr_defs: Dict[str, List[ast.AST]] = {}
    for n in walk_local(fi.node):
        if isinstance(n, ast.Assign):
            for t in n.targets:
                for x in ast.walk(t):
                    if isinstance(x, ast.Attribute) and isinstance(x.value, ast.Name) and x.value.id == sn \
                            and isinstance(x.ctx, ast.Store):
                        attr_defs.setdefault("self." + x.attr, []).append(n.value)
    while todo:
        e = todo.pop()
        if visited is not None:
            visited.append(e)
        for nm in names_in(e):
            if nm not in seen:
                seen.add(nm)
                out.add(nm)
                for d in asg.get(nm, []):
                    if isinstance(d, ast.Assign):
                        todo.append(d.value)
                    elif isinstance(d, ast.AugAssign):
                        todo.append(d.value)
                    elif isinstance(d, (ast.For, ast.comprehension)):
                        todo.append(d.iter)
        if sn is not None:
            for n in ast.walk(e):
                if isinstance(n, ast.Attribute) and isinstance(n.value, ast.Name) and n.value.id == sn:
                    m = fi.cls.lookup(n.attr) if fi.cls else None
                    if m is not None and "property" in m.decorators:
                        # a derived attribute computed on access: it is itself the thing depended on (and so is what it reads)
                        k = "self." + n.attr
                        if k not in seen:
                            seen.add(k)
                            out.add(k)
                    if m is not None:
                        for r in method_reads(ctx, m):
                            if r not in seen:
                                seen.add(r)
                                out.add(r)
                                for v in attr_defs.get(r, []):
                                    todo.append(v)
                    else:
                        k = "self." + n.attr
                        if k not in seen:
                            seen.add(k)
                            out.add(k)
                            for v in attr_defs.get(k, []):
                                todo.append(v)
    return out


def eps_functions(ctx) -> Set[str]:
    if "eps_functions" not in ctx.cache:
        g = ctx.repo.fn("get_eps", "utils.constant")
        ctx.cache["eps_functions"] = ctx.types.transitive_callers_of({g.qual})
    return ctx.cache["eps_functions"]


def eps_aware(ctx, fi: FunctionInfo, expr: ast.AST) -> bool:
    return bool(ctx.types.targets_in(fi, expr) & eps_functions(ctx))


def rejection_guards(ctx, fi: FunctionInfo):
    """[(cond node id, reject label, accept label)]"""
    g = ctx.cfg(fi)
    out = []
    for n in g.conds():
        labs = {l for _, l in g.succ[n.id]}
        for l in labs:
            if g.edge_only_raises(n.id, l):
                out.append((n.id, l, "F" if l == "T" else "T"))
    return out


def _int_guard_semantics(expr: ast.AST, reject_label: str, subject) -> Optional[Set[int]]:
    """For a guard comparing `subject` (a name, or len(name)) with an integer constant:
    the set of values k in 0..6 that are REJECTED.  None if the shape is different."""
    if not (isinstance(expr, ast.Compare) and len(expr.ops) == 1):
        return None
    l, r = expr.left, expr.comparators[0]

    subj = subject if callable(subject) else (lambda nm: nm == subject)

    def is_subject(e):
        if isinstance(e, ast.Name) and subj(e.id):
            return True
        if isinstance(e, ast.Call) and isinstance(e.func, ast.Name) and e.func.id == "len" and len(e.args) == 1 \
                and isinstance(e.args[0], ast.Name) and subj(e.args[0].id):
            return True
        return False

    def const(e):
        return e.value if isinstance(e, ast.Constant) and isinstance(e.value, int) and not isinstance(e.value, bool) else None

    op = type(expr.ops[0])
    if is_subject(l) and const(r) is not None:
        c = const(r)
        f = {ast.Lt: lambda k: k < c, ast.LtE: lambda k: k <= c, ast.Gt: lambda k: k > c, ast.GtE: lambda k: k >= c,
             ast.Eq: lambda k: k == c, ast.NotEq: lambda k: k != c}.get(op)
    elif is_subject(r) and const(l) is not None:
        c = const(l)
        f = {ast.Lt: lambda k: c < k, ast.LtE: lambda k: c <= k, ast.Gt: lambda k: c > k, ast.GtE: lambda k: c >= k,
             ast.Eq: lambda k: k == c, ast.NotEq: lambda k: k != c}.get(op)
    else:
        return None
    if f is None:
        return None
    return {k for k in range(0, 7) if f(k) == (reject_label == "T")}


def _degrees(e: ast.AST, vecs: Tuple[str, ...]):
    """homogeneity degree of an expression in the vectors `vecs` (tuple of ints), 'zero' for an exact zero / the
    tolerance ('eps', an absolute quantity), 'bool0' for a scale-invariant predicate, None when outside the fragment"""
    Z = tuple(0 for _ in vecs)

    def add(a, b):
        return tuple(x + y for x, y in zip(a, b))

    if isinstance(e, ast.Name):
        if e.id in vecs:
            return tuple(1 if v == e.id else 0 for v in vecs)
        return None
    if isinstance(e, ast.Constant) and isinstance(e.value, (int, float)) and not isinstance(e.value, bool):
        return "zero" if e.value == 0 else Z
    if isinstance(e, ast.UnaryOp) and isinstance(e.op, (ast.USub, ast.UAdd)):
        return _degrees(e.operand, vecs)
    if isinstance(e, ast.Call):
        f = e.func
        name = f.id if isinstance(f, ast.Name) else (f.attr if isinstance(f, ast.Attribute) else None)
        if name == "get_eps" and not e.args:
            return "eps"  # an absolute tolerance
        if name == "zero" and not e.args:
            return "zero"
        if name == "abs" and isinstance(f, ast.Name) and len(e.args) == 1:
            return _degrees(e.args[0], vecs)
        if isinstance(f, ast.Attribute):
            r = _degrees(f.value, vecs)
            if name in ("normalized", "unit") and not e.args:
                return Z if isinstance(r, tuple) else None
            if name == "length" and not e.args:
                return r if isinstance(r, tuple) else None
            if name in ("cross",) and len(e.args) == 1:
                a = _degrees(e.args[0], vecs)
                return add(r, a) if isinstance(r, tuple) and isinstance(a, tuple) else None
            if name in ("parallel", "orthogonal", "angle") and len(e.args) == 1:
                a = _degrees(e.args[0], vecs)
                return "bool0" if isinstance(r, tuple) and isinstance(a, tuple) else None
        if isinstance(f, ast.Name) and name in ("parallel", "orthogonal", "angle") and len(e.args) == 2:
            a, b = _degrees(e.args[0], vecs), _degrees(e.args[1], vecs)
            return "bool0" if isinstance(a, tuple) and isinstance(b, tuple) else None
        return None
    if isinstance(e, ast.BinOp):
        l, r = _degrees(e.left, vecs), _degrees(e.right, vecs)
        if isinstance(e.op, ast.Mult):
            if l in ("zero", "eps") or r in ("zero", "eps"):
                other = r if l in ("zero", "eps") else l
                return other if isinstance(other, tuple) else (other if other in ("zero", "eps") else None)  # eps * |v1| * |v2|: degree of the rest
            return add(l, r) if isinstance(l, tuple) and isinstance(r, tuple) else None
        if isinstance(e.op, ast.Div):
            if isinstance(l, tuple) and isinstance(r, tuple):
                return tuple(x - y for x, y in zip(l, r))
            return None
        if isinstance(e.op, (ast.Add, ast.Sub)):
            if isinstance(l, tuple) and l == r:
                return l
            return None
        if isinstance(e.op, ast.Pow) and isinstance(e.right, ast.Constant) and isinstance(e.right.value, (int, float)) and isinstance(l, tuple):
            k = e.right.value
            return tuple(x * k for x in l)
    return None


def scale_dependent_compare(fi: FunctionInfo, cond: ast.AST, vecs: Tuple[str, ...]):
    """-> (compare node, degree) if `cond` (locals expanded) decides by comparing a quantity of non-zero degree in the
    edge vectors with an absolute quantity (zero within the tolerance): the verdict changes when the vectors are
    rescaled, so it is not a test of their *directions*"""
    from ..astutil import expand_locals
    e = expand_locals(fi.node, cond, fi.params)
    for c in ast.walk(e):
        if not (isinstance(c, ast.Compare) and len(c.ops) == 1):
            continue
        l, r = _degrees(c.left, vecs), _degrees(c.comparators[0], vecs)
        for a, b in ((l, r), (r, l)):
            if isinstance(a, tuple) and sum(1 for x in a if x > 0) >= 2 and b in ("zero", "eps"):
                return c, a
    return None


class GuardOb:
    def __init__(self, fn, label, wording, inputs_any=(), inputs_all=(), eps=False, loop=False, iterates=None,
                 min_accept=None, subject=None, module=None, container_type=None, direction_pair=None):
        self.direction_pair = direction_pair  # the guard is a statement about the *directions* of these two vectors
        self.container_type = container_type  # the guard is a membership test in a value of this class
        self.fn = fn
        self.label = label
        self.wording = wording
        self.inputs_any = set(inputs_any)
        self.inputs_all = set(inputs_all)
        self.eps = eps
        self.loop = loop
        self.iterates = iterates
        self.min_accept = min_accept  # for count guards: smallest accepted value
        self.subject = subject
        self.module = module
        self.param_consts: Dict[str, object] = {}  # (inside a validating helper) parameters bound to a constant by the call

    def mapped(self, rename, consts):
        """the same obligation inside a helper function: operand names replaced by the parameters that receive them"""
        def rn(names):
            out = set()
            for x in names:
                out |= rename.get(x, set())
            return out
        ia = self.inputs_all
        if self.loop:
            # an input that names the element of the validated collection (the loop variable) has no counterpart among the
            # arguments: inside the helper _loop_guard demands the dependence on the helper's own loop variable instead
            ia = {x for x in ia if rename.get(x) or x.startswith("self.")}
        o = GuardOb(self.fn, self.label, self.wording, rn(self.inputs_any), rn(ia), self.eps, self.loop,
                    rn(self.iterates) if self.iterates else None, self.min_accept,
                    (sorted(rename.get(self.subject, {self.subject}))[0] if self.subject else None), self.module, self.container_type,
                    None)
        o.param_consts = dict(consts)
        o._complete = all(rename.get(x) for x in ia) and (not self.inputs_any or bool(rn(self.inputs_any))) \
            and (not self.iterates or bool(rn(self.iterates)))
        return o


def expand_guard(fi, e, consts=None):
    """a guard on a hoisted count (`count = len(points); if count < 3`) reads as the comparison on len(points); inside a
    validating helper a parameter bound to a constant by the call (`minimum=3`) reads as that constant"""
    from ..astutil import single_defs
    import copy as _copy
    d = single_defs(fi.node, fi.params)
    consts = consts or {}
    class R(ast.NodeTransformer):
        def visit_Name(self, n):
            if isinstance(n.ctx, ast.Load) and n.id in consts:
                return ast.copy_location(ast.Constant(value=consts[n.id]), n)
            v = d.get(n.id)
            if isinstance(n.ctx, ast.Load) and isinstance(v, ast.Call) and isinstance(v.func, ast.Name) and v.func.id == "len":
                return _copy.deepcopy(v)
            return n
    return R().visit(_copy.deepcopy(e))


def _must_pass_helpers(ctx, fi) -> List[FunctionInfo]:
    """methods of the same object (or functions of the same module) that every normal path of fi calls"""
    g = ctx.cfg(fi)
    out = []
    for n in g.nodes.values():
        if n.kind != "stmt" or not isinstance(n.ast, (ast.Expr, ast.Assign)):
            continue
        c = n.ast.value
        if not isinstance(c, ast.Call):
            continue
        callee = None
        if isinstance(c.func, ast.Attribute) and isinstance(c.func.value, ast.Name) and c.func.value.id == fi.self_name and fi.cls is not None:
            callee = fi.cls.lookup(c.func.attr)
        elif isinstance(c.func, ast.Name):
            b = fi.resolve(c.func.id)
            if b is not None and b.kind == "func" and b.target.module is fi.module:
                callee = b.target
        if callee is None or callee is fi:
            continue
        if g.must_pass(g.entry, g.exit, through_nodes={n.id}):
            out.append(callee)
            _CALL_NODE[(fi.qual, callee.qual)] = n.id
    return out


_CALL_NODE: Dict[Tuple[str, str], int] = {}


def stores_before(ctx, fi, node_id: int, fields) -> List[ast.AST]:
    """assignments to self.<field> (field in `fields`, written `self.f`) from which the node can still be reached: the
    validated collection has been replaced before the validation looks at it"""
    g = ctx.cfg(fi)
    sn = fi.self_name
    names = {f.split(".", 1)[1] for f in fields if f.startswith("self.")}
    out = []
    if sn is None or not names:
        return out
    for n in g.nodes.values():
        a = n.ast
        if n.kind == "stmt" and isinstance(a, ast.Assign):
            for t in a.targets:
                if isinstance(t, ast.Attribute) and isinstance(t.value, ast.Name) and t.value.id == sn and t.attr in names:
                    if node_id in g.reach([n.id]) and n.id != node_id:
                        out.append(a)
    return out


def check_guard(ctx, res, ob: GuardOb, rule="R15.1", prop_res=None, _fi=None, _depth=0) -> bool:
    fi = _fi if _fi is not None else ctx.repo.fn(ob.fn, ob.module)
    emit = _fi is None
    g = ctx.cfg(fi)
    guards = rejection_guards(ctx, fi)
    good = []
    rejected_detail = []
    for nid, rej, acc in guards:
        e = g.nodes[nid].ast
        visited: List[ast.AST] = []
        deps = cond_deps(ctx, fi, e, visited)
        # locals of an inlined private helper carry a hygiene prefix (`_inl7_point`): the name the helper's author chose is `point`
        deps = set(deps) | {re.sub(r"^(_inl\d+_)+", "", d_) for d_ in deps if isinstance(d_, str) and d_.startswith("_inl")}
        if ob.inputs_any and not (deps & ob.inputs_any):
            rejected_detail.append("`%s`: does not depend on %s" % (txt(e)[:50], sorted(ob.inputs_any)))
            continue
        if ob.inputs_all and not (ob.inputs_all <= deps):
            rejected_detail.append("`%s`: does not depend on all of %s" % (txt(e)[:50], sorted(ob.inputs_all)))
            continue
        if ob.eps and not any(eps_aware(ctx, fi, x) for x in visited):
            rejected_detail.append("`%s`: evaluation never reads get_eps()" % txt(e)[:50])
            continue
        if ob.direction_pair is not None:
            sd = None
            for x in visited:
                sd = sd or scale_dependent_compare(fi, x, tuple(ob.direction_pair))
            if sd is not None:
                rejected_detail.append("`%s`: compares `%s`, which scales with the lengths of %s (degree %s), with an absolute "
                                       "tolerance: short independent vectors are rejected and long nearly parallel ones accepted" % (
                                           txt(e)[:50], txt(sd[0])[:50], " and ".join(ob.direction_pair), sd[1]))
                continue
        if ob.container_type is not None:
            okc = False
            seen_t = set()
            for x in visited:
                for c in ast.walk(x):
                    if isinstance(c, ast.Compare) and len(c.ops) == 1 and isinstance(c.ops[0], (ast.In, ast.NotIn)):
                        ty = set(map(str, ctx.types.types_at(fi, c.comparators[0])))
                        seen_t |= ty
                        if ty == {ob.container_type}:
                            okc = True
            if not okc:
                rejected_detail.append("`%s`: tests membership in %s, the statement is about the %s" % (
                    txt(e)[:50], sorted(seen_t) or "nothing", ob.container_type))
                continue
        if ob.min_accept is not None:
            # the counted collection is the named one, or any local derived from the validated input
            def _subj(nm, _ob=ob):
                if nm == _ob.subject:
                    return True
                return bool(_ob.inputs_any) and nm not in fi.params and bool(
                    cond_deps(ctx, fi, ast.Name(id=nm, ctx=ast.Load())) & _ob.inputs_any)
            sem = _int_guard_semantics(expand_guard(fi, e, ob.param_consts), rej, _subj)
            if sem is None:
                rejected_detail.append("`%s`: not a count comparison on %s" % (txt(e)[:50], ob.subject))
                continue
            want = set(range(0, ob.min_accept))
            if not (want <= sem) or ob.min_accept in sem:
                rejected_detail.append("`%s`: rejects %s, must reject exactly the counts below %d" % (
                    txt(e)[:50], sorted(sem), ob.min_accept))
                continue
        good.append((nid, rej, acc))
    # a call of a validating helper is a guard too:  check_nonzero_vector(b, "Segment")  rejects exactly when the helper's
    # own guard (on the parameter that receives the operand) does; the statement is passed only by accepted inputs
    call_guards = []
    if _depth < 3:
        for n in g.nodes.values():
            if n.kind != "stmt" or not isinstance(n.ast, (ast.Expr, ast.Assign)) or not isinstance(n.ast.value, ast.Call):
                continue
            c = n.ast.value
            if not isinstance(c.func, ast.Name) or c.keywords and any(k.arg is None for k in c.keywords):
                continue
            b = fi.resolve(c.func.id)
            if b is None or b.kind != "func" or b.target.cls is not None or b.target is fi or any(isinstance(a, ast.Starred) for a in c.args):
                continue
            h = b.target
            rename: Dict[str, Set[str]] = {}
            consts = {}
            pairs = list(zip(h.params, c.args)) + [(k.arg, k.value) for k in c.keywords if k.arg in h.params]
            given = {p_ for p_, _ in pairs}
            ds = list(h.defaults)
            for p_, d_ in zip(h.params[len(h.params) - len(ds):], ds):
                if p_ not in given and isinstance(d_, ast.Constant):
                    consts[p_] = d_.value
            for p_, a_ in pairs:
                if isinstance(a_, ast.Constant):
                    consts[p_] = a_.value
                    continue
                adeps = cond_deps(ctx, fi, a_) | {txt(a_)}
                for x in ob.inputs_all | ob.inputs_any | set(ob.iterates or ()) | ({ob.subject} if ob.subject else set()):
                    if x in adeps:
                        rename.setdefault(x, set()).add(p_)
            if not rename:
                continue
            mob = ob.mapped(rename, consts)
            if not mob._complete:
                continue
            if check_guard(ctx, res, mob, rule, prop_res, _fi=h, _depth=_depth + 1):
                call_guards.append(n.id)
    where = fi.where()
    construct = "%s: %s" % (fi.short, ob.label)
    if call_guards and not ob.loop:
        cut_c = {(nid, y, l) for nid in call_guards for y, l in g.succ[nid]}
        cut_g = {(nid, y, l) for nid, rej, acc in good for y, l in g.succ[nid] if l == acc}
        # passing the call node IS passing the guard: cut the node itself
        if g.path(g.entry, g.exit, avoid_edges=cut_g, avoid_nodes=set(call_guards)) is None:
            if emit:
                res.ob(rule, where, construct, True, "validated by %s on every normal path" % ", ".join(sorted(
                    {"`%s`" % txt(g.nodes[nid].ast)[:50] for nid in call_guards} | {"`%s`" % txt(g.nodes[n_].ast)[:40] for n_, _, _ in good})))
            return True
    if call_guards and ob.loop:
        if g.path(g.entry, g.exit, avoid_nodes=set(call_guards)) is None:
            if emit:
                res.ob(rule, where, construct, True, "every element validated by %s on every normal path" % ", ".join(
                    sorted("`%s`" % txt(g.nodes[nid].ast)[:50] for nid in call_guards)))
            return True
    if not good and _depth < 3:
        # the validation may live in a helper that every normal path calls (`self._check_closed_and_oriented()`)
        for callee in _must_pass_helpers(ctx, fi):
            if check_guard(ctx, res, ob, rule, prop_res, _fi=callee, _depth=_depth + 1):
                late = stores_before(ctx, fi, _CALL_NODE.get((fi.qual, callee.qual), -1), ob.iterates or ()) if ob.loop else []
                if late:
                    if emit:
                        why = "the validation in %s runs after `%s`: it only sees what that assignment kept" % (callee.short, txt(late[0])[:60])
                        res.ob(rule, where, construct, False, why)
                        res.violation(rule, fi, late[0], "%s -- %s" % (ob.wording, why), construct=construct + " (validated after re-assignment)")
                    return False
                if emit:
                    res.ob(rule, where, construct, True, "validated in %s, which every normal path of %s calls" % (callee.short, fi.short))
                return True
    if not emit:
        if not good:
            return False
        cut = {(nid, y, l) for nid, rej, acc in good for y, l in g.succ[nid] if l == acc}
        if ob.loop:
            return _loop_guard(ctx, fi, g, good, cut, ob)[0]
        return g.path(g.entry, g.exit, avoid_edges=cut) is None
    if not good:
        why = "no rejection guard for this obligation" + (": " + "; ".join(rejected_detail) if rejected_detail else "")
        res.ob(rule, where, construct, False, why)
        res.violation(rule, fi, fi.node,
                      "%s -- %s (%s)" % (ob.wording, "no qualifying rejection guard on the normal paths", why),
                      construct=construct, detail={"candidates rejected": rejected_detail})
        return False
    cut = set()
    for nid, rej, acc in good:
        for y, l in g.succ[nid]:
            if l == acc:
                cut.add((nid, y, l))
    if ob.loop:
        ok, why = _loop_guard(ctx, fi, g, good, cut, ob)
        if ok and ob.iterates:
            for nid_, _, _ in good:
                for hdr in g.nodes[nid_].loops:
                    late = stores_before(ctx, fi, hdr, ob.iterates)
                    if late:
                        ok, why = False, "the validating loop runs after `%s`: it only sees what that assignment kept" % txt(late[0])[:60]
    else:
        bypass = g.path(g.entry, g.exit, avoid_edges=cut)
        ok = bypass is None
        why = "" if ok else "a normal path bypasses the guard: " + " -> ".join(g.path_text(bypass))
        if not ok:
            for nid_, _r, _a in good:
                sr = _split_recheck(ctx, fi, g, nid_, ob)
                if sr is not None and _loop_guard(ctx, fi, g, [(nid_, _r, _a)], cut, GuardOb(ob.fn, ob.label, ob.wording, loop=True))[0]:
                    ok, why = True, ""
                    split_note = sr
                    break
    if ok and not ob.loop and "split_note" in locals():
        res.ob(rule, where, construct, True, split_note)
        return True
    facts = "guard(s) %s on every normal path%s" % (
        ", ".join("`%s` (line %s)" % (txt(g.nodes[n].ast)[:40], getattr(g.nodes[n].ast, "lineno", "?")) for n, _, _ in good),
        "; reads the live tolerance" if ob.eps else "")
    res.ob(rule, where, construct, ok, facts if ok else why)
    if not ok:
        res.violation(rule, fi, g.nodes[good[0][0]].ast, "%s -- %s" % (ob.wording, why), construct=construct,
                      detail={"guards considered": [txt(g.nodes[n].ast) for n, _, _ in good]})
    return ok


def _block_expand(stmts, e: ast.AST, skip=()) -> ast.AST:
    """copy of e with the names assigned exactly once inside `stmts` (plain `x = expr`) replaced by their expressions"""
    import copy as _copy
    cnt: Dict[str, int] = {}
    val: Dict[str, ast.AST] = {}
    for st in stmts:
        for n in ast.walk(st):
            if isinstance(n, ast.Assign) and len(n.targets) == 1 and isinstance(n.targets[0], ast.Name):
                cnt[n.targets[0].id] = cnt.get(n.targets[0].id, 0) + 1
                val[n.targets[0].id] = n.value
            elif isinstance(n, (ast.AugAssign, ast.For)) and isinstance(getattr(n, "target", None), ast.Name):
                cnt[n.target.id] = cnt.get(n.target.id, 0) + 2
    defs = {k: v for k, v in val.items() if cnt.get(k) == 1 and k not in skip}

    class R(ast.NodeTransformer):
        def __init__(self, d):
            self.d = d

        def visit_Name(self, n):
            if isinstance(n.ctx, ast.Load) and n.id in defs and self.d > 0:
                return R(self.d - 1).visit(_copy.deepcopy(defs[n.id]))
            return n
    return R(4).visit(_copy.deepcopy(e))


def _split_recheck(ctx, fi, g, nid: int, ob) -> Optional[str]:
    """The rejecting test sits in a loop over a local list L (so zero iterations bypass it), but L is exactly the list of
    the elements for which the SAME predicate held in an earlier loop over the whole validated collection:

        for x in C:                      # every element
            if P(x):  y = T(x); ...; L.append(y)
        for y in L:
            if P(y):  raise

    Every element either failed P in the first loop or is tested again in the second: P-violators are rejected.
    Returns the justification, or None when the shape is different."""
    node = g.nodes[nid]
    if not node.loops:
        return None
    h2 = g.nodes[node.loops[-1]] if isinstance(node.loops, (list, tuple)) else None
    if h2 is None or not isinstance(h2.ast, ast.For) or not isinstance(h2.ast.iter, ast.Name) or not isinstance(h2.ast.target, ast.Name):
        return None
    L = h2.ast.iter.id
    if L in fi.params or not g.must_pass(g.entry, g.exit, through_nodes={h2.id}):
        return None
    par = {}
    for n in ast.walk(fi.node):
        for ch in ast.iter_child_nodes(n):
            par[id(ch)] = n
    inits, appends, other = [], [], []
    for n in walk_local(fi.node):
        if isinstance(n, ast.Assign) and any(isinstance(t, ast.Name) and t.id == L for t in n.targets):
            (inits if isinstance(n.value, ast.List) and not n.value.elts else other).append(n)
        elif isinstance(n, ast.Call) and isinstance(n.func, ast.Attribute) and isinstance(n.func.value, ast.Name) and n.func.value.id == L:
            if n.func.attr == "append" and len(n.args) == 1:
                appends.append(n)
            elif n.func.attr not in ("__len__", "copy", "index", "count"):
                other.append(n)
        elif isinstance(n, (ast.AugAssign,)) and isinstance(n.target, ast.Name) and n.target.id == L:
            other.append(n)
    if len(inits) != 1 or not appends or other:
        return None
    guard_e = g.nodes[nid].ast
    p2 = txt(_subst_name(_block_expand(h2.ast.body, guard_e, skip=(h2.ast.target.id,)), h2.ast.target.id, "ELEMENT"))
    for ap in appends:
        # the enclosing if (then-branch) and the enclosing loop over the validated collection
        cur = ap
        cif = None
        h1 = None
        while id(cur) in par:
            up = par[id(cur)]
            if isinstance(up, ast.If) and cif is None and any(cur is b or any(cur is z for z in ast.walk(b)) for b in up.body):
                cif = up
            if isinstance(up, ast.For):
                h1 = up
                break
            cur = up
        if cif is None or h1 is None or h1 is h2.ast:
            return None
        h1n = [n for n in g.nodes.values() if n.kind == "loop" and n.ast is h1]
        if not h1n or not g.must_pass(g.entry, h2.id, through_nodes={h1n[0].id}):
            return None
        itdeps = cond_deps(ctx, fi, h1.iter)
        colls = {x for x in ob.inputs_all | ob.inputs_any if x in itdeps}
        if not colls:
            return None
        # the element of the first loop: its target, or the local read from C[i]
        elem = None
        if isinstance(h1.target, ast.Name):
            it_t = txt(h1.iter)
            if it_t.startswith("range(len("):
                for st in h1.body:
                    if isinstance(st, ast.Assign) and len(st.targets) == 1 and isinstance(st.targets[0], ast.Name) \
                            and isinstance(st.value, ast.Subscript) and isinstance(st.value.slice, ast.Name) and st.value.slice.id == h1.target.id:
                        elem = st.targets[0].id
            else:
                elem = h1.target.id
        elif isinstance(h1.target, ast.Tuple) and len(h1.target.elts) == 2 and isinstance(h1.target.elts[1], ast.Name) \
                and txt(h1.iter).startswith("enumerate("):
            elem = h1.target.elts[1].id
        if elem is None:
            return None
        p1 = txt(_subst_name(_block_expand(h1.body, cif.test, skip=(elem,)), elem, "ELEMENT"))
        if p1 != p2:
            return None
        # what is appended derives from the tested element
        y = ap.args[0]
        ydeps = {n.id for n in ast.walk(_block_expand(h1.body, y, skip=(elem,))) if isinstance(n, ast.Name)}
        if elem not in ydeps:
            return None
    return ("`%s` collects exactly the elements of %s for which `%s` held; the loop at line %d tests each of them again and raises: "
            "every element either failed the test or is re-tested" % (L, "/".join(sorted(colls)), txt(guard_e)[:50], h2.ast.lineno))


def _subst_name(e: ast.AST, name: str, repl: str) -> ast.AST:
    class R(ast.NodeTransformer):
        def visit_Name(self, n):
            if n.id == name:
                return ast.copy_location(ast.Name(id=repl, ctx=n.ctx), n)
            return n
    return R().visit(e)


def _loop_guard(ctx, fi, g, good, cut, ob) -> Tuple[bool, str]:
    loops = [n for n in g.nodes.values() if n.kind == "loop"]
    tried = []
    for h in loops:
        inside = [x for x in good if h.id in g.nodes[x[0]].loops]
        if not inside:
            continue
        # the loop header lies on every normal path
        if not g.must_pass(g.entry, g.exit, through_nodes={h.id}):
            tried.append("loop at line %d can be skipped" % h.ast.lineno)
            continue
        # the loop iterates the validated collection
        if ob.iterates:
            itdeps = cond_deps(ctx, fi, h.ast.iter)
            if not (itdeps & set(ob.iterates)):
                tried.append("loop at line %d does not iterate %s" % (h.ast.lineno, sorted(ob.iterates)))
                continue
        # the check is about the element of this iteration: it depends on the loop variable
        tnames = {x.id for x in ast.walk(h.ast.target) if isinstance(x, ast.Name)}
        if tnames and not any(cond_deps(ctx, fi, g.nodes[x[0]].ast) & tnames for x in inside):
            tried.append("the check in the loop at line %d does not depend on the loop variable %s" % (h.ast.lineno, sorted(tnames)))
            continue
        # inside the body every path from the body entry back to the header (or out) crosses an accepting edge
        starts = [y for y, l in g.succ[h.id] if l == "iter"]
        r = g.reach(starts, avoid_edges=cut, avoid_nodes=set())
        # h reachable again without crossing an accepting edge => bypass
        back = any((y == h.id and (x, y, l) not in cut) for x in r for y, l in g.succ[x])
        leaves = g.exit in r
        if back or leaves:
            p = None
            for x in r:
                for y, l in g.succ[x]:
                    if y == h.id and (x, y, l) not in cut:
                        p = g.path(starts[0], x, avoid_edges=cut)
            tried.append("an iteration of the loop at line %d can complete without the check%s" % (
                h.ast.lineno, (": " + " -> ".join(g.path_text(p))) if p else ""))
            continue
        return True, ""
    return False, "; ".join(tried) if tried else "the guard is not inside a loop over the validated collection"


def must_call(ctx, res, fn, callee_attr, rule, wording, module=None):
    """every normal path of `fn` executes a statement calling self.<callee_attr>()"""
    fi = ctx.repo.fn(fn, module)
    g = ctx.cfg(fi)
    nodes = set()
    for n in g.nodes.values():
        if n.kind in ("stmt", "cond", "return") and n.ast is not None:
            for c in ast.walk(n.ast):
                if isinstance(c, ast.Call) and isinstance(c.func, ast.Attribute) and c.func.attr == callee_attr \
                        and isinstance(c.func.value, ast.Name) and c.func.value.id == fi.self_name:
                    nodes.add(n.id)
    ok = bool(nodes) and g.must_pass(g.entry, g.exit, through_nodes=nodes)
    res.ob(rule, fi.where(), "%s calls %s" % (fi.short, callee_attr), ok,
           "every normal path passes through the call" if ok else "a normal path skips the call")
    if not ok:
        p = g.path(g.entry, g.exit, avoid_nodes=nodes)
        res.violation(rule, fi, fi.node, "%s -- a normal path of %s does not call %s: %s" % (
            wording, fi.short, callee_attr, " -> ".join(g.path_text(p or []))),
                      construct="%s must call %s" % (fi.short, callee_attr))
    return ok


def r156_tolerance_power(ctx, res):
    """R15.6: a length is compared with the tolerance, a squared length with the squared tolerance.  `dv.length() < eps ** 2`
    accepts every direction longer than 1e-20: the zero-length test is there in form only."""
    n = 0
    seen_fn = set()
    for ob in EXPLICIT:
        try:
            fi = ctx.repo.fn(ob.fn, ob.module) if getattr(ob, "module", None) else ctx.repo.fn(ob.fn)
        except Exception:
            fi = None
        if fi is None or fi.qual in seen_fn:
            continue
        seen_fn.add(fi.qual)

        def eps_power(e):
            if isinstance(e, ast.Call) and isinstance(e.func, ast.Name) and e.func.id == "get_eps":
                return 1
            if isinstance(e, ast.Name) and e.id in ("eps", "tol", "tolerance"):
                return 1
            if isinstance(e, ast.BinOp) and isinstance(e.op, ast.Pow) and const_num_(e.right) is not None:
                b_ = eps_power(e.left)
                return None if b_ is None else b_ * const_num_(e.right)
            if isinstance(e, ast.BinOp) and isinstance(e.op, ast.Mult):
                l_, r_ = eps_power(e.left), eps_power(e.right)
                if l_ is not None and r_ is not None:
                    return l_ + r_
                if l_ is not None and const_num_(e.right) is not None:
                    return l_
                if r_ is not None and const_num_(e.left) is not None:
                    return r_
            return None

        def len_power(e):
            if isinstance(e, ast.Call) and isinstance(e.func, ast.Attribute) and e.func.attr == "length" and not e.args:
                return 1
            if isinstance(e, ast.Call) and isinstance(e.func, ast.Name) and e.func.id == "abs" and len(e.args) == 1:
                return len_power(e.args[0])
            if isinstance(e, ast.BinOp) and isinstance(e.op, ast.Pow) and const_num_(e.right) is not None:
                b_ = len_power(e.left)
                return None if b_ is None else b_ * const_num_(e.right)
            if isinstance(e, ast.BinOp) and isinstance(e.op, ast.Mult) and txt(e.left) == txt(e.right) \
                    and {str(t) for t in ctx.types.types_at(fi, e.left) if not isinstance(t, tuple)} == {"Vector"}:
                return 2  # v * v: the squared length
            return None

        for c in walk_local(fi.node):
            if not (isinstance(c, ast.Compare) and len(c.ops) == 1 and isinstance(c.ops[0], (ast.Lt, ast.LtE, ast.Gt, ast.GtE))):
                continue
            for q_, t_ in ((c.left, c.comparators[0]), (c.comparators[0], c.left)):
                pe, pl = eps_power(t_), len_power(q_)
                if pe is None or pl is None:
                    continue
                n += 1
                ok = pe == pl
                res.ob("R15.6", fi.where(c), "%s: `%s`" % (fi.short, txt(c)[:50]), ok,
                       "length to the power %s against the tolerance to the power %s" % (pl, pe))
                if not ok:
                    res.violation("R15.6", fi, c, "%s compares a length to the power %s with the tolerance to the power %s (`%s`): the two sides "
                                  "of the zero-length test are in different units, so the test rejects almost nothing (or far too much) -- "
                                  "a degenerate object within the tolerance is returned" % (fi.short, pl, pe, txt(c)[:60]),
                                  construct="%s: tolerance power `%s`" % (fi.short, txt(c)[:40]))
    if n == 0:
        res.note("no zero-length test of the form length <op> tolerance in the validated constructors; R15.6 has no instance")


def const_num_(e):
    from ..astutil import const_num
    return const_num(e)


def r155_vertex_merging(ctx, res):
    """R15.5: 'a polygon with fewer than three distinct vertices' is rejected because repeated vertices are merged before the
    first three stored vertices define the plane (the shortened list then fails).  The value stored into self.points must
    pass through a duplicate-merging construct."""
    from ..astutil import expand_locals
    fi = ctx.repo.fn("ConvexPolygon.__init__")
    sn = fi.self_name
    stores = [s_ for s_ in walk_local(fi.node) if isinstance(s_, ast.Assign) and any(txt(t) == "%s.points" % sn for t in s_.targets)]
    if not stores:
        raise AnalysisError("%s: ConvexPolygon.__init__ does not store self.points" % fi.where())
    st = min(stores, key=lambda s_: s_.lineno)
    v = expand_locals(fi.node, st.value, fi.params)

    def merges(e) -> Optional[str]:
        for x in ast.walk(e):
            if isinstance(x, ast.Call) and isinstance(x.func, ast.Name) and x.func.id in ("set", "frozenset") and x.args:
                return "`%s(...)`" % x.func.id
            if isinstance(x, ast.Call) and txt(x.func) in ("dict.fromkeys", "OrderedDict.fromkeys", "collections.OrderedDict.fromkeys"):
                return "`%s(...)`" % txt(x.func)
            if isinstance(x, (ast.SetComp, ast.DictComp)):
                return "a set / dict comprehension"
        return None

    how = merges(v)
    if how is None:
        # a helper of the package that returns the merged list (`distinct_points(points)`): its returns are examined the same way
        for c_ in [c for c in ast.walk(v) if isinstance(c, ast.Call) and isinstance(c.func, ast.Name)]:
            b_ = fi.resolve(c_.func.id)
            if b_ is not None and b_.kind == "func":
                h = b_.target
                for r_ in walk_local(h.node):
                    if isinstance(r_, ast.Return) and r_.value is not None:
                        hv = expand_locals(h.node, r_.value, h.params)
                        m_ = merges(hv)
                        if m_:
                            how = "%s in %s" % (m_, h.short)
    if how is None:
        # a list filled in a loop behind a membership filter:  if p not in out: out.append(p)
        for nm in {x.id for x in ast.walk(v) if isinstance(x, ast.Name)}:
            for n_ in walk_local(fi.node):
                if isinstance(n_, ast.If) and any(isinstance(c, ast.Compare) and len(c.ops) == 1 and isinstance(c.ops[0], ast.NotIn)
                                                  and txt(c.comparators[0]) == nm for c in ast.walk(n_.test)) \
                        and any(isinstance(c, ast.Call) and txt(c.func) in ("%s.append" % nm, "%s.add" % nm) for b in n_.body for c in ast.walk(b)):
                    how = "a membership filter on `%s`" % nm
    if how is None:
        calls = [c for c in ast.walk(v) if isinstance(c, ast.Call) and not (isinstance(c.func, ast.Name) and fi.resolve(c.func.id) is None)
                 and txt(c.func) not in ("copy.deepcopy", "copy.copy")]
        unknown = [c for c in calls if not (isinstance(c.func, ast.Attribute) and c.func.attr in ("index", "copy"))]
        if unknown:
            raise AnalysisError("%s: whether `%s` merges repeated vertices is not decided" % (fi.where(st), txt(unknown[0])[:50]))
    res.ob("R15.5", fi.where(st), "ConvexPolygon.__init__: repeated vertices are merged", how is not None,
           "the stored vertex list goes through %s" % how if how else "`%s` keeps every repetition" % txt(st)[:60])
    if how is None:
        res.violation("R15.5", fi, st,
                      "a polygon with fewer than three distinct vertices must be rejected -- ConvexPolygon.__init__ stores `%s` without "
                      "merging repeated vertices: a vertex list whose points coincide within the tolerance keeps its length, passes the "
                      "count test, and the near-zero (but non-zero) normal of the first three builds a plane, so a polygon with two "
                      "distinct vertices is returned" % txt(st.value)[:60], construct="ConvexPolygon.__init__ vertex merging")


EXPLICIT = [
    GuardOb("Line.__init__", "zero direction", "a zero-length Line must be rejected",
            inputs_any={"b", "self.dv"}, eps=True),
    GuardOb("Segment.__init__", "identical points / zero vector", "a zero-length Segment must be rejected",
            inputs_all={"b"}, eps=True),
    GuardOb("HalfLine.__init__", "identical points / zero vector", "a zero-length HalfLine must be rejected",
            inputs_all={"b"}, eps=True),
    GuardOb("ConvexPolygon.__init__", "vertex count", "a polygon with fewer than three vertices must be rejected",
            inputs_any={"pts"}, min_accept=3, subject="points"),
    GuardOb("ConvexPolygon._check_and_sort_points", "coplanarity of every vertex",
            "a polygon with non-coplanar vertices must be rejected", inputs_all={"point", "self.plane"},
            eps=True, loop=True, iterates={"self.points"}, container_type="Plane"),
    GuardOb("ConvexPolygon.Parallelogram", "dependent edge vectors", "a parallelogram with dependent edge vectors must be rejected",
            inputs_all={"v1", "v2"}, eps=True, direction_pair=("v1", "v2")),
    GuardOb("ConvexPolyhedron.Parallelepiped", "dependent v1, v2", "a parallelepiped with dependent edge vectors must be rejected",
            inputs_all={"v1", "v2"}, eps=True, direction_pair=("v1", "v2", "v3")),
    GuardOb("ConvexPolyhedron.Parallelepiped", "dependent v1, v3", "a parallelepiped with dependent edge vectors must be rejected",
            inputs_all={"v1", "v3"}, eps=True, direction_pair=("v1", "v2", "v3")),
    GuardOb("ConvexPolyhedron.Parallelepiped", "dependent v2, v3", "a parallelepiped with dependent edge vectors must be rejected",
            inputs_all={"v2", "v3"}, eps=True, direction_pair=("v1", "v2", "v3")),
    GuardOb("Pyramid.__init__", "apex in base plane", "a pyramid whose apex lies in its base plane must be rejected",
            inputs_all={"p", "cp"}, eps=True, container_type="Plane"),
    GuardOb("ConvexPolyhedron.__init__", "outward normals", "a face set that is not a closed convex polyhedron must be rejected (normal check)",
            inputs_all={"self.center_point", "self.convex_polygons"}, eps=True),
    GuardOb("ConvexPolyhedron.__init__", "closedness (Euler)", "a face set that is not a closed polyhedron must be rejected (Euler check)",
            inputs_all={"self.point_set", "self.segment_set", "self.convex_polygons"}),
    GuardOb("get_circle_point_list", "n >= 3", "a circle with n < 3 must be rejected",
            inputs_any={"n"}, min_accept=3, subject="n"),
    GuardOb("get_segment_from_point_list", "at least two points", "the collinear-points helper must reject fewer than two points",
            inputs_any={"point_list"}, min_accept=2, subject="point_list", module="calc.aux_calc"),
    GuardOb("get_segment_from_point_list", "collinearity of every further point",
            "the collinear-points helper must reject non-collinear points", inputs_all={"point_list"},
            eps=True, loop=True, iterates={"point_list"}, module="calc.aux_calc"),
]

# operations that must raise on unsupported operand types: (function, module, predicate on context)
WRONG_TYPE_CTORS = {
    "Segment": [("num", "num"), ("Point", "num"), ("Vector", "Point"), ("Vector", "Vector"), ("num", "Point")],
    "HalfLine": [("num", "num"), ("Point", "num"), ("Vector", "Point"), ("Vector", "Vector"), ("num", "Point")],
    "Pyramid": [("Point", "Point"), ("ConvexPolygon", "Vector"), ("num", "Point")],
}
SUPPORTED = {
    "distance": {("Point", "Point"), ("Point", "Line"), ("Line", "Point"), ("Line", "Line"), ("Point", "Plane"),
                 ("Plane", "Point"), ("Line", "Plane"), ("Plane", "Line")},
    "angle": {("Line", "Line"), ("Line", "Plane"), ("Plane", "Line"), ("Plane", "Plane"), ("Vector", "Vector")},
}
SUPPORTED["parallel"] = SUPPORTED["orthogonal"] = SUPPORTED["angle"]


def _arg_tags(bound) -> Tuple[str, ...]:
    out = []
    for _, v in bound:
        out.append(show(v))
    return tuple(out)


def r152_unsupported(ctx, res):
    """unsupported operand types raise (abstract evaluation on the unsupported type)"""
    repo, eng = ctx.repo, ctx.types
    n = 0

    bad: Dict[str, list] = {}

    def check(fi, bound, sm, what):
        nonlocal n
        n += 1
        where = fi.where()
        construct = "%s%s" % (fi.short, what)
        ok = not sm.normal and not sm.ret  # no path returns normally: every path ends in a raise
        fact = "every path raises" if ok else "may return %s" % show(sm.ret)
        res.ob("R15.2", where, construct, ok, fact)
        if not ok:
            node = fi.node
            for r in walk_local(fi.node):
                if isinstance(r, ast.Return) and id(r) in sm.reached:
                    node = r
            bad.setdefault(fi.qual, []).append((fi, node, what, show(sm.ret)))

    # the calc dispatchers
    for name, mod in (("intersection", "calc.intersection"), ("distance", "calc.distance"), ("angle", "calc.angle"),
                      ("parallel", "calc.angle"), ("orthogonal", "calc.angle"), ("volume", "calc.volume")):
        fi = repo.fn(name, mod)
        for bound, sm in eng.summaries_of(fi):
            tags = _arg_tags(bound)
            if name == "intersection":
                unsupported = any(t not in GEOM7 + ["None"] for t in tags)
            elif name == "volume":
                unsupported = tags[0] not in ("Pyramid", "ConvexPolyhedron")
            else:
                unsupported = tags not in SUPPORTED[name]
            if "|" in "".join(tags):
                continue  # joined context, not a single operand type
            if unsupported:
                check(fi, bound, sm, str(tags))
    # move with a non-Vector
    for cname in GEOM7:
        m = repo.cls(cname).lookup("move")
        if m is None:
            raise AnalysisError("%s has no move method" % cname)
        for bound, sm in eng.summaries_of(m):
            tags = _arg_tags(bound)
            if len(tags) == 2 and tags[0] == cname and tags[1] != "Vector":
                check(m, bound, sm, "(%s)" % tags[1])
    # constructors / builders with wrong operand types
    for cname, combos in WRONG_TYPE_CTORS.items():
        init = repo.cls(cname).lookup("__init__")
        for combo in combos:
            sm = eng.summary(init, (S(cname),) + tuple(S(t) for t in combo))
            if sm is None:
                raise AnalysisError("no summary for %s%s" % (cname, combo))
            check(init, None, sm, str(combo))
    for short, prefix in (("ConvexPolygon.Parallelogram", "ConvexPolygon"), ("ConvexPolyhedron.Parallelepiped", "ConvexPolyhedron")):
        fi = repo.fn(short)
        for bound, sm in eng.summaries_of(fi):
            tags = _arg_tags(bound)[1:]
            good = ("Point",) + ("Vector",) * (len(tags) - 1)
            if tags != good and "|" not in "".join(tags):
                check(fi, bound, sm, str(tags))
    for q, items in sorted(bad.items()):
        fi, node = items[0][0], items[0][1]
        res.violation("R15.2", fi, node,
                      "%s with unsupported operand types returns a value instead of raising: %s" % (
                          fi.short, "; ".join("%s -> %s" % (w, r) for _, _, w, r in items[:8])),
                      construct="%s accepts unsupported operand types" % fi.short)
    ctx.require(res, "R15.2", n, 120, "unsupported-operand contexts")


OPERATIONS_IN_SCOPE = {"intersection", "distance", "angle", "parallel", "orthogonal", "volume", "move", "__init__",
                       "Parallelogram", "Parallelepiped", "Circle", "Sphere", "Cylinder", "Cone",
                       "get_circle_point_list", "get_segment_from_point_list", "_init_pn", "_init_gf",
                       "_check_and_sort_points"}


def r153_raise_not_return(ctx, res):
    eng = ctx.types
    n = 0
    for fi in ctx.repo.functions(include_visualization=False):
        for r in walk_local(fi.node):
            if not (isinstance(r, ast.Return) and r.value is not None):
                continue
            ty = eng.types_at(fi, r.value)
            n += 1
            syn = (isinstance(r.value, ast.Call) and isinstance(r.value.func, ast.Name)
                   and r.value.func.id in BUILTIN_EXC and fi.resolve(r.value.func.id) is None)
            if "Exc" not in ty and not syn:
                continue
            in_scope = fi.name in OPERATIONS_IN_SCOPE
            if in_scope:
                res.ob("R15.3", fi.where(r), "%s: `%s`" % (fi.short, txt(r)[:60]), False, "returns an exception object")
                res.violation("R15.3", fi, r, "%s returns an exception object instead of raising it: `%s`" % (
                    fi.short, txt(r)[:80]), construct="%s returns exception" % fi.short)
            else:
                res.note("%s %s returns an exception object (`%s`); `in` is not in C15's list of operations, not a violation"
                         % (fi.where(r), fi.short, txt(r)[:50]))
    res.ob("R15.3", "package", "return statements scanned: %d" % n, True, "no other return of an exception object",
           nontrivial=False)


def _must_assigned(ctx, fi: FunctionInfo, depth=0) -> Tuple[Set[str], Set[str]]:
    """(fields assigned on every normal path, fields assigned on some path) -- through self.m() calls"""
    key = ("da", fi.qual)
    if key in ctx.cache:
        return ctx.cache[key]
    ctx.cache[key] = (set(), set())
    g = ctx.cfg(fi)
    sn = fi.self_name
    gen: Dict[int, Set[str]] = {}
    reads: Dict[int, Set[str]] = {}
    may: Set[str] = set()
    for n in g.nodes.values():
        s: Set[str] = set()
        if n.ast is not None and n.kind in ("stmt", "cond", "return", "loop"):
            tgt_nodes = []
            if isinstance(n.ast, ast.Assign):
                tgt_nodes = n.ast.targets
            elif isinstance(n.ast, (ast.AugAssign, ast.AnnAssign)):
                tgt_nodes = [n.ast.target]
            for t in tgt_nodes:
                for x in ast.walk(t):
                    if isinstance(x, ast.Attribute) and isinstance(x.value, ast.Name) and x.value.id == sn \
                            and isinstance(x.ctx, ast.Store):
                        s.add(x.attr)
            scan = n.ast if n.kind != "loop" else n.ast.iter
            # a successful read of self.f implies that f exists (otherwise AttributeError ends the path)
            for x in ast.walk(scan):
                if isinstance(x, ast.Attribute) and isinstance(x.value, ast.Name) and x.value.id == sn \
                        and isinstance(x.ctx, ast.Load) and (fi.cls is None or fi.cls.lookup(x.attr) is None):
                    reads.setdefault(n.id, set()).add(x.attr)
            for c in ast.walk(scan):
                if isinstance(c, ast.Call) and isinstance(c.func, ast.Attribute) and isinstance(c.func.value, ast.Name) \
                        and c.func.value.id == sn and fi.cls is not None and depth < 4:
                    m = fi.cls.lookup(c.func.attr)
                    if m is not None:
                        mu, ma = _must_assigned(ctx, m, depth + 1)
                        s |= mu
                        may |= ma
        gen[n.id] = s
        may |= s
    for nid, rs in reads.items():
        gen[nid] = gen[nid] | (rs & may)
    # forward must-analysis
    reach = g.reachable_nodes()
    ALL = set(may)
    IN = {n: set(ALL) for n in reach}
    IN[g.entry] = set()
    changed = True
    while changed:
        changed = False
        for n in sorted(reach):
            if n == g.entry:
                continue
            ps = [p for p, _ in g.pred[n] if p in reach]
            if not ps:
                continue
            new = set.intersection(*[(IN[p] | gen[p]) for p in ps])
            if new != IN[n]:
                IN[n] = new
                changed = True
    must = IN.get(g.exit, set()) if g.exit in reach else set(ALL)
    ctx.cache[key] = (must, may)
    return must, may


def _none_only_for_other_arity(ctx, init: FunctionInfo) -> bool:
    """__init__(self, *args) of the form
           x = helper(*args);  if x is None: return;  <assign all fields from x>
    where helper returns None only after every `len(args) == k` test has failed (an undocumented argument count): the
    early return is the fall-through of the arity dispatch, moved into a helper."""
    if not init.vararg:
        return False
    body = [s_ for s_ in init.node.body if not (isinstance(s_, ast.Expr) and isinstance(s_.value, ast.Constant))]
    if len(body) < 3 or not (isinstance(body[0], ast.Assign) and len(body[0].targets) == 1 and isinstance(body[0].targets[0], ast.Name)
                              and isinstance(body[0].value, ast.Call) and isinstance(body[0].value.func, ast.Name)):
        return False
    call = body[0].value
    if not (len(call.args) == 1 and isinstance(call.args[0], ast.Starred) and txt(call.args[0].value) == init.vararg and not call.keywords):
        return False
    x = body[0].targets[0].id
    g = body[1]
    if not (isinstance(g, ast.If) and txt(g.test) == "%s is None" % x and len(g.body) == 1 and isinstance(g.body[0], ast.Return)
            and g.body[0].value is None and not g.orelse):
        return False
    b_ = init.resolve(call.func.id)
    if b_ is None or b_.kind != "func":
        return False
    h = b_.target
    if not h.vararg or h.params:
        return False

    def leaves(stmts) -> bool:
        """every path through stmts ends in a return of a value or a raise"""
        if not stmts:
            return False
        last = stmts[-1]
        if isinstance(last, ast.Raise):
            return True
        if isinstance(last, ast.Return):
            return last.value is not None and not (isinstance(last.value, ast.Constant) and last.value.value is None)
        if isinstance(last, ast.If):
            return bool(last.orelse) and leaves(last.body) and leaves(last.orelse)
        return False

    hb = [s_ for s_ in h.node.body if not (isinstance(s_, ast.Expr) and isinstance(s_.value, ast.Constant))]
    seen_arity = 0
    for st in hb:
        if isinstance(st, ast.If) and "len(%s)" % h.vararg in txt(st.test) and not st.orelse:
            if not leaves(st.body):
                return False
            seen_arity += 1
        elif isinstance(st, ast.Return) and (st.value is None or (isinstance(st.value, ast.Constant) and st.value.value is None)):
            continue
        else:
            return False
    return seen_arity >= 1


def r154_definite_assignment(ctx, res):
    n = 0
    for cname in ["Point", "Vector", "Line", "Plane", "Segment", "HalfLine", "ConvexPolygon", "ConvexPolyhedron", "Pyramid"]:
        init = ctx.repo.cls(cname).lookup("__init__")
        if init is None:
            raise AnalysisError("%s has no __init__" % cname)
        n += 1
        must, may = _must_assigned(ctx, init)
        missing = may - must
        ok = not missing
        if ok:
            res.ob("R15.4", init.where(), cname + ".__init__", True, "all %d fields %s assigned at every normal exit" % (
                len(may), sorted(may)))
            continue
        # which paths miss them?  if only the fall-through of *all* arity tests does, it is an
        # undocumented arity (outside the statement's list): NOTE, not a violation.
        g = ctx.cfg(init)
        from ..astutil import expand_locals

        def is_arity(e):
            x = expand_locals(init.node, e, init.params)
            return "len(" in txt(x) and init.vararg and init.vararg in names_in(x)

        arity = [c for c in g.conds() if is_arity(c.ast)]
        avoid = set()
        for c in arity:
            for y, l in g.succ[c.id]:
                if l == "T":
                    avoid.add((c.id, y, l))
        only_arity = False
        if arity:
            # paths that take at least one documented-arity branch: do they assign everything?
            # => re-run the must analysis with the all-false fall-through removed is complex; approximate by
            # checking that the exit is reachable while avoiding every true edge of the arity tests
            p = g.path(g.entry, g.exit, avoid_edges=avoid)
            if p is not None:
                asg_nodes = [x for x in p if any(isinstance(g.nodes[x].ast, (ast.Assign, ast.Expr)) for _ in [0])]
                def plain_local(a):
                    return isinstance(a, ast.Assign) and all(isinstance(t, ast.Name) for t in a.targets) \
                        and not any(isinstance(z, ast.Call) and not (isinstance(z.func, ast.Name) and z.func.id == "len") for z in ast.walk(a.value))
                def harmless(a):
                    # logging / pass / docstring: no effect on the object
                    return isinstance(a, ast.Pass) or (isinstance(a, ast.Expr) and (isinstance(a.value, ast.Constant) or (
                        isinstance(a.value, ast.Call) and txt(a.value.func).startswith("get_main_logger()."))))
                only_arity = not any(isinstance(g.nodes[x].ast, (ast.Assign, ast.AugAssign, ast.Expr)) and not plain_local(g.nodes[x].ast)
                                     and not harmless(g.nodes[x].ast) for x in p)
        if not only_arity:
            only_arity = _none_only_for_other_arity(ctx, init)
        if only_arity:
            res.ob("R15.4", init.where(), cname + ".__init__", True,
                   "fields %s are assigned on every documented form; an undocumented argument count falls through" % sorted(may),
                   nontrivial=False)
            res.note("%s %s.__init__ returns an object without %s when called with an undocumented number of arguments "
                     "(outside C15's list of invalid inputs; not a violation)" % (init.where(), cname, sorted(missing)))
        else:
            res.ob("R15.4", init.where(), cname + ".__init__", False, "fields %s may be unassigned at a normal exit" % sorted(missing))
            res.violation("R15.4", init, init.node, "%s.__init__ can return normally without assigning %s" % (
                cname, sorted(missing)), construct=cname + ".__init__ definite assignment")
    ctx.require(res, "R15.4", n, 9, "constructors")


def run(ctx, res):
    res.explanation = (
        "CFG decision that each validation named in C15 is a rejection guard (a condition one of whose edges leads "
        "only to raise) lying on every normal path of its constructor/helper, data-dependent on the inputs it "
        "validates, tolerance-aware where near-degenerate inputs are named (its evaluation transitively reads "
        "get_eps()), with the right count threshold; that element-wise validations sit inside a loop over the "
        "validated collection that no iteration can complete without; that unsupported operand types make every "
        "dispatcher / move / constructor raise (abstract evaluation on the unsupported types); that no exception "
        "object is returned; and that constructors assign all their fields. Implicit rejections through arithmetic "
        "exceptions (zero normal, collinear plane points) and the sufficiency of the guards are NOT decided."
    )
    n = 0
    for ob in EXPLICIT:
        check_guard(ctx, res, ob)
        n += 1
    must_call(ctx, res, "ConvexPolygon.__init__", "_check_and_sort_points", "R15.1",
              "a polygon with non-coplanar vertices must be rejected")
    ctx.require(res, "R15.1", n + 1, 16, "explicit rejection obligations")
    r152_unsupported(ctx, res)
    r153_raise_not_return(ctx, res)
    r154_definite_assignment(ctx, res)
    r155_vertex_merging(ctx, res)
    r156_tolerance_power(ctx, res)
    # informational: comparisons of a bound method with a constant can never fire
    seen = set()
    for q, ln, text in ctx.types.anomalies:
        if "bound method" in text and (q, ln) not in seen:
            seen.add((q, ln))
            res.note("%s line %d: %s -- a validation that can never fire (behaviour preserved by the following parallel test)"
                     % (q.split(":")[-1], ln, text))
    res.undecided_ob("zero normal / collinear plane points / <3 distinct vertices are rejected only implicitly (ZeroDivisionError, IndexError)")
    res.undecided_ob("sufficiency of the guards (Euler's formula does not imply closedness; coplanar parallelepiped edges)")


def vector_parity(e: ast.AST, v: str) -> Optional[str]:
    """'even' / 'odd' / 'mixed' behaviour of an expression when the vector named v is replaced by -v (None: unknown)"""
    def x(a, b):
        if a is None or b is None:
            return None
        if "mixed" in (a, b):
            return "mixed"
        return "even" if a == b else "odd"

    if isinstance(e, ast.Name):
        return "odd" if e.id == v else "even"
    if isinstance(e, ast.Constant):
        return "even"
    if isinstance(e, ast.UnaryOp) and isinstance(e.op, (ast.USub, ast.UAdd)):
        return vector_parity(e.operand, v)
    if isinstance(e, ast.BinOp):
        l, r = vector_parity(e.left, v), vector_parity(e.right, v)
        if isinstance(e.op, (ast.Mult, ast.Div)):
            return x(l, r)
        if isinstance(e.op, (ast.Add, ast.Sub)):
            if l is None or r is None:
                return None
            return l if l == r else "mixed"
        if isinstance(e.op, ast.Pow) and isinstance(e.right, ast.Constant) and isinstance(e.right.value, int):
            return "even" if e.right.value % 2 == 0 else l
        return None
    if isinstance(e, ast.Call):
        f = e.func
        name = f.id if isinstance(f, ast.Name) else (f.attr if isinstance(f, ast.Attribute) else None)
        if name in ("abs", "fabs"):
            p = vector_parity(e.args[0], v) if e.args else None
            return "even" if p in ("even", "odd") else p
        if name in ("get_eps", "zero", "get_sig_figures") and not e.args:
            return "even"
        if isinstance(f, ast.Attribute):
            r = vector_parity(f.value, v)
            if name in ("length", "parallel", "orthogonal") :
                ps = [r] + [vector_parity(a, v) for a in e.args]
                return None if any(p is None for p in ps) else ("mixed" if "mixed" in ps else "even")
            if name in ("normalized", "unit") and not e.args:
                return r
            if name == "cross" and len(e.args) == 1:
                return x(r, vector_parity(e.args[0], v))
        if isinstance(f, ast.Name) and name in ("parallel", "orthogonal") and len(e.args) == 2:
            ps = [vector_parity(a, v) for a in e.args]
            return None if any(p is None for p in ps) else ("mixed" if "mixed" in ps else "even")
        return None
    if isinstance(e, ast.Attribute):
        return vector_parity(e.value, v) if not (isinstance(e.value, ast.Name) and e.value.id == v) else None
    return None
