"""C06 -- length, area and volume.

Decides four structural necessary conditions of "the true measure for every
shape and ordering": R6.1 homogeneity degree (length 1, area 2, volume 3 under
scaling all coordinates; a dropped square root, a missing or extra length
factor or a sum of a length and an area is reported); R6.2 cyclic coverage of
the vertex-cycle loops; R6.3 accumulation completeness; R6.4 the pyramid
formula (coefficient 1/3 x height x base area, in monomial normal form) and
agreement of volume() with the method form.
Heron's formula and the centroid fan being numerically right, and independence
from vertex / face order (runtime sort, C09) are NOT decided.
"""
from __future__ import annotations

import ast
from fractions import Fraction as F
from typing import Dict, List, Optional, Set, Tuple

from ..astutil import assigned_names, const_num, txt
from ..cycles import check_cycles
from ..model import GEOM7, AnalysisError, FunctionInfo, walk_local
from ..types import show

Z = "Z"  # the literal zero: polymorphic degree


class DegErr(Exception):
    def __init__(self, node, msg):
        self.node = node
        self.msg = msg


def djoin(a, b, node=None, what="values"):
    if a is None:
        return b
    if b is None:
        return a
    if a == Z:
        return b
    if b == Z:
        return a
    if a != b:
        raise DegErr(node, "%s of degree %s and degree %s are combined" % (what, a, b))
    return a


VEC_FIELD_DEG = {("Plane", "n"): 0, ("Line", "dv"): 1, ("Line", "sv"): 1, ("HalfLine", "vector"): 1}
OBJ = set(GEOM7) | {"Pyramid"}


class Degree:
    """degree of homogeneity of numeric expressions under scaling all coordinates by k"""

    def __init__(self, ctx):
        self.ctx = ctx
        self.eng = ctx.types
        self.memo: Dict[Tuple[str, tuple], object] = {}
        self.inprog: Set[Tuple[str, tuple]] = set()
        self.errors: List[Tuple[FunctionInfo, ast.AST, str]] = []

    # kinds: ('s', d) scalar | ('v', d) vector | ('p',) point | ('o', cls) object | ('c', kind) container | None
    def kind_of_type(self, tags) -> List[tuple]:
        out = []
        for t in tags:
            s = str(t) if not isinstance(t, tuple) else None
            if s == "Point":
                out.append(("p",))
            elif s in OBJ:
                out.append(("o", s))
            elif s == "Vector":
                out.append(("v", None))
            elif s in ("num", "bool"):
                out.append(("s", None))
            elif isinstance(t, tuple) and t[0] in ("list", "tuple", "set", "iter"):
                for k in self.kind_of_type(t[1]):
                    out.append(("c", k))
        return out

    def fn_degree(self, fi: FunctionInfo, argkinds: tuple):
        key = (fi.qual, argkinds)
        if key in self.memo:
            return self.memo[key]
        if key in self.inprog:
            return None  # recursion: no information (identity of the join)
        self.inprog.add(key)
        try:
            env: Dict[str, object] = {}
            for p, k in zip(fi.params, argkinds):
                env[p] = k
            rets = []
            self.block(fi.node.body, env, fi, rets)
            d = None
            for node, r in rets:
                if r is not None and r[0] == "s":
                    try:
                        d = djoin(d, r[1], node, "return values")
                    except DegErr as e:
                        self.errors.append((fi, e.node or node, e.msg))
            out = ("s", d) if d is not None else (rets[0][1] if rets else None)
        finally:
            self.inprog.discard(key)
        self.memo[key] = out
        return out

    def block(self, stmts, env, fi, rets):
        for s in stmts:
            try:
                self.stmt(s, env, fi, rets)
            except DegErr as e:
                self.errors.append((fi, e.node or s, e.msg))

    def stmt(self, s, env, fi, rets):
        if isinstance(s, ast.Return):
            rets.append((s, self.ev(s.value, env, fi) if s.value is not None else None))
        elif isinstance(s, ast.Assign):
            v = self.ev(s.value, env, fi)
            for t in s.targets:
                if isinstance(t, ast.Name):
                    env[t.id] = v
                elif isinstance(t, (ast.Tuple, ast.List)):
                    vals = None
                    if isinstance(s.value, (ast.Tuple, ast.List)) and len(s.value.elts) == len(t.elts):
                        vals = [self.ev(x, env, fi) for x in s.value.elts]
                    for i, x in enumerate(t.elts):
                        if isinstance(x, ast.Name):
                            env[x.id] = vals[i] if vals else None
        elif isinstance(s, ast.AugAssign):
            if isinstance(s.target, ast.Name):
                cur = env.get(s.target.id)
                v = self.ev(s.value, env, fi)
                if isinstance(s.op, (ast.Add, ast.Sub)):
                    if cur is not None and v is not None and cur[0] == "s" and v[0] == "s":
                        env[s.target.id] = ("s", djoin(cur[1], v[1], s, "accumulated terms"))
                    else:
                        env[s.target.id] = v if cur is None else cur
                elif isinstance(s.op, ast.Mult) and cur and v and cur[0] == "s" and v[0] == "s":
                    env[s.target.id] = ("s", self.dadd(cur[1], v[1]))
        elif isinstance(s, ast.If):
            n_err = len(self.errors)
            try:
                self.ev(s.test, env, fi)
            except DegErr:
                pass
            del self.errors[n_err:]
            e1, e2 = dict(env), dict(env)
            self.block(s.body, e1, fi, rets)
            self.block(s.orelse, e2, fi, rets)
            for k in set(e1) | set(e2):
                a, b = e1.get(k), e2.get(k)
                if a is not None and b is not None and a[0] == "s" and b[0] == "s":
                    try:
                        env[k] = ("s", djoin(a[1], b[1], s, "values of `%s` on two branches" % k))
                    except DegErr:
                        env[k] = a
                else:
                    env[k] = a if a is not None else b
        elif isinstance(s, ast.For):
            el = self.iter_elem(s.iter, env, fi)
            if isinstance(s.target, ast.Name):
                env[s.target.id] = el
            for _ in range(2):
                self.block(s.body, env, fi, rets)
        elif isinstance(s, ast.Expr):
            self.ev(s.value, env, fi)
        elif isinstance(s, ast.Try):
            self.block(s.body, env, fi, rets)
            for h in s.handlers:
                self.block(h.body, env, fi, rets)
            self.block(s.orelse, env, fi, rets)
            self.block(s.finalbody, env, fi, rets)
        elif isinstance(s, ast.With):
            self.block(s.body, env, fi, rets)
        elif isinstance(s, (ast.Raise, ast.Pass, ast.Import, ast.ImportFrom, ast.Continue, ast.Break, ast.Assert, ast.Global, ast.Nonlocal)):
            pass
        else:
            raise AnalysisError("%s: degree analysis does not model statement kind %s" % (fi.where(s), type(s).__name__))

    @staticmethod
    def dadd(a, b, sign=1):
        if a is None or b is None:
            return None
        if a == Z or b == Z:
            return Z if sign == 1 else (Z if a == Z else None)
        return a + sign * b

    def ev(self, e, env, fi):
        if e is None:
            return None
        if isinstance(e, ast.Constant):
            if isinstance(e.value, (int, float)) and not isinstance(e.value, bool):
                return ("s", Z if e.value == 0 else 0)
            return None
        if isinstance(e, ast.Name):
            if e.id in env and env[e.id] is not None:
                return env[e.id]
            return self.by_type(e, fi)
        if isinstance(e, ast.Attribute):
            base = self.ev(e.value, env, fi)
            if base is not None and base[0] == "p" and e.attr in ("x", "y", "z"):
                return ("s", 1)
            if base is not None and base[0] == "o":
                d = VEC_FIELD_DEG.get((base[1], e.attr))
                if d is not None:
                    return ("v", d)
            if txt(e) in ("math.pi", "math.e"):
                return ("s", 0)
            return self.by_type(e, fi)
        if isinstance(e, ast.Subscript):
            base = self.ev(e.value, env, fi)
            if base is not None and base[0] == "c":
                return base[1]
            if base is not None and base[0] == "v":
                return ("s", base[1])
            if base is not None and base[0] == "p":
                return ("s", 1)
            return self.by_type(e, fi)
        if isinstance(e, ast.UnaryOp):
            return self.ev(e.operand, env, fi)
        if isinstance(e, ast.BinOp):
            l, r = self.ev(e.left, env, fi), self.ev(e.right, env, fi)
            return self.binop(e, l, r)
        if isinstance(e, (ast.Compare, ast.BoolOp)):
            # what is only compared (a length against the absolute tolerance, by design) does not feed a measure: degree
            # mismatches found while evaluating the operands of a comparison are not reported
            n_err = len(self.errors)
            for c in ast.iter_child_nodes(e):
                if isinstance(c, ast.expr):
                    try:
                        self.ev(c, env, fi)
                    except DegErr:
                        pass
            del self.errors[n_err:]
            return ("s", 0)
        if isinstance(e, (ast.Tuple, ast.List)):
            ks = [self.ev(x, env, fi) for x in e.elts]
            return ("c", ks[0]) if ks else None
        if isinstance(e, ast.IfExp):
            return self.ev(e.body, env, fi)
        if isinstance(e, (ast.GeneratorExp, ast.ListComp, ast.SetComp)):
            # the comprehension form of `for x in it: acc.append(elt)`: a container of the element's kind
            env2 = dict(env)
            for g in e.generators:
                el = self.iter_elem(g.iter, env2, fi)
                if isinstance(g.target, ast.Name):
                    env2[g.target.id] = el
                elif isinstance(g.target, (ast.Tuple, ast.List)):
                    for x in g.target.elts:
                        if isinstance(x, ast.Name):
                            env2[x.id] = None
                for c in g.ifs:
                    self.ev(c, env2, fi)
            k = self.ev(e.elt, env2, fi)
            return ("c", k) if k is not None else self.by_type(e, fi)
        if isinstance(e, ast.Call):
            return self.call(e, env, fi)
        return None

    def iter_elem(self, it_expr, env, fi):
        it = self.ev(it_expr, env, fi)
        el = it[1] if it is not None and it[0] == "c" else None
        if el is None:
            tags = self.eng.types_at(fi, it_expr)
            ks = self.kind_of_type(tags)
            cs = [k[1] for k in ks if k[0] == "c"]
            el = cs[0] if cs else (("s", 0) if isinstance(it_expr, ast.Call) and txt(it_expr.func) == "range" else None)
        return el

    def by_type(self, e, fi):
        ks = self.kind_of_type(self.eng.types_at(fi, e))
        ks = [k for k in ks]
        if len(ks) == 1:
            k = ks[0]
            if k == ("v", None) or k == ("s", None):
                return None
            return k
        if ks and all(k[0] == "c" for k in ks):
            return ks[0]
        return None

    def binop(self, e, l, r):
        if l is None or r is None:
            return None
        op = type(e.op)
        if l[0] == "s" and r[0] == "s":
            if op in (ast.Add, ast.Sub):
                return ("s", djoin(l[1], r[1], e, "terms of `%s`" % txt(e)[:50]))
            if op is ast.Mult:
                return ("s", self.dadd(l[1], r[1]))
            if op is ast.Div:
                if l[1] == Z:
                    return ("s", Z)
                if r[1] == Z:
                    return None
                return ("s", None if None in (l[1], r[1]) else l[1] - r[1])
            if op is ast.Pow:
                c = const_num(e.right)
                if c is not None and l[1] not in (None,):
                    if l[1] == Z:
                        return ("s", Z)
                    d = l[1] * F(c).limit_denominator(16)
                    if d.denominator != 1:
                        raise DegErr(e, "`%s` has the fractional degree %s" % (txt(e)[:50], d))
                    return ("s", int(d))
                return None
        if op is ast.Mult:
            if l[0] == "v" and r[0] == "v":
                return ("s", self.dadd(l[1], r[1]))
            if l[0] == "v" and r[0] == "s":
                return ("v", self.dadd(l[1], r[1]))
            if l[0] == "s" and r[0] == "v":
                return ("v", self.dadd(l[1], r[1]))
        if op in (ast.Add, ast.Sub) and l[0] == "v" and r[0] == "v":
            return ("v", djoin(l[1], r[1], e, "vectors in `%s`" % txt(e)[:50]))
        return None

    def call(self, e, env, fi):
        fn = e.func
        name = txt(fn)
        args = [self.ev(a, env, fi) for a in e.args]
        if name in ("math.sqrt", "sqrt"):
            a = args[0]
            if a is None or a[0] != "s" or a[1] is None:
                return None
            if a[1] == Z:
                return ("s", Z)
            if a[1] % 2:
                raise DegErr(e, "square root of an expression of odd degree %s" % a[1])
            return ("s", a[1] // 2)
        if name in ("abs", "float", "int", "round", "math.fabs", "max", "min") and args:
            return args[0]
        if name in ("len", "math.cos", "math.sin", "math.atan2", "math.acos", "hash", "isinstance", "range", "math.tan"):
            return ("s", 0)
        if name in ("sum",) and args and args[0] is not None and args[0][0] == "c":
            return args[0][1]
        if name == "Vector":
            if len(args) == 2:
                return ("v", 1)
            if len(args) == 3 and all(a is not None and a[0] == "s" for a in args):
                d = None
                for a in args:
                    d = djoin(d, a[1], e, "vector components")
                return ("v", d)
            return None
        if name == "Point":
            return ("p",)
        if isinstance(fn, ast.Attribute):
            recv = self.ev(fn.value, env, fi)
            a = fn.attr
            if recv is not None and recv[0] == "v":
                if a in ("normalized", "unit"):
                    return ("v", 0)
                if a == "cross" and args and args[0] is not None and args[0][0] == "v":
                    return ("v", self.dadd(recv[1], args[0][1]))
                if a in ("length", "__abs__"):
                    return ("s", recv[1])
                if a == "angle":
                    return ("s", 0)
            if recv is not None and recv[0] == "p" and a == "pv":
                return ("v", 1)
            if a in ("copy", "deepcopy") and name == "copy.deepcopy" and args:
                return args[0]
        # package callee(s)
        tg = self.eng.call_targets.get((fi.qual, id(e)), set())
        if not tg:
            return self.by_type(e, fi)
        out = None
        for q in sorted(tg):
            f2 = self.eng.fn_by_qual[q]
            if f2.name == "__init__":
                return self.by_type(e, fi)
            if f2.module.name.endswith(("utils.logger", "utils.constant")):
                return ("s", 0) if f2.module.name.endswith("constant") else None
            kinds = list(args)
            if isinstance(fn, ast.Attribute) and f2.cls is not None and not f2.is_classmethod:
                kinds = [self.ev(fn.value, env, fi)] + kinds
            # multi-typed arguments (e.g. the foot point Line|None|Point): evaluate per possible kind
            options = [[]]
            argn = ([fn.value] if len(kinds) == len(args) + 1 else []) + list(e.args)
            for k, an in zip(kinds, argn):
                if k is None:
                    ks = [x for x in self.kind_of_type(self.eng.types_at(fi, an)) if x[0] in ("p", "o")] or [None]
                else:
                    ks = [k]
                options = [o + [x] for o in options for x in ks][:12]
            rt = self.eng.types_at(fi, e)
            for o in options:
                r = self.fn_degree(f2, tuple(o))
                if r is not None and r[0] == "s":
                    out = ("s", djoin(out[1] if out else None, r[1], e, "results of `%s`" % txt(e)[:40]))
                elif r is not None and out is None:
                    out = r
        if out is None:
            return self.by_type(e, fi)
        return out


TARGETS = [("Point.distance", None, 1), ("Segment.length", None, 1), ("ConvexPolygon.length", None, 1),
           ("ConvexPolyhedron.length", None, 1), ("Pyramid.height", None, 1), ("get_triangle_area", None, 2),
           ("ConvexPolygon.area", None, 2), ("ConvexPolyhedron.area", None, 2), ("Pyramid.volume", None, 3),
           ("ConvexPolyhedron.volume", None, 3), ("volume", "calc.volume", 3)]


def r61(ctx, res):
    dg = Degree(ctx)
    n = 0
    for short, mod, want in TARGETS:
        fi = ctx.repo.fn(short, mod)
        n += 1
        if fi.cls is not None:
            kinds = [(("o", fi.cls.name) if fi.cls.name != "Point" else ("p",))]
            if short == "Point.distance":
                kinds.append(("p",))
            results = [dg.fn_degree(fi, tuple(kinds))]
        elif short == "get_triangle_area":
            results = [dg.fn_degree(fi, (("p",), ("p",), ("p",)))]
        else:
            results = [dg.fn_degree(fi, (("o", "Pyramid"),)), dg.fn_degree(fi, (("o", "ConvexPolyhedron"),))]
        errs = [(f, node, msg) for f, node, msg in dg.errors]
        for r in results:
            got = r[1] if r is not None and r[0] == "s" else None
            if got is None:
                if not errs:
                    raise AnalysisError("%s: the homogeneity degree of %s cannot be determined" % (fi.where(), short))
                continue
            ok = got == want or got == Z
            res.ob("R6.1", fi.where(), "%s has degree %d" % (short, want), ok, "degree %s under scaling of all coordinates" % got)
            if not ok:
                res.violation("R6.1", fi, fi.node,
                              "%s scales like k^%s under scaling all coordinates by k, a %s must scale like k^%d (a dropped square "
                              "root, a missing or an extra length factor)" % (short, got, {1: "length", 2: "area", 3: "volume"}[want], want),
                              construct="%s degree" % short)
    seen = set()
    for f, node, msg in dg.errors:
        k = (f.qual, getattr(node, "lineno", 0), msg)
        if k in seen:
            continue
        seen.add(k)
        res.ob("R6.1", f.where(node), "%s: `%s`" % (f.short, txt(node)[:50]), False, msg)
        res.violation("R6.1", f, node, "dimensionally inconsistent expression in %s: %s" % (f.short, msg),
                      construct="%s: inhomogeneous `%s`" % (f.short, txt(node)[:60]))
    ctx.require(res, "R6.1", n, 11, "measure functions")
    res.count("functions with a degree summary", len(dg.memo))


def _acc_loop(fi: FunctionInfo, coll_attr: str, elem_call: str, elem_ok=None, iter_texts=None, _depth: int = 0) -> Tuple[bool, str]:
    """acc = 0; for x in self.<coll>: acc += x.<elem_call>(); return acc   (no condition, full collection);
    elem_ok(expr, var) replaces the test "expr is <var>.<elem_call>()" when given"""
    sn = fi.self_name or fi.params[0]
    whole = iter_texts if iter_texts is not None else ("%s.%s" % (sn, coll_attr), "%s.%s()" % (sn, coll_attr))
    if elem_ok is not None:
        def _is_elem(v, var):
            return var is not None and elem_ok(v, var)
    else:
        def _is_elem(v, var):
            return isinstance(v, ast.Call) and (
                (isinstance(v.func, ast.Attribute) and v.func.attr == elem_call and txt(v.func.value) == var) or
                (isinstance(v.func, ast.Name) and v.func.id == elem_call and len(v.args) == 1 and txt(v.args[0]) == var))
    loops = [x for x in walk_local(fi.node) if isinstance(x, ast.For)]
    for lp in loops:
        it = lp.iter
        if txt(it) not in whole:
            if isinstance(it, (ast.Subscript, ast.Call)) and coll_attr and coll_attr in txt(it):
                return False, "iterates `%s`, not the whole of %s" % (txt(it), coll_attr)
            continue
        b0 = lp.body[0] if len(lp.body) == 1 else None
        acc = v = None
        if isinstance(b0, ast.AugAssign) and isinstance(b0.op, ast.Add) and isinstance(b0.target, ast.Name):
            acc, v = b0.target.id, b0.value
        elif isinstance(b0, ast.Assign) and len(b0.targets) == 1 and isinstance(b0.targets[0], ast.Name) \
                and isinstance(b0.value, ast.BinOp) and isinstance(b0.value.op, ast.Add):
            # acc = acc + x  /  acc = x + acc
            t = b0.targets[0].id
            if isinstance(b0.value.left, ast.Name) and b0.value.left.id == t:
                acc, v = t, b0.value.right
            elif isinstance(b0.value.right, ast.Name) and b0.value.right.id == t:
                acc, v = t, b0.value.left
        if acc is None:
            return False, "loop body is not a single unconditional `acc += ...`"
        var = lp.target.id if isinstance(lp.target, ast.Name) else None
        ok_call = _is_elem(v, var)
        if not ok_call:
            return False, "accumulates `%s`, expected %s of each element" % (txt(v), elem_call)
        inits = [a for a in walk_local(fi.node) if isinstance(a, ast.Assign) and txt(a.targets[0]) == acc and a is not b0]
        if not (len(inits) == 1 and const_num(inits[0].value) == 0):
            return False, "accumulator `%s` is not initialised to 0 exactly once" % acc
        rets = [r for r in walk_local(fi.node) if isinstance(r, ast.Return) and r.value is not None and txt(r.value) == acc]
        if not rets:
            return False, "the accumulator is not returned"
        return True, "`%s += <element>.%s()` over all of %s.%s" % (acc, elem_call, sn, coll_attr)
    # comprehension form:  return sum(x.<elem_call>() for x in self.<coll>)
    for r in walk_local(fi.node):
        if isinstance(r, ast.Return) and isinstance(r.value, ast.Call) and isinstance(r.value.func, ast.Name) and r.value.func.id == "sum" \
                and len(r.value.args) == 1 and isinstance(r.value.args[0], (ast.GeneratorExp, ast.ListComp)):
            ge = r.value.args[0]
            if len(ge.generators) == 1 and txt(ge.generators[0].iter) in whole:
                if ge.generators[0].ifs:
                    return False, "the comprehension filters the elements of %s" % coll_attr
                var = ge.generators[0].target.id if isinstance(ge.generators[0].target, ast.Name) else None
                v = ge.elt
                ok_call = _is_elem(v, var)
                if not ok_call:
                    return False, "sums `%s`, expected %s of each element" % (txt(v), elem_call)
                return True, "sum(<element>.%s() ...) over all of %s.%s" % (elem_call, sn, coll_attr)
    # delegation:  return self.other_measure()  -- the same sum under another name (length() -> perimeter())
    if iter_texts is None and _depth < 3:
        rets_ = [r for r in walk_local(fi.node) if isinstance(r, ast.Return) and r.value is not None]
        if len(rets_) == 1 and isinstance(rets_[0].value, ast.Call) and isinstance(rets_[0].value.func, ast.Attribute) \
                and not rets_[0].value.args and isinstance(rets_[0].value.func.value, ast.Name) and rets_[0].value.func.value.id == sn \
                and fi.cls is not None:
            m = fi.cls.lookup(rets_[0].value.func.attr)
            if m is not None and m is not fi:
                ok, why = _acc_loop(m, coll_attr, elem_call, elem_ok, None, _depth + 1)
                return ok, "%s(): %s" % (m.short, why)
    # edge lengths over the closed ring of vertices:  for p, q in <pair generator>(self.points): acc += p.distance(q)
    if iter_texts is None and coll_attr == "segments" and elem_call == "length":
        from ..cycles import pair_generator
        for lp in [x for x in walk_local(fi.node) if isinstance(x, ast.For)]:
            it = lp.iter
            if isinstance(it, ast.Call) and isinstance(it.func, ast.Name) and len(it.args) == 1 and txt(it.args[0]) == "%s.points" % sn \
                    and isinstance(lp.target, ast.Tuple) and len(lp.target.elts) == 2 and all(isinstance(x, ast.Name) for x in lp.target.elts):
                b = fi.resolve(it.func.id)
                if b is not None and b.kind == "func" and pair_generator(b.target.node) and len(lp.body) == 1:
                    p_, q_ = (x.id for x in lp.target.elts)
                    b0 = lp.body[0]
                    v = b0.value if isinstance(b0, ast.AugAssign) and isinstance(b0.op, ast.Add) and isinstance(b0.target, ast.Name) else None
                    if v is not None and txt(v) in ("%s.distance(%s)" % (p_, q_), "%s.distance(%s)" % (q_, p_), "Vector(%s, %s).length()" % (p_, q_),
                                                      "Vector(%s, %s).length()" % (q_, p_), "Segment(%s, %s).length()" % (p_, q_)):
                        acc = b0.target.id
                        inits = [a for a in walk_local(fi.node) if isinstance(a, ast.Assign) and txt(a.targets[0]) == acc]
                        rets = [r for r in walk_local(fi.node) if isinstance(r, ast.Return) and r.value is not None and txt(r.value) == acc]
                        if len(inits) == 1 and const_num(inits[0].value) == 0 and rets:
                            return True, "`%s += |%s %s|` over the closed ring of %s.points (%s)" % (acc, p_, q_, sn, b.target.short)
    # the accumulation lives in a one-parameter helper that is handed the whole collection:  return _total(self.<coll>)
    if iter_texts is None:
        for r in walk_local(fi.node):
            v = r.value if isinstance(r, ast.Return) else None
            if isinstance(v, ast.Call) and isinstance(v.func, ast.Name) and len(v.args) == 1 and not v.keywords and txt(v.args[0]) in whole:
                b = fi.resolve(v.func.id)
                if b is not None and b.kind == "func" and b.target.cls is None and len(b.target.params) == 1:
                    h = b.target
                    ok, why = _acc_loop(h, coll_attr, elem_call, elem_ok, iter_texts=(h.params[0],))
                    return ok, "%s(%s): %s" % (h.short, txt(v.args[0]), why)
    return False, "no loop over %s.%s" % (sn, coll_attr)


def _is_height(atom: str, base: str, apex: str) -> bool:
    """atom is the distance of `apex` from the plane of `base`:  distance(apex, base.plane)  (either order)  or
    abs(Vector(P, apex) . N)  with P a point of the base plane and N its (unit) normal -- the absolute value is part of
    the form: the apex may lie on either side"""
    if atom in ("distance(%s, %s.plane)" % (apex, base), "distance(%s.plane, %s)" % (base, apex)):
        return True
    try:
        e = ast.parse(atom, mode="eval").body
    except SyntaxError:
        return False
    if not (isinstance(e, ast.Call) and isinstance(e.func, ast.Name) and e.func.id == "abs" and len(e.args) == 1):
        return False
    prod = e.args[0]
    if not (isinstance(prod, ast.BinOp) and isinstance(prod.op, ast.Mult)):
        return False
    sides = [prod.left, prod.right]
    vec = [x for x in sides if isinstance(x, ast.Call) and txt(x.func) == "Vector" and len(x.args) == 2]
    nrm = [x for x in sides if txt(x) in ("%s.plane.n" % base, "%s.plane.n.normalized()" % base, "%s.plane.n.unit()" % base)]
    if len(vec) != 1 or len(nrm) != 1:
        return False
    pts = [txt(a) for a in vec[0].args]
    on_base = [p for p in pts if p in ("%s.plane.p" % base, "%s.center_point" % base) or p.startswith("%s.points[" % base)]
    return len(on_base) == 1 and pts.count(apex) == 1


def _cone_formula(fi: FunctionInfo, e: ast.AST, base: str, apex: str) -> Tuple[bool, str]:
    """e (locals expanded, module helpers inlined) is  1/3 * distance(apex, base.plane) * base.area()"""
    from ..astutil import expand_locals, inline_module_calls
    x = inline_module_calls(fi, expand_locals(fi.node, e, fi.params))
    x = expand_locals(fi.node, x, fi.params)
    try:
        c, atoms = _monomial(fi, x, {})
    except AnalysisError as err:
        return False, str(err)
    height_ok = [a for a in atoms if _is_height(a, base, apex)]
    area_ok = [a for a in atoms if a == "%s.area()" % base]
    ok = c == F(1, 3) and len(atoms) == 2 and len(height_ok) == 1 and len(area_ok) == 1
    return ok, "normal form %s * %s" % (c, " * ".join(atoms))


def _method_delegation(fi: FunctionInfo, mname: str) -> bool:
    """every result return of the one-parameter function fi is `param.<mname>()`"""
    rets = [r for r in walk_local(fi.node) if isinstance(r, ast.Return) and r.value is not None]
    return bool(rets) and all(txt(r.value) == "%s.%s()" % (fi.params[0], mname) for r in rets)


def _volume_accumulation(fi: FunctionInfo) -> Tuple[bool, str]:
    """volume of a polyhedron: the sum of volume() over pyramid_set, or -- the same pyramids written out, pyramid_set holding
    exactly one Pyramid(face, center_point) per face (R6.3) -- the sum over all faces of 1/3 * distance(center, face) * area"""
    a = _acc_loop(fi, "pyramid_set", "volume")
    if a[0]:
        return a
    sn = fi.self_name or fi.params[0]
    b = _acc_loop(fi, "convex_polygons", "volume", elem_ok=lambda v, var: _cone_formula(fi, v, var, "%s.center_point" % sn)[0])
    if b[0]:
        return True, "sum over all faces of 1/3 * distance(%s.center_point, face.plane) * face.area() (the pyramids of pyramid_set written out)" % sn
    if "no loop over" in a[1] and "no loop over" not in b[1]:
        return b
    return a


def r63(ctx, res):
    repo, eng = ctx.repo, ctx.types
    n = 0
    for short, mod, coll, call in (("ConvexPolyhedron.length", None, "segment_set", "length"),
                                   ("ConvexPolyhedron.area", None, "convex_polygons", "area"),
                                   ("ConvexPolyhedron.volume", None, "pyramid_set", "volume"),
                                   ("ConvexPolygon.length", None, "segments", "length"),
                                   ("volume", "calc.volume", "pyramid_set", "volume")):
        fi = repo.fn(short, mod)
        n += 1
        if short == "volume" and _method_delegation(fi, "volume"):
            # volume(x) = x.volume(): the function form is the method form (checked in its own row)
            ok, why = True, "delegates to the volume() method of its argument"
        else:
            ok, why = _acc_loop(fi, coll, call) if call != "volume" else _volume_accumulation(fi)
        res.ob("R6.3", fi.where(), "%s sums %s over %s" % (short, call, coll), ok, why)
        if not ok:
            res.violation("R6.3", fi, fi.node, "%s does not accumulate %s() over the whole of %s: %s" % (short, call, coll, why),
                          construct="%s accumulation" % short)
    # each edge once: segment_set must be a set
    ty = eng.fields.get(("ConvexPolyhedron", "segment_set"), frozenset())
    kinds = {t[0] for t in ty if isinstance(t, tuple)}
    n += 1
    ok = kinds == {"set"}
    res.ob("R6.3", "Geometry3D/geometry/polyhedron.py", "ConvexPolyhedron.segment_set is a set", ok, "field type %s" % show(ty))
    if not ok:
        c = repo.cls("ConvexPolyhedron")
        res.violation("R6.3", c.lookup("__init__"), c.node, "ConvexPolyhedron.segment_set is not a set (%s): an edge shared by two faces "
                      "would be counted twice in length()" % show(ty), construct="segment_set container kind")
    # exactly one pyramid per face, unconditionally, in __init__ and in move
    for short in ("ConvexPolyhedron.__init__", "ConvexPolyhedron.move"):
        fi = repo.fn(short)
        sn = fi.self_name
        n += 1
        ok = False
        why = "no loop over the faces adds a pyramid"
        # the loop may live in a helper method that every normal path of fi calls (shared by __init__ and move)
        from .c15 import _must_pass_helpers
        scope = [fi]
        for f_ in scope:
            for h_ in _must_pass_helpers(ctx, f_):
                if all(h_ is not y for y in scope) and len(scope) < 8 and h_.cls is fi.cls:
                    scope.append(h_)
        for lp in [x for f_ in scope for x in walk_local(f_.node) if isinstance(x, ast.For)]:
            it = txt(lp.iter)
            if it not in ("range(len(%s.convex_polygons))" % sn, "%s.convex_polygons" % sn, "enumerate(%s.convex_polygons)" % sn):
                continue
            face_vars = set()
            if it == "%s.convex_polygons" % sn and isinstance(lp.target, ast.Name):
                face_vars.add(lp.target.id)
            if it.startswith("enumerate(") and isinstance(lp.target, ast.Tuple) and len(lp.target.elts) == 2 \
                    and isinstance(lp.target.elts[1], ast.Name):
                face_vars.add(lp.target.elts[1].id)
            for st in lp.body:
                if isinstance(st, ast.Assign) and isinstance(st.value, ast.Subscript) and txt(st.value.value) == "%s.convex_polygons" % sn:
                    face_vars.add(txt(st.targets[0]))
            adds = []
            for st in lp.body:  # top level of the loop body only: unconditional
                if isinstance(st, ast.Expr) and isinstance(st.value, ast.Call) and txt(st.value.func) == "%s.pyramid_set.add" % sn:
                    a = st.value.args[0] if st.value.args else None
                    if isinstance(a, ast.Call) and txt(a.func) == "Pyramid" and len(a.args) >= 2 and txt(a.args[0]) in face_vars \
                            and txt(a.args[1]) == "%s.center_point" % sn:
                        adds.append(st)
            cond_adds = [c for st in lp.body if not isinstance(st, ast.Expr) for c in ast.walk(st)
                         if isinstance(c, ast.Call) and txt(c.func) == "%s.pyramid_set.add" % sn]
            if len(adds) == 1 and not cond_adds:
                ok = True
                why = "one `pyramid_set.add(Pyramid(face, center_point))` per face, unconditionally"
            elif cond_adds:
                why = "a pyramid is added only under a condition"
            elif len(adds) > 1:
                why = "more than one pyramid per face"
        # comprehension form:  self.pyramid_set = {Pyramid(f, self.center_point, ...) for f in self.convex_polygons}
        if not ok:
            for f_ in scope:
                for st in walk_local(f_.node):
                    if isinstance(st, ast.Assign) and len(st.targets) == 1 and txt(st.targets[0]) == "%s.pyramid_set" % (f_.self_name or sn):
                        v = st.value
                        if isinstance(v, ast.Call) and isinstance(v.func, ast.Name) and v.func.id in ("set", "frozenset") and len(v.args) == 1:
                            v = v.args[0]
                        if isinstance(v, (ast.SetComp, ast.GeneratorExp, ast.ListComp)) and len(v.generators) == 1:
                            g0 = v.generators[0]
                            e0 = v.elt
                            if not g0.ifs and isinstance(g0.target, ast.Name) and txt(g0.iter) == "%s.convex_polygons" % (f_.self_name or sn) \
                                    and isinstance(e0, ast.Call) and txt(e0.func) == "Pyramid" and len(e0.args) >= 2 \
                                    and txt(e0.args[0]) == g0.target.id and txt(e0.args[1]) == "%s.center_point" % (f_.self_name or sn):
                                ok = True
                                why = "pyramid_set rebuilt with one Pyramid(face, center_point) per face (comprehension over all faces)"
                            elif g0.ifs:
                                why = "the comprehension filters the faces"
        res.ob("R6.3", fi.where(), "%s: one pyramid per face" % short, ok, why)
        if not ok:
            res.violation("R6.3", fi, fi.node, "%s does not add exactly one Pyramid(face, centre) for every face: %s (the volume is the "
                          "sum of these pyramids)" % (short, why), construct="%s pyramids" % short)
    ctx.require(res, "R6.3", n, 8, "accumulations")


def _monomial(fi: FunctionInfo, e: ast.AST, env_defs) -> Tuple[F, List[str]]:
    """product / quotient chain -> (rational coefficient, sorted atom texts)"""
    if isinstance(e, ast.Name) and e.id in env_defs:
        return _monomial(fi, env_defs[e.id], env_defs)
    c = const_num(e)
    if c is not None:
        return F(c).limit_denominator(10 ** 6), []
    if isinstance(e, ast.BinOp) and isinstance(e.op, ast.Mult):
        c1, a1 = _monomial(fi, e.left, env_defs)
        c2, a2 = _monomial(fi, e.right, env_defs)
        return c1 * c2, sorted(a1 + a2)
    if isinstance(e, ast.BinOp) and isinstance(e.op, ast.Div):
        c1, a1 = _monomial(fi, e.left, env_defs)
        c2, a2 = _monomial(fi, e.right, env_defs)
        if a2 or c2 == 0:
            raise AnalysisError("%s: division by a non-constant in `%s`" % (fi.where(e), txt(e)))
        return c1 / c2, a1
    if isinstance(e, ast.UnaryOp) and isinstance(e.op, ast.USub):
        c1, a1 = _monomial(fi, e.operand, env_defs)
        return -c1, a1
    return F(1), [txt(e)]  # anything else (a sum in parentheses, a call) is an opaque factor


def r64(ctx, res):
    repo = ctx.repo
    forms = {}
    for short, mod, pyr in (("Pyramid.volume", None, None), ("volume", "calc.volume", None)):
        fi = repo.fn(short, mod)
        pyr = fi.params[0]
        if short == "volume" and _method_delegation(fi, "volume"):
            res.ob("R6.4", fi.where(), "volume = 1/3 * height * base area", True, "volume(x) returns x.volume(): the formula is Pyramid.volume's")
            continue
        defs = {}
        for a in walk_local(fi.node):
            if isinstance(a, ast.Assign) and isinstance(a.targets[0], ast.Name):
                defs.setdefault(a.targets[0].id, a.value)
        rets = [r for r in walk_local(fi.node) if isinstance(r, ast.Return) and r.value is not None]
        cand = None
        monos = []
        for r in rets:
            try:
                from ..astutil import expand_locals, inline_module_calls
                c, atoms = _monomial(fi, inline_module_calls(fi, expand_locals(fi.node, r.value, fi.params)), defs)
            except AnalysisError:
                continue
            if atoms:
                monos.append((r, c, atoms))
            if len(atoms) >= 1 and any(a.endswith(".area()") and not a.startswith("sum(") for a in atoms):
                cand = (r, c, atoms)
        if cand is None:
            # no return mentions the base area: take the pyramid branch's monomial (if any) and report it
            monos = [m for m in monos if any(pyr + "." in a or pyr + ")" in a for a in m[2])]
            if not monos:
                raise AnalysisError("%s: no return of the form coefficient * height * base area" % fi.where())
            cand = monos[0]
        r, c, atoms = cand
        height_ok = [a for a in atoms if a == "%s.height()" % pyr or _is_height(a, "%s.convex_polygon" % pyr, "%s.point" % pyr)]
        area_ok = [a for a in atoms if a == "%s.convex_polygon.area()" % pyr]
        ok = c == F(1, 3) and len(atoms) == 2 and len(height_ok) == 1 and len(area_ok) == 1
        forms[short] = (c, atoms)
        res.ob("R6.4", fi.where(r), "%s = 1/3 * height * base area" % short, ok, "normal form %s * %s" % (c, " * ".join(atoms)))
        if not ok:
            res.violation("R6.4", fi, r, "%s is not one third of height times base area: normal form %s * %s" % (
                short, c, " * ".join(atoms)), construct="%s pyramid formula" % short)
    # volume(x) on a polyhedron sums the same pyramids as x.volume()
    a = _volume_accumulation(repo.fn("ConvexPolyhedron.volume"))
    b = _volume_accumulation(repo.fn("volume", "calc.volume"))
    if _method_delegation(repo.fn("volume", "calc.volume"), "volume"):
        b = (True, "volume(x) is x.volume()")
    ok = a[0] and b[0]
    res.ob("R6.4", repo.fn("volume", "calc.volume").where(), "volume(x) and x.volume() sum the same pyramids", ok,
           "both accumulate over the pyramids of the faces (%s / %s)" % (a[1][:60], b[1][:60]) if ok else "%s / %s" % (a[1], b[1]))
    if not ok and not any(f.rule == "R6.3" for f in res.findings):
        res.violation("R6.4", repo.fn("volume", "calc.volume"), repo.fn("volume", "calc.volume").node,
                      "volume(x) and x.volume() do not sum over the same pyramids", construct="volume sibling agreement")
    # Pyramid.height = | (apex - base point) . unit normal |
    h = repo.fn("Pyramid.height")
    sn = h.self_name
    defs = {}
    for a_ in walk_local(h.node):
        if isinstance(a_, ast.Assign) and isinstance(a_.targets[0], ast.Name):
            defs[a_.targets[0].id] = a_.value
    rets = [r for r in walk_local(h.node) if isinstance(r, ast.Return)]
    if len(rets) == 1 and rets[0].value is not None:
        from ..astutil import expand_locals
        import copy as _copy
        r0 = _copy.copy(rets[0])
        from ..astutil import inline_module_calls
        # locals (`base = self.convex_polygon`) read as their definitions, small module helpers (`_apex_depth(base, apex)`) as their bodies
        r0.value = inline_module_calls(h, expand_locals(h.node, rets[0].value, h.params))
        rets = [r0]
        defs = {}
    ok = False
    why = "unrecognised shape"
    if len(rets) == 1 and isinstance(rets[0].value, ast.BinOp) and isinstance(rets[0].value.op, ast.Mult) \
            and any(isinstance(s_, ast.Call) and txt(s_.func) == "Vector" for s_ in (rets[0].value.left, rets[0].value.right)):
        why = "the signed dot product is returned without abs(): the apex may lie on either side of the base"
    if len(rets) == 1 and isinstance(rets[0].value, ast.Call) and txt(rets[0].value.func) == "abs" and rets[0].value.args:
        prod = rets[0].value.args[0]
        if isinstance(prod, ast.BinOp) and isinstance(prod.op, ast.Mult):
            sides = [prod.left, prod.right]
            vec = [s for s in sides if isinstance(s, ast.Call) and txt(s.func) == "Vector" and len(s.args) == 2]
            nrm = [s for s in sides if txt(s).startswith("%s.convex_polygon.plane.n" % sn)]
            if vec and nrm:
                pts = [txt(defs.get(a_.id, a_)) if isinstance(a_, ast.Name) else txt(a_) for a_ in vec[0].args]
                base = [p for p in pts if p.startswith("%s.convex_polygon.points[" % sn) or p in (
                    "%s.convex_polygon.plane.p" % sn, "%s.convex_polygon.center_point" % sn)]
                apex = [p for p in pts if p == "%s.point" % sn]
                ok = len(base) == 1 and len(apex) == 1
                why = "abs((apex - base point) . normal of the base plane)" if ok else "vector is between %s" % pts
    res.ob("R6.4", h.where(), "Pyramid.height", ok, why)
    if not ok:
        if why == "unrecognised shape":
            raise AnalysisError("Pyramid.height has an unrecognised shape")
        res.violation("R6.4", h, h.node, "Pyramid.height is not |(apex - point of the base) . unit normal of the base|: %s" % why,
                      construct="Pyramid.height formula")


def r65_measures_read_primary_state(ctx, res):
    """R6.5: a class whose objects can be changed by item assignment (`seg[0] = p`) keeps derived fields that the assignment
    does not refresh (Segment.line).  A measure must be computed from the fields the assignment writes -- reading a derived
    field returns the measure of the object as it was constructed (C20 quantifies over coordinate / item assignment)."""
    from .c15 import method_reads
    n = 0
    for c in ctx.repo.classes():
        if ".visualization" in c.module.name:
            continue
        si = c.methods.get("__setitem__")
        init = c.methods.get("__init__")
        if si is None or init is None or si.self_name is None:
            continue
        def stored(m):
            out = set()
            for x in walk_local(m.node):
                if isinstance(x, (ast.Assign, ast.AugAssign)):
                    for t in (x.targets if isinstance(x, ast.Assign) else [x.target]):
                        b = t
                        while isinstance(b, ast.Subscript):
                            b = b.value
                        if isinstance(b, ast.Attribute) and isinstance(b.value, ast.Name) and b.value.id == m.self_name:
                            out.add(b.attr)
                if isinstance(x, ast.Call) and isinstance(x.func, ast.Name) and x.func.id == "setattr" and x.args \
                        and isinstance(x.args[0], ast.Name) and x.args[0].id == m.self_name:
                    out.add("*")
            return out
        W = stored(si)
        if "*" in W:
            continue  # setattr(self, name, value): every coordinate field may be written
        derived = stored(init) - W
        if not derived:
            continue
        for mname in ("length", "area", "volume", "height"):
            m = c.methods.get(mname)
            if m is None:
                continue
            n += 1
            rd = {r[5:] for r in method_reads(ctx, m) if r.startswith("self.")}
            bad = sorted(rd & derived)
            res.ob("R6.5", m.where(), "%s.%s reads the fields item assignment writes" % (c.name, mname), not bad,
                   "reads %s (written by __setitem__: %s)" % (sorted(rd), sorted(W)) if not bad else
                   "reads %s, which %s.__setitem__ does not refresh" % (bad, c.name))
            if bad:
                res.violation("R6.5", m, m.node,
                              "%s.%s is computed from `%s`, a field derived in the constructor that %s.__setitem__ (item assignment, "
                              "`obj[i] = p`) leaves at its old value while it replaces %s: after an item assignment the measure is that "
                              "of the object as it was constructed" % (c.name, mname, ", ".join(bad), c.name, sorted(W)),
                              construct="%s.%s reads derived %s" % (c.name, mname, ",".join(bad)))
    if n == 0:
        res.note("no class with item assignment keeps derived fields beside a measure; R6.5 has no instance")


def run(ctx, res):
    res.explanation = (
        "Four structural necessary conditions of C06, decided for all shapes: every measure function has the right "
        "homogeneity degree under scaling all coordinates (length 1, area 2, volume 3; interprocedural degree domain, "
        "sums require equal degrees, roots halve them), the vertex-cycle loops range over all indices with a "
        "wrap-around successor, the polyhedron measures accumulate with += over the whole edge set / face list / "
        "pyramid set with exactly one pyramid per face in __init__ and move, and the pyramid volume is 1/3 x height x "
        "base area in monomial normal form in both Pyramid.volume and volume(), which sum the same pyramids. NOT "
        "decided: Heron's formula and the centroid fan being numerically right to 1e-9, independence from vertex / "
        "face order (runtime sort of C09), the centroid itself."
    )
    r61(ctx, res)
    c = 0
    for short in ("ConvexPolygon.segments", "ConvexPolygon.area", "ConvexPolygon.__contains__"):
        c += check_cycles(ctx, res, ctx.repo.fn(short), "R6.2")
    ctx.require(res, "R6.2", c, 3, "vertex-cycle loops")
    r63(ctx, res)
    r64(ctx, res)
    r65_measures_read_primary_state(ctx, res)
    # R6.6 no measure is rounded
    from ..exact import report_rounding
    from ..affine import affine_scope as _ascope
    roots6 = [ctx.repo.fn(s_, m_) for s_, m_, _w in TARGETS]
    kr = report_rounding(ctx, res, "R6.6", _ascope(ctx, roots6, ()), "the measure")
    ctx.require(res, "R6.6", kr, 8, "functions scanned for rounding")
    res.undecided_ob("Heron's formula / centroid fan numerically exact; independence from vertex and face order (C09); centroid")
