"""C12 -- intersection obeys the algebra of set intersection.

Decides exactly two of its four laws: R12.1 "every vertex or end point of
intersection(a, b) lies in both a and b" -- the confinement theorem taken over
all 28 handlers, the 3 hit-set helpers and the dispatcher (every return site);
R12.2 "None absorbing": intersection(None, x) = intersection(x, None) = None for
every x, and no internal call can hand a possibly-None value to a handler that
bypasses the dispatcher's None test.
Idempotence, "a in b => intersection = a" and associativity relate the results
of different runtime computations and are NOT decided.
"""
from __future__ import annotations

import ast

from ..astutil import txt
from ..confinement import handler_functions, report_function, run_confinement
from ..model import AnalysisError, walk_local
from ..types import show
from .c04 import dispatch_info, r45


def run(ctx, res):
    res.explanation = (
        "The confinement theorem over the whole intersection code: for every return site of the 28 handlers, the "
        "unreferenced legacy handler, the 3 hit-set helpers and the dispatcher, the returned value is a subset of both "
        "operands (obligation dataflow with membership / equality / carrier-coincidence / all-end-points guards and the "
        "three numeric kernel axioms; handlers verified together, assume-guarantee over their mutual recursion). Hence "
        "every vertex or end point of intersection(a, b) lies in both a and b. None is absorbing: abstract evaluation of "
        "the dispatcher on None in either position yields None without raising, and no direct handler call receives a "
        "possibly-None argument. Idempotence, absorption of contained operands and associativity are NOT decided."
    )
    cf = run_confinement(ctx)
    handlers, helpers, inter = handler_functions(ctx)
    eng = ctx.types
    total = 0
    live = 0
    for fi in handlers + [inter] + helpers:
        if not eng.summaries_of(fi) and fi is not inter:
            res.note("%s %s is not referenced by the dispatcher; analysed as well" % (fi.where(), fi.short))
        else:
            live += 1
        total += report_function(ctx, res, cf, fi, "R12.1")
    res.count("functions analysed", len(handlers) + 1 + len(helpers))
    res.count("return sites", total)
    res.count("kernel axiom sites", sum(len(r.kernel_sites) for r in cf.results.values()))
    res.count("carrier reads", sum(r.carrier_reads for r in cf.results.values()))
    res.extra["guards_used"] = sorted({g for r in cf.results.values() for g in r.guards})
    ctx.require(res, "R12.1", total, 60, "return sites")
    ctx.require(res, "R12.1f", live, 15, "live functions")
    # a fourth numeric construction would have conf {} and be reported where it is returned; list them
    for r in cf.results.values():
        for e in r.numeric_sites:
            res.note("%s %s builds `%s` numerically outside the three kernels (it is not treated as confined)" % (
                r.fi.where(e), r.fi.short, txt(e)[:50]))
    from ..confinement import numeric_rejections
    res.count("numeric rejections", numeric_rejections(ctx, res, "R12.3", handlers + [inter] + helpers, "intersection code"))
    # R12.2
    r45(ctx, res)
    for o in res.obligations:
        if o.rule == "R4.5":
            o.rule = "R12.2"
    res.instances["R12.2"] = res.instances.pop("R4.5", 0)
    for f in res.findings:
        if f.rule == "R4.5":
            f.rule = "R12.2"
    hnames = {h.name for h in handlers}
    n = 0
    for fi in handlers + helpers + [ctx.repo.fn("distance", "calc.distance")]:
        for c in walk_local(fi.node):
            if isinstance(c, ast.Call) and isinstance(c.func, ast.Name) and c.func.id in hnames:
                n += 1
                bad = []
                for a in c.args:
                    ty = eng.types_at(fi, a)
                    if "None" in set(map(str, ty)):
                        bad.append((txt(a), show(ty)))
                ok = not bad
                res.ob("R12.2", fi.where(c), "%s: direct call `%s`" % (fi.short, txt(c)[:50]), ok,
                       "no argument can be None" if ok else "argument %s may be None" % bad)
                if not ok:
                    res.violation("R12.2", fi, c, "%s calls the handler %s directly with a possibly-None argument (%s), bypassing "
                                  "the dispatcher's None test" % (fi.short, c.func.id, bad), construct="%s: None into %s" % (fi.short, c.func.id))
    res.count("direct handler calls", n)
    # R12.4 the collinearity helper that guards the coplanar polygon / polygon routine tests every point (coverage.py)
    from ..coverage import check_collinearity_helper
    kc = check_collinearity_helper(ctx, res, "R12.4")
    ctx.require(res, "R12.4", kc, 2, "return sites of points_in_a_line")
    # R12.5 no computed value is rounded on its way into the result
    from ..exact import report_rounding
    from ..affine import affine_scope as _ascope
    kr = report_rounding(ctx, res, "R12.5", _ascope(ctx, [ctx.repo.fn("intersection", "calc.intersection")], ()), "the intersection")
    ctx.require(res, "R12.5", kr, 20, "functions scanned for rounding")
    res.undecided_ob("idempotence intersection(a, a) == a; a in b => intersection(a, b) == a; associativity")
