"""E2 -- statement-level control-flow graphs with decomposed conditions.

Nodes: entry, exit (normal), raise_exit, one node per simple statement, one
``cond`` node per *atomic* condition (``and``/``or``/``not`` are decomposed into
control flow, so the false edge of ``(not A) or (not B)`` is known to imply
``A and B``), one ``loop`` node per for/while header.

Only explicit ``raise`` statements (and failing ``assert``) lead to
``raise_exit``; implicit exceptions of calls are not modelled as edges.
"""
from __future__ import annotations

import ast
from typing import Dict, Iterable, List, Optional, Set, Tuple

from .model import AnalysisError

Edge = Tuple[int, int, Optional[str]]


class Node:
    __slots__ = ("id", "kind", "ast", "stmt", "loops")

    def __init__(self, id, kind, ast_=None, stmt=None, loops=()):
        self.id = id
        self.kind = kind  # entry exit raise_exit stmt cond loop return raise
        self.ast = ast_  # the statement, or the atomic condition expression
        self.stmt = stmt  # enclosing statement (for cond: the If/While/Assert)
        self.loops = tuple(loops)  # ids of enclosing loop header nodes

    def __repr__(self):
        return "<%d %s L%s>" % (self.id, self.kind, getattr(self.ast, "lineno", "-"))


class CFG:
    def __init__(self, fn_node: ast.FunctionDef):
        self.fn_node = fn_node
        self.nodes: Dict[int, Node] = {}
        self.succ: Dict[int, List[Tuple[int, Optional[str]]]] = {}
        self.pred: Dict[int, List[Tuple[int, Optional[str]]]] = {}
        self.by_ast: Dict[int, List[int]] = {}
        self.entry = self._node("entry")
        self.exit = self._node("exit")
        self.raise_exit = self._node("raise_exit")
        self._loop_stack: List[int] = []
        self._break_stack: List[List[Tuple[int, Optional[str]]]] = []
        out = self._seq(fn_node.body, [(self.entry, None)])
        for p, l in out:
            self._edge(p, self.exit, l)

    # ---- construction
    def _node(self, kind, ast_=None, stmt=None) -> int:
        i = len(self.nodes)
        self.nodes[i] = Node(i, kind, ast_, stmt, getattr(self, "_loop_stack", ()))
        self.succ[i] = []
        self.pred[i] = []
        if ast_ is not None:
            self.by_ast.setdefault(id(ast_), []).append(i)
        return i

    def _edge(self, a, b, label=None):
        if (b, label) not in self.succ[a]:
            self.succ[a].append((b, label))
            self.pred[b].append((a, label))

    def _connect(self, preds, n):
        for p, l in preds:
            self._edge(p, n, l)

    def _cond(self, expr, preds, stmt):
        """returns (true_out, false_out)"""
        if isinstance(expr, ast.BoolOp):
            if isinstance(expr.op, ast.And):
                t, fs = preds, []
                for v in expr.values:
                    t, f = self._cond(v, t, stmt)
                    fs += f
                return t, fs
            else:
                f, ts = preds, []
                for v in expr.values:
                    t, f = self._cond(v, f, stmt)
                    ts += t
                return ts, f
        if isinstance(expr, ast.UnaryOp) and isinstance(expr.op, ast.Not):
            t, f = self._cond(expr.operand, preds, stmt)
            return f, t
        if isinstance(expr, ast.Constant) and isinstance(expr.value, bool):
            # `if False:` / `while True:` -- keep a cond node so that rules can see
            # it, but only the feasible edge exists.
            n = self._node("cond", expr, stmt)
            self._connect(preds, n)
            return ([(n, "T")], []) if expr.value else ([], [(n, "F")])
        n = self._node("cond", expr, stmt)
        self._connect(preds, n)
        return [(n, "T")], [(n, "F")]

    def _seq(self, stmts, preds):
        for s in stmts:
            if not preds:
                # unreachable code: still build nodes so that by_ast is total
                preds = []
            preds = self._stmt(s, preds)
        return preds

    def _stmt(self, s, preds):
        if isinstance(s, ast.If):
            t, f = self._cond(s.test, preds, s)
            a = self._seq(s.body, t)
            b = self._seq(s.orelse, f) if s.orelse else f
            return a + b
        if isinstance(s, (ast.For, ast.AsyncFor)):
            h = self._node("loop", s, s)
            self._connect(preds, h)
            self._loop_stack.append(h)
            self._break_stack.append([])
            body = self._seq(s.body, [(h, "iter")])
            self._loop_stack.pop()
            brk = self._break_stack.pop()
            self._connect(body, h)
            done = [(h, "done")]
            if s.orelse:
                done = self._seq(s.orelse, done)
            return done + brk
        if isinstance(s, ast.While):
            h = self._node("loop", s, s)
            self._connect(preds, h)
            self._loop_stack.append(h)
            self._break_stack.append([])
            t, f = self._cond(s.test, [(h, "iter")], s)
            body = self._seq(s.body, t)
            self._loop_stack.pop()
            brk = self._break_stack.pop()
            self._connect(body, h)
            done = f
            if s.orelse:
                done = self._seq(s.orelse, done)
            return done + brk
        if isinstance(s, ast.Return):
            n = self._node("return", s, s)
            self._connect(preds, n)
            self._edge(n, self.exit)
            return []
        if isinstance(s, ast.Raise):
            n = self._node("raise", s, s)
            self._connect(preds, n)
            self._edge(n, self.raise_exit)
            return []
        if isinstance(s, ast.Continue):
            n = self._node("stmt", s, s)
            self._connect(preds, n)
            if not self._loop_stack:
                raise AnalysisError("continue outside loop")
            self._edge(n, self._loop_stack[-1])
            return []
        if isinstance(s, ast.Break):
            n = self._node("stmt", s, s)
            self._connect(preds, n)
            self._break_stack[-1].append((n, None))
            return []
        if isinstance(s, ast.Assert):
            t, f = self._cond(s.test, preds, s)
            for p, l in f:
                self._edge(p, self.raise_exit, l)
            return t
        if isinstance(s, ast.Try):
            # conservative: handlers are reachable from the start of the body
            start = self._node("stmt", s, s)
            self._connect(preds, start)
            body = self._seq(s.body, [(start, None)])
            if s.orelse:
                body = self._seq(s.orelse, body)
            outs = list(body)
            for h in s.handlers:
                outs += self._seq(h.body, [(start, "exc")])
            if s.finalbody:
                outs = self._seq(s.finalbody, outs)
            return outs
        if isinstance(s, (ast.With, ast.AsyncWith)):
            n = self._node("stmt", s, s)
            self._connect(preds, n)
            return self._seq(s.body, [(n, None)])
        if isinstance(s, (ast.Match,)):
            raise AnalysisError("match statement is not modelled")
        # simple statement
        n = self._node("stmt", s, s)
        self._connect(preds, n)
        return [(n, None)]

    # ---- queries
    def reach(self, starts: Iterable[int], avoid_nodes: Set[int] = frozenset(),
              avoid_edges: Set[Edge] = frozenset()) -> Set[int]:
        seen: Set[int] = set()
        st = [s for s in starts]
        while st:
            x = st.pop()
            if x in seen or x in avoid_nodes:
                continue
            seen.add(x)
            for y, l in self.succ[x]:
                if (x, y, l) in avoid_edges:
                    continue
                st.append(y)
        return seen

    def reachable_nodes(self) -> Set[int]:
        return self.reach([self.entry])

    def edge_targets(self, n: int, label: Optional[str]) -> List[int]:
        return [y for y, l in self.succ[n] if l == label]

    def edge_only_raises(self, n: int, label: Optional[str]) -> bool:
        """Every path that leaves n through `label` ends in raise_exit."""
        tg = self.edge_targets(n, label)
        if not tg:
            return False
        r = self.reach(tg)
        return self.raise_exit in r and self.exit not in r

    def edge_only_exits(self, n: int, label: Optional[str]) -> bool:
        tg = self.edge_targets(n, label)
        if not tg:
            return False
        r = self.reach(tg)
        return self.exit in r and self.raise_exit not in r

    def conds(self) -> List[Node]:
        return [n for n in self.nodes.values() if n.kind == "cond"]

    def nodes_of(self, ast_node) -> List[int]:
        return self.by_ast.get(id(ast_node), [])

    def dominators(self) -> Dict[int, Set[int]]:
        reach = self.reachable_nodes()
        dom = {n: set(reach) for n in reach}
        dom[self.entry] = {self.entry}
        changed = True
        order = sorted(reach)
        while changed:
            changed = False
            for n in order:
                if n == self.entry:
                    continue
                ps = [p for p, _ in self.pred[n] if p in reach]
                if not ps:
                    continue
                new = set.intersection(*(dom[p] for p in ps)) | {n}
                if new != dom[n]:
                    dom[n] = new
                    changed = True
        return dom

    def dominating_edges(self, target: int) -> List[Edge]:
        """Edges (cond, succ, label) that lie on every entry->target path."""
        out = []
        for n in self.conds():
            for y, l in self.succ[n.id]:
                e = (n.id, y, l)
                if target not in self.reach([self.entry], avoid_edges={e}):
                    out.append(e)
        return out

    def must_pass(self, src: int, dst: int, through_edges: Set[Edge] = frozenset(),
                  through_nodes: Set[int] = frozenset()) -> bool:
        """Every src->dst path crosses one of the edges / nodes."""
        r = self.reach([src], avoid_nodes=set(through_nodes), avoid_edges=set(through_edges))
        return dst not in r

    def describe_edge(self, e: Edge) -> str:
        n = self.nodes[e[0]]
        try:
            t = ast.unparse(n.ast)
        except Exception:
            t = n.kind
        return "%s edge of `%s` (line %s)" % (e[2], t, getattr(n.ast, "lineno", "?"))

    def path(self, src: int, dst: int, avoid_edges: Set[Edge] = frozenset(),
             avoid_nodes: Set[int] = frozenset()) -> Optional[List[int]]:
        """One shortest path (BFS), for diagnostics."""
        from collections import deque

        prev = {src: None}
        q = deque([src])
        while q:
            x = q.popleft()
            if x == dst:
                out = []
                while x is not None:
                    out.append(x)
                    x = prev[x]
                return out[::-1]
            for y, l in self.succ[x]:
                if y in prev or y in avoid_nodes or (x, y, l) in avoid_edges:
                    continue
                prev[y] = x
                q.append(y)
        return None

    def path_text(self, p: List[int]) -> List[str]:
        out = []
        for i in p:
            n = self.nodes[i]
            if n.kind in ("entry", "exit", "raise_exit"):
                out.append(n.kind)
            else:
                try:
                    t = ast.unparse(n.ast).split("\n")[0][:70]
                except Exception:
                    t = n.kind
                out.append("L%s %s: %s" % (getattr(n.ast, "lineno", "?"), n.kind, t))
        return out
