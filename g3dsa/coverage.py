"""Universal-quantifier coverage of the collinearity helper.

`points_in_a_line(points)` answers "all points lie on one line".  The first two
points define the line; the answer True is justified only when every further
index 2 .. len(points)-1 was tested, or when there is no further index
(len(points) <= 2).  The rule walks the statement tree of the helper with an
upper bound on len(points) (from the enclosing `len(points) <op> k` tests) and a
flag "a loop over all further indices with a rejecting exit came before", and
reports every `return True` that is reached with neither.

The callers use the helper as a sanity guard of the coplanar polygon /
polygon routine (`raise TypeError('Bug detected')` when the corner points of the
common part are reported collinear), so a wrong True for three points makes
intersection() of two polygons whose common part is a triangle raise.
"""
from __future__ import annotations

import ast
from typing import List, Optional, Tuple

from .astutil import const_num, txt
from .model import AnalysisError

FIRST_FREE = 2  # indices 0 and 1 define the line


def _len_bound(test: ast.AST, coll: str) -> Tuple[Optional[int], Optional[int]]:
    """(upper bound on len(coll) when the test is true, upper bound when it is false); None = no bound"""
    if isinstance(test, ast.Compare) and len(test.ops) == 1:
        l, r, op = test.left, test.comparators[0], test.ops[0]
        flip = {ast.Lt: ast.Gt, ast.Gt: ast.Lt, ast.LtE: ast.GtE, ast.GtE: ast.LtE, ast.Eq: ast.Eq, ast.NotEq: ast.NotEq}
        if txt(r) == "len(%s)" % coll and const_num(l) is not None:
            l, r, op = r, l, flip[type(op)]()
        if txt(l) == "len(%s)" % coll and const_num(r) is not None:
            k = const_num(r)
            if k != int(k):
                return None, None
            k = int(k)
            if isinstance(op, ast.Lt):
                return k - 1, None
            if isinstance(op, ast.LtE):
                return k, None
            if isinstance(op, ast.Eq):
                return k, None
            if isinstance(op, ast.Gt):
                return None, k
            if isinstance(op, ast.GtE):
                return None, k - 1
            if isinstance(op, ast.NotEq):
                return None, k
    if isinstance(test, ast.UnaryOp) and isinstance(test.op, ast.Not):
        a, b = _len_bound(test.operand, coll)
        return b, a
    if isinstance(test, ast.BoolOp) and isinstance(test.op, ast.And):
        ups = [_len_bound(v, coll)[0] for v in test.values]
        ups = [u for u in ups if u is not None]
        return (min(ups) if ups else None), None
    return None, None


def _rejects(body: List[ast.stmt]) -> bool:
    """the loop body leaves the function with False on some element"""
    for st in body:
        for n in ast.walk(st):
            if isinstance(n, ast.Return) and isinstance(n.value, ast.Constant) and n.value.value is False:
                return True
    return False


def _loop_cover(loop: ast.For, coll: str) -> Tuple[str, str]:
    """('full' | 'partial' | 'other', explanation)"""
    it = loop.iter
    if isinstance(it, ast.Name) and it.id == coll:
        return "full", "iterates over every point"
    if isinstance(it, ast.Subscript) and isinstance(it.value, ast.Name) and it.value.id == coll and isinstance(it.slice, ast.Slice):
        lo = 0 if it.slice.lower is None else const_num(it.slice.lower)
        if it.slice.upper is None and it.slice.step is None and lo is not None:
            if lo <= FIRST_FREE:
                return "full", "iterates over %s" % txt(it)
            return "partial", "`%s` starts at index %d: index %d is never tested" % (txt(it), lo, FIRST_FREE)
        return "partial", "`%s` leaves out points at the end" % txt(it) if it.slice.upper is not None else "other"
    if isinstance(it, ast.Call) and isinstance(it.func, ast.Name) and it.func.id == "range" and 1 <= len(it.args) <= 2 and not it.keywords:
        lo = 0 if len(it.args) == 1 else const_num(it.args[0])
        hi = it.args[-1]
        if lo is None:
            return "other", ""
        if txt(hi) == "len(%s)" % coll:
            if lo <= FIRST_FREE:
                return "full", "indices %d .. len(%s) - 1" % (lo, coll)
            return "partial", "`%s` starts at index %d: index %d is never tested" % (txt(it), lo, FIRST_FREE)
        if isinstance(hi, ast.BinOp) and isinstance(hi.op, ast.Sub) and txt(hi.left) == "len(%s)" % coll and (const_num(hi.right) or 0) > 0:
            return "partial", "`%s` stops before the last point: index len(%s) - %d is never tested" % (txt(it), coll, const_num(hi.right))
        if const_num(hi) is not None:
            return "partial", "`%s` tests a fixed number of points" % txt(it)
    return "other", ""


def check_collinearity_helper(ctx, res, rule: str, short: str = "points_in_a_line", module: str = "calc.aux_calc") -> int:
    """returns the number of `return` sites examined"""
    fi = ctx.repo.fn(short, module)
    if len(fi.params) != 1:
        raise AnalysisError("%s: expected one parameter (the points)" % fi.where())
    coll = fi.params[0]
    n = [0]

    def bad(ret, why):
        res.ob(rule, fi.where(ret), "%s: `%s`" % (short, txt(ret)[:40]), False, why)
        res.violation(rule, fi, ret,
                      "%s answers True without having tested every point: %s. The first two points define the line, every further "
                      "index has to be tested; the coplanar polygon / polygon intersection uses the answer as a sanity guard and raises "
                      "TypeError('Bug detected') when the corner points of a triangular common part are reported collinear"
                      % (short, why), construct="%s: untested points before `%s`" % (short, txt(ret)[:30]))

    def block(stmts: List[ast.stmt], maxlen: Optional[int], covered: Optional[str], partial: Optional[str]):
        for st in stmts:
            if isinstance(st, ast.If):
                up_t, up_f = _len_bound(st.test, coll)
                mt = maxlen if up_t is None else (up_t if maxlen is None else min(maxlen, up_t))
                mf = maxlen if up_f is None else (up_f if maxlen is None else min(maxlen, up_f))
                block(st.body, mt, covered, partial)
                block(st.orelse, mf, covered, partial)
                # after an `if` whose then-branch always leaves, the code below runs under the negated test
                if st.body and isinstance(st.body[-1], (ast.Return, ast.Raise)) and not st.orelse:
                    maxlen = mf
            elif isinstance(st, ast.For):
                kind, why = _loop_cover(st, coll)
                if kind == "full" and _rejects(st.body):
                    covered = why
                elif kind == "partial":
                    partial = why
                elif kind == "other" or not _rejects(st.body):
                    if any(isinstance(x, ast.Return) for s_ in st.body for x in ast.walk(s_)):
                        raise AnalysisError("%s: loop `for %s in %s` is not a recognised scan of the points" % (
                            fi.where(st), txt(st.target), txt(st.iter)[:40]))
                block(st.orelse, maxlen, covered, partial)
            elif isinstance(st, ast.While):
                raise AnalysisError("%s: while-loop in %s; coverage of the points is not decided" % (fi.where(st), short))
            elif isinstance(st, ast.Return):
                n[0] += 1
                v = st.value
                if isinstance(v, ast.Constant) and v.value is True:
                    if maxlen is not None and maxlen <= FIRST_FREE:
                        res.ob(rule, fi.where(st), "%s: `return True` with at most %d points" % (short, maxlen), True,
                               "no index beyond the two defining points exists")
                    elif covered:
                        res.ob(rule, fi.where(st), "%s: `return True` after the scan" % short, True,
                               "%s, each tested with a rejecting exit" % covered)
                    elif partial:
                        bad(st, partial)
                    elif maxlen is not None:
                        bad(st, "`return True` is reached with up to %d points, of which index %s %s never tested" % (
                            maxlen, ", ".join(str(i) for i in range(FIRST_FREE, maxlen)), "is" if maxlen - FIRST_FREE == 1 else "are"))
                    else:
                        bad(st, "`return True` is reached for any number of points and none beyond the first two is tested")
                elif isinstance(v, ast.Constant):
                    pass
                elif isinstance(v, ast.Call) and isinstance(v.func, ast.Name) and v.func.id == "all" and len(v.args) == 1 \
                        and isinstance(v.args[0], (ast.GeneratorExp, ast.ListComp)) and len(v.args[0].generators) == 1:
                    g = v.args[0].generators[0]
                    fake = ast.For(target=g.target, iter=g.iter, body=[], orelse=[])
                    kind, why = _loop_cover(fake, coll)
                    if kind == "full" and not g.ifs:
                        res.ob(rule, fi.where(st), "%s: `%s`" % (short, txt(v)[:40]), True, why)
                    elif kind == "partial":
                        bad(st, why)
                    elif maxlen is not None and maxlen <= FIRST_FREE:
                        pass
                    else:
                        raise AnalysisError("%s: `%s` is not a recognised scan of the points" % (fi.where(st), txt(v)[:50]))
                else:
                    raise AnalysisError("%s: the value returned by `%s` is not a recognised form" % (fi.where(st), txt(st)[:50]))
            elif isinstance(st, (ast.Try, ast.With)):
                block(st.body, maxlen, covered, partial)

    block(fi.node.body, None, None, None)
    return n[0]


def check_pivot_choice(ctx, res, rule: str) -> int:
    """The linear solver's pivot search: `find_pivot_row(m)` receives the rows cut at the pivot column
    (`[row[j:] for row in m[j:]]`), so column 0 is the pivot column.  The element it tests for being usable and the element
    it ranks the candidates by must both be that column: every constant subscript of the row variable is 0.  A row chosen by
    another column can have float noise in the pivot position; the elimination then divides by it."""
    try:
        fi = ctx.repo.fn("find_pivot_row", "utils.solver")
    except AnalysisError:
        res.note("the solver has no find_pivot_row; pivot choice not evaluated")
        return 0
    mat = fi.params[0] if fi.params else None
    rows = set()
    for lp in ast.walk(fi.node):
        if isinstance(lp, (ast.For, ast.comprehension)):
            t = lp.target
            if isinstance(t, ast.Tuple) and len(t.elts) == 2 and isinstance(t.elts[1], ast.Name) and txt(lp.iter) == "enumerate(%s)" % mat:
                rows.add(t.elts[1].id)
            elif isinstance(t, ast.Name) and txt(lp.iter) == mat:
                rows.add(t.id)
    subs = [n for n in ast.walk(fi.node) if isinstance(n, ast.Subscript) and (
        (isinstance(n.value, ast.Name) and n.value.id in rows) or
        (isinstance(n.value, ast.Subscript) and isinstance(n.value.value, ast.Name) and n.value.value.id == mat))]
    if not subs:
        res.note("find_pivot_row reads no row element in a recognised form; pivot choice not evaluated")
        return 0
    # the pivot is chosen by magnitude (partial pivoting): after one elimination step an entry that is 0 in exact arithmetic
    # is float noise (1e-16); a search that takes the FIRST row whose leading entry is `!= 0` picks that noise as pivot
    by_magnitude = any(isinstance(c, ast.Call) and isinstance(c.func, ast.Name) and c.func.id in ("max", "sorted", "min")
                       for c in ast.walk(fi.node)) and any(isinstance(c, ast.Call) and isinstance(c.func, ast.Name) and c.func.id == "abs"
                                                            for c in ast.walk(fi.node))
    first_hit = [r for lp in ast.walk(fi.node) if isinstance(lp, ast.For) for r in ast.walk(lp)
                 if isinstance(r, ast.Return) and r.value is not None and not (isinstance(r.value, ast.Constant) and r.value.value is None)]
    if first_hit and not by_magnitude:
        res.ob(rule, fi.where(first_hit[0]), "find_pivot_row chooses the pivot by magnitude", False,
               "returns the first row that passes the test: `%s`" % txt(first_hit[0]))
        res.violation(rule, fi, first_hit[0],
                      "find_pivot_row returns the first row whose leading entry passes an exact `!= 0` test instead of the row with the "
                      "largest absolute leading entry: after one elimination step an entry that is 0 in exact arithmetic is float noise "
                      "(1e-16) in oblique position, is taken as the pivot, and the elimination divides by it -- crossing lines are "
                      "reported as not meeting, or Solution() raises", construct="find_pivot_row: first non-zero row as pivot")
    elif by_magnitude:
        res.ob(rule, fi.where(), "find_pivot_row chooses the pivot by magnitude", True, "max / sorted over abs(leading entry)")
    n = 0
    for sb in subs:
        k = const_num(sb.slice)
        if k is None:
            raise AnalysisError("%s: `%s` is not a constant column" % (fi.where(sb), txt(sb)))
        n += 1
        ok = k == 0
        res.ob(rule, fi.where(sb), "find_pivot_row reads `%s`" % txt(sb), ok, "the pivot column" if ok else "column %d is not the pivot column" % k)
        if not ok:
            res.violation(rule, fi, sb,
                          "find_pivot_row reads `%s`: the rows it receives are cut at the pivot column, so the pivot element is element 0; "
                          "choosing or ranking rows by another column can select a row whose pivot element is float noise (or zero), and "
                          "the elimination divides by it -- intersections in oblique position lose points or raise" % txt(sb),
                          construct="find_pivot_row column `%s`" % txt(sb))
    return n



def check_general_form_point(ctx, res, rule: str) -> int:
    """Plane(a, b, c, d) denotes a x + b y + c z = d; (k a, k b, k c, k d) denotes the same plane for every k != 0, so the
    point stored for it must not change when the four numbers are scaled together: degree 0.  Degrees: a, b, c, d: 1;
    Vector(a, b, c): 1; normalized(): 0; products add, quotients subtract; the solution of `solve([[a, b, c, d]])` is a point of
    the plane whatever the scale: 0.  `Point(n * d)` with the unit normal n has degree 1: it lies on the plane only when
    (a, b, c) happens to have length 1."""
    try:
        gf = ctx.repo.cls("Plane").lookup("_init_gf")
    except Exception:
        gf = None
    if gf is None or len(gf.params) != 5:
        res.note("Plane has no _init_gf(self, a, b, c, d); the general form is not evaluated")
        return 0
    coef = set(gf.params[1:])
    sn = gf.self_name
    from .astutil import single_defs
    defs = single_defs(gf.node, gf.params)
    fields = {}
    for st in ast.walk(gf.node):
        if isinstance(st, ast.Assign) and len(st.targets) == 1 and isinstance(st.targets[0], ast.Attribute) \
                and isinstance(st.targets[0].value, ast.Name) and st.targets[0].value.id == sn:
            fields[st.targets[0].attr] = st.value

    def deg(e, depth=0):
        if depth > 8:
            return None
        if isinstance(e, ast.Constant) and isinstance(e.value, (int, float)):
            return 0
        if isinstance(e, ast.Name):
            if e.id in coef:
                return 1
            if e.id in defs:
                return deg(defs[e.id], depth + 1)
            return None
        if isinstance(e, ast.Attribute) and isinstance(e.value, ast.Name) and e.value.id == sn and e.attr in fields:
            return deg(fields[e.attr], depth + 1)
        if isinstance(e, ast.UnaryOp):
            return deg(e.operand, depth + 1)
        if isinstance(e, ast.Starred):
            return deg(e.value, depth + 1)
        if isinstance(e, ast.Subscript):
            return deg(e.value, depth + 1)
        if isinstance(e, ast.BinOp):
            l, r = deg(e.left, depth + 1), deg(e.right, depth + 1)
            if l is None or r is None:
                return None
            if isinstance(e.op, ast.Mult):
                return l + r
            if isinstance(e.op, ast.Div):
                return l - r
            if isinstance(e.op, (ast.Add, ast.Sub)):
                return l if l == r else None
            if isinstance(e.op, ast.Pow) and const_num(e.right) is not None:
                return l * const_num(e.right)
            return None
        if isinstance(e, (ast.Tuple, ast.List)):
            ds = {deg(x, depth + 1) for x in e.elts}
            return ds.pop() if len(ds) == 1 else None
        if isinstance(e, ast.Call):
            f = e.func
            if isinstance(f, ast.Name) and f.id in ("Vector", "Point"):
                ds = {deg(a, depth + 1) for a in e.args}
                return ds.pop() if len(ds) == 1 else None
            def solve_deg(call_):
                # solve([[c1, c2, c3, rhs]]): the solution scales like rhs / coefficients
                if call_.args and isinstance(call_.args[0], ast.List) and len(call_.args[0].elts) == 1 and isinstance(call_.args[0].elts[0], ast.List) \
                        and len(call_.args[0].elts[0].elts) >= 2:
                    row_ = call_.args[0].elts[0].elts
                    cs_ = {deg(x_, depth + 1) for x_ in row_[:-1]}
                    r_ = deg(row_[-1], depth + 1)
                    if len(cs_) == 1 and None not in cs_ and r_ is not None:
                        return r_ - cs_.pop()
                    return None
                return None
            if isinstance(f, ast.Name) and f.id == "solve":
                return solve_deg(e)
            if isinstance(f, ast.Name) and f.id in defs and isinstance(defs[f.id], ast.Call) and txt(defs[f.id].func) == "solve":
                return solve_deg(defs[f.id])  # solution(1, 1): a point of the solution set
            if isinstance(f, ast.Attribute) and f.attr in ("normalized", "unit") and not e.args:
                return 0 if deg(f.value, depth + 1) is not None else None
            if isinstance(f, ast.Attribute) and f.attr == "length" and not e.args:
                return deg(f.value, depth + 1)
            if isinstance(f, ast.Name) and f.id in ("abs", "float"):
                return deg(e.args[0], depth + 1) if e.args else None
            if isinstance(f, ast.Attribute) and f.attr == "sqrt" and e.args:
                d_ = deg(e.args[0], depth + 1)
                return None if d_ is None else d_ / 2
        return None

    if "p" not in fields and not any(k for k in fields):
        return 0
    n = 0
    for fname, v in sorted(fields.items()):
        tys = {str(t) for t in ctx.types.types_at(gf, v) if not isinstance(t, tuple)}
        if tys != {"Point"}:
            continue
        n += 1
        d_ = deg(v)
        if d_ is None:
            res.note("%s the degree of `%s` in Plane._init_gf is not determined; general form not evaluated" % (gf.where(v), txt(v)[:50]))
            continue
        ok = d_ == 0
        res.ob(rule, gf.where(v), "Plane(a, b, c, d): the stored point is the same for (k a, k b, k c, k d)", ok,
               "`%s` has degree %s in (a, b, c, d)" % (txt(v)[:50], d_))
        if not ok:
            res.violation(rule, gf, v,
                          "Plane(a, b, c, d) stores the point `%s`, which scales like k^%s when the equation is multiplied by k: (a, b, c, d) and "
                          "(k a, k b, k c, k d) are the same plane a x + b y + c z = d, so the point lies on it only for one scale (a unit "
                          "coefficient vector); every membership / distance / intersection with a plane given in general form refers to a "
                          "displaced parallel plane" % (txt(v)[:50], d_), construct="Plane._init_gf: stored point of degree %s" % d_)
    return n
