"""Affine weights: positions and directions must not be confused.

Under the translation of every input position by one vector t, a vector-valued
expression changes by  w * t  for an integer weight w whenever it is built from
positions and directions by + and -:

    a Point, a position vector (p.pv(), Line.sv)      w = 1
    a difference of positions, a direction (Line.dv)  w = 0
    sum / difference                                  weights add / subtract
    scalar * direction, normalised, cross product     w = 0
    everything else                                   unknown

The constructors of the geometry classes have *slots* that fix the weight of a
Vector argument:  Point(v) needs w = 1;  the second argument of Line / Segment /
HalfLine / Plane given as a Vector is a direction, w = 0;  the first argument
of Line given as a Vector is a position vector, w = 1;  obj.move(v) needs
w = 0.  A Vector argument whose weight is known and differs from its slot is a
definite error: the object built is not the translate of the object built from
the translated inputs (`Point(h.vector)`, `Line(p, p.pv() + d)`, `Line(d, p)`).

The interpretation runs per E1 context (only the statements reached with the
given parameter types; the E1 type of an expression decides whether it is a
Point or a Vector), flow-sensitively over the structured statements.  A Vector
*parameter* may be a position vector or a direction: both are tried, and a
function is reported only when every choice leads to a mismatch (so
Segment(Point, Vector) with `Line(b, a)` next to `Point(a.pv() + b)` is
reported: b cannot be a position vector for the first and a direction for the
second).  The parameter of move() is a direction by definition.
"""
from __future__ import annotations

import ast
import itertools
from typing import Dict, List, Optional, Tuple

from .astutil import txt
from .model import GEOM7, FunctionInfo

# constructor slots: class -> {number of arguments or None: {argument index: required weight when the argument is a Vector}}
SLOTS = {
    "Point": {1: {0: 1}},
    "Line": {2: {0: 1, 1: 0}},
    "Segment": {2: {1: 0}},
    "HalfLine": {2: {1: 0}},
    "Plane": {2: {1: 0}, 3: {1: 0, 2: 0}},
}
WHAT = {1: "a position vector", 0: "a direction (a difference of positions)"}


def _join(a, b):
    return a if a == b else None


class _Run:
    def __init__(self, A: "Affine", fi: FunctionInfo, bound: tuple, sm, assign: Dict[str, int]):
        self.A = A
        self.fi = fi
        self.bound = bound
        self.sm = sm
        self.eng = A.eng
        self.events: List[Tuple[ast.AST, str]] = []
        self.env: Dict[str, Optional[int]] = dict(assign)
        self.ret: Optional[int] = None
        self.has_ret = False
        self.slots = 0  # Vector arguments in constructor / move slots whose weight is known
        self.stores: List[Tuple[str, Optional[int]]] = []  # (field, weight) of the Vector-valued stores into self

    # ---- E1 types in this context
    def tys(self, e) -> set:
        return {str(t) for t in self.eng.ctx_node_types.get((self.fi.qual, self.bound, id(e)), ()) if not isinstance(t, tuple)}

    def is_vec(self, e) -> bool:
        return self.tys(e) == {"Vector"}

    def is_point(self, e) -> bool:
        return self.tys(e) == {"Point"}

    # ---- weights of expressions
    def w(self, e) -> Optional[int]:
        if e is None:
            return None
        if self.is_point(e):
            return 1
        if isinstance(e, ast.Name):
            return self.env.get(e.id)
        if not self.is_vec(e):
            if isinstance(e, ast.IfExp):
                return _join(self.w(e.body), self.w(e.orelse))
            return None
        if isinstance(e, ast.Attribute):
            key = txt(e)
            if key in self.env:
                return self.env[key]
            out, first = None, True
            for cn in self.tys(e.value):
                if cn in GEOM7:
                    k = self.A.field_weight(cn, e.attr)
                    out = k if first else _join(out, k)
                    first = False
                else:
                    return None
            return out
        if isinstance(e, ast.BinOp):
            if isinstance(e.op, (ast.Add, ast.Sub)):
                l, r = self.w(e.left), self.w(e.right)
                if l is None or r is None:
                    return None
                return l + r if isinstance(e.op, ast.Add) else l - r
            if isinstance(e.op, (ast.Mult, ast.Div, ast.MatMult)):
                vs = [x for x in (e.left, e.right) if self.is_vec(x) or self.is_point(x)]
                if len(vs) == 1:
                    return 0 if self.w(vs[0]) == 0 else None
            return None
        if isinstance(e, ast.UnaryOp) and isinstance(e.op, ast.USub):
            k = self.w(e.operand)
            return -k if k is not None else None
        if isinstance(e, ast.IfExp):
            return _join(self.w(e.body), self.w(e.orelse))
        if isinstance(e, ast.Call):
            f = e.func
            if txt(f) in ("copy.deepcopy", "copy.copy", "deepcopy") and e.args:
                return self.w(e.args[0])
            if isinstance(f, ast.Attribute):
                if f.attr == "pv" and self.is_point(f.value) and not e.args:
                    return 1
                if self.is_vec(f.value):
                    if f.attr in ("normalized", "unit") and not e.args:
                        return 0 if self.w(f.value) == 0 else None
                    if f.attr == "cross" and len(e.args) == 1:
                        return 0 if self.w(f.value) == 0 and self.w(e.args[0]) == 0 else None
                    if f.attr in ("__neg__",):
                        k = self.w(f.value)
                        return -k if k is not None else None
            if isinstance(f, ast.Name):
                b = self.fi.resolve(f.id)
                if b is not None and b.kind == "class" and b.target.name == "Vector":
                    if len(e.args) == 2 and self.is_point(e.args[0]) and self.is_point(e.args[1]):
                        return 0
                    if len(e.args) == 1 and (self.is_vec(e.args[0]) or self.is_point(e.args[0])):
                        return self.w(e.args[0])
                    return None
            return self.A.call_weight(self, e)
        return None

    # ---- slot checks
    def check_call(self, e: ast.Call):
        f = e.func
        cn = None
        if isinstance(f, ast.Name):
            b = self.fi.resolve(f.id)
            if b is not None and b.kind == "class":
                cn = b.target.name
            elif f.id == "cls" and self.fi.cls is not None:
                cn = self.fi.cls.name
        if cn in SLOTS and not e.keywords and not any(isinstance(a, ast.Starred) for a in e.args):
            req = SLOTS[cn].get(len(e.args), {})
            for i, need in req.items():
                a = e.args[i]
                if not self.is_vec(a):
                    continue
                got = self.w(a)
                if got is not None:
                    self.slots += 1
                if got is not None and got != need:
                    self.events.append((e, "`%s`: argument %d of %s given as a Vector is %s, but `%s` %s" % (
                        txt(e)[:60], i + 1, cn, WHAT[need], txt(a)[:40], self.describe(got))))
        if isinstance(f, ast.Attribute) and f.attr == "move" and len(e.args) == 1 and self.is_vec(e.args[0]):
            recv = self.tys(f.value)
            if recv and recv <= set(GEOM7):
                got = self.w(e.args[0])
                if got is not None:
                    self.slots += 1
                if got is not None and got != 0:
                    self.events.append((e, "`%s`: the argument of move is a displacement, but `%s` %s" % (
                        txt(e)[:60], txt(e.args[0])[:40], self.describe(got))))

    @staticmethod
    def describe(got: int) -> str:
        if got == 1:
            return "is a position (it moves with the object)"
        if got == 0:
            return "is a direction (it does not move with the object)"
        return "changes by %d times the translation (a sum of %d positions)" % (got, got) if got > 1 else "changes by %d times the translation" % got

    # ---- statements
    def visit_exprs(self, node):
        for n in ast.walk(node):
            if isinstance(n, ast.Call):
                self.check_call(n)

    def bind(self, t, wv, value=None):
        if isinstance(t, ast.Name):
            self.env[t.id] = wv
        elif isinstance(t, ast.Attribute):
            self.env[txt(t)] = wv
            if isinstance(t.value, ast.Name) and t.value.id == self.fi.self_name and (value is None or self.is_vec(value)):
                self.stores.append((t.attr, wv))
        elif isinstance(t, (ast.Tuple, ast.List)):
            if isinstance(value, (ast.Tuple, ast.List)) and len(value.elts) == len(t.elts):
                for a, b in zip(t.elts, value.elts):
                    self.bind(a, self.w(b), b)
            else:
                for a in t.elts:
                    self.bind(a, None)

    def reached(self, st) -> bool:
        return id(st) in self.sm.reached

    def block(self, stmts):
        for st in stmts:
            if not self.reached(st):
                continue
            self.stmt(st)

    def stmt(self, st):
        if isinstance(st, ast.Assign):
            self.visit_exprs(st.value)
            wv = self.w(st.value)
            for t in st.targets:
                self.bind(t, wv, st.value)
        elif isinstance(st, ast.AugAssign):
            self.visit_exprs(st.value)
            if isinstance(st.target, ast.Name):
                l, r = self.env.get(st.target.id), self.w(st.value)
                if isinstance(st.op, (ast.Add, ast.Sub)) and l is not None and r is not None:
                    self.env[st.target.id] = l + r if isinstance(st.op, ast.Add) else l - r
                else:
                    self.env[st.target.id] = None
        elif isinstance(st, ast.If):
            self.visit_exprs(st.test)
            e0 = dict(self.env)
            self.block(st.body)
            e1 = self.env
            self.env = dict(e0)
            self.block(st.orelse)
            e2 = self.env
            body_reached = any(self.reached(s) for s in st.body)
            else_reached = any(self.reached(s) for s in st.orelse) or not st.orelse
            if body_reached and not else_reached:
                self.env = e1
            elif else_reached and not body_reached:
                self.env = e2
            else:
                self.env = {k: _join(e1.get(k), e2.get(k)) for k in set(e1) | set(e2)}
        elif isinstance(st, (ast.For, ast.While)):
            if isinstance(st, ast.For):
                self.visit_exprs(st.iter)
            else:
                self.visit_exprs(st.test)
            for _ in range(2):
                e0 = dict(self.env)
                if isinstance(st, ast.For):
                    self.bind(st.target, 1 if self.is_point(st.target) else None)
                self.block(st.body)
                self.env = {k: _join(e0.get(k), self.env.get(k)) for k in set(e0) | set(self.env)}
            self.block(st.orelse)
        elif isinstance(st, ast.Return):
            if st.value is not None:
                self.visit_exprs(st.value)
                wv = self.w(st.value)
                self.ret = wv if not self.has_ret else _join(self.ret, wv)
                self.has_ret = True
        elif isinstance(st, ast.Expr):
            self.visit_exprs(st.value)
        elif isinstance(st, ast.Try):
            self.block(st.body)
            for h in st.handlers:
                self.block(h.body)
            self.block(st.orelse)
            self.block(st.finalbody)
        elif isinstance(st, ast.With):
            self.block(st.body)
        elif isinstance(st, (ast.Raise, ast.Assert)):
            for c in ast.iter_child_nodes(st):
                if isinstance(c, ast.expr):
                    self.visit_exprs(c)

    def run(self):
        self.block(self.fi.node.body)
        return self


class Affine:
    def __init__(self, ctx):
        self.ctx = ctx
        self.eng = ctx.types
        self.T = ctx.transl
        self.memo: Dict[tuple, Optional[int]] = {}
        self.inprog = set()
        self.slots_of: Dict[str, int] = {}
        self.fw: Dict[Tuple[str, str], Optional[int]] = {}
        self.fw_inprog = set()
        self.events_memo: Dict[str, list] = {}

    def fixed_params(self, fi: FunctionInfo, bound: tuple) -> Dict[str, int]:
        """Vector parameters whose weight the API fixes: the constructor slots, the displacement of move()"""
        out = {}
        vps = self.vector_params(fi, bound)
        if fi.name == "move" and len(vps) == 1:
            out[vps[0]] = 0
        if (fi.name == "__init__" or fi.name.startswith("_init")) and fi.cls is not None and fi.cls.name in SLOTS and fi.vararg is None:
            req = SLOTS[fi.cls.name].get(len(fi.params) - 1, {})
            for i, need in req.items():
                if i + 1 < len(fi.params) and fi.params[i + 1] in vps:
                    out[fi.params[i + 1]] = need
        return out

    def field_weight(self, cn: str, f: str) -> Optional[int]:
        """weight of a Vector-valued field: the one weight of all stores whose weight is known (constructor parameters weighted
        by their slots); None when no store is known or two stores disagree"""
        key = (cn, f)
        if key in self.fw:
            return self.fw[key]
        if key in self.fw_inprog:
            return None
        self.fw_inprog.add(key)
        try:
            ws = set()
            c = self.ctx.repo.cls(cn)
            for m in c.methods.values():
                if m.self_name is None:
                    continue
                if not any(isinstance(n, ast.Attribute) and n.attr == f and isinstance(n.ctx, ast.Store) for n in ast.walk(m.node)):
                    continue
                for bound, sm in self.eng.summaries_of(m):
                    r = _Run(self, m, bound, sm, self.fixed_params(m, bound)).run()
                    for g, wv in r.stores:
                        if g == f and wv is not None:
                            ws.add(wv)
            out = next(iter(ws)) if len(ws) == 1 else None
        finally:
            self.fw_inprog.discard(key)
        self.fw[key] = out
        return out

    def vector_params(self, fi: FunctionInfo, bound: tuple) -> List[str]:
        out = []
        for i, (nm, ts) in enumerate(bound):
            if i == 0 and fi.self_name == nm:
                continue
            if {str(t) for t in ts if not isinstance(t, tuple)} == {"Vector"} and not any(isinstance(t, tuple) for t in ts):
                out.append(nm)
        return out

    def call_weight(self, run: _Run, e: ast.Call) -> Optional[int]:
        """weight of the Vector returned by a package function, from the weights of its arguments"""
        tg = self.eng.call_targets.get((run.fi.qual, id(e)), set())
        if len(tg) != 1:
            return None
        q = next(iter(tg))
        callee = self.eng.fn_by_qual.get(q)
        if callee is None or callee.cls is not None and callee.cls.name == "Vector":
            return None
        # the callee context that matches the argument types at this call
        args = list(e.args)
        recv = [e.func.value] if isinstance(e.func, ast.Attribute) and callee.self_name is not None else []
        actual = recv + args
        for bound, sm in self.eng.summaries_of(callee):
            ok = True
            assign = {}
            for (nm, ts), a in zip(bound, actual):
                at = {str(t) for t in self.eng.ctx_node_types.get((run.fi.qual, run.bound, id(a)), ()) if not isinstance(t, tuple)}
                bt = {str(t) for t in ts if not isinstance(t, tuple)}
                if at and bt and not (at <= bt):
                    ok = False
                    break
                assign[nm] = run.w(a)
            if not ok or len(bound) < len(actual):
                continue
            key = (callee.qual, bound, tuple(sorted(assign.items())))
            if key in self.memo:
                return self.memo[key]
            if key in self.inprog or len(self.inprog) > 6:
                return None
            self.inprog.add(key)
            try:
                r = _Run(self, callee, bound, sm, assign).run()
                out = r.ret if r.has_ret else None
            finally:
                self.inprog.discard(key)
            self.memo[key] = out
            return out
        return None

    def events_of(self, fi: FunctionInfo) -> List[Tuple[FunctionInfo, ast.AST, str, str]]:
        """definite slot mismatches of one function: [(function, node, message, context)]"""
        out = []
        seen = set()
        self.slots_of[fi.qual] = 0
        if fi.cls is not None and fi.cls.name == "Vector":
            return out
        for bound, sm in self.eng.summaries_of(fi):
            fixed = self.fixed_params(fi, bound)
            vps = [v for v in self.vector_params(fi, bound) if v not in fixed]
            if len(vps) > 4:
                continue
            best = None
            for combo in itertools.product((0, 1), repeat=len(vps)):
                assign = dict(fixed)
                assign.update(dict(zip(vps, combo)))
                r = _Run(self, fi, bound, sm, assign).run()
                self.slots_of[fi.qual] = max(self.slots_of[fi.qual], r.slots)
                if not r.events:
                    best = None
                    break
                if best is None or len(r.events) < len(best[1]):
                    best = (assign, r.events)
            else:
                pass
            if best is None:
                continue
            assign, evs = best
            from .types import show
            cdesc = "%s(%s)" % (fi.short, ", ".join(show(ts) for _, ts in bound))
            if vps:
                cdesc += "; whichever of position vector / direction the Vector parameter%s %s %s" % (
                    "s" if len(vps) > 1 else "", ", ".join("`%s`" % v for v in vps), "are" if len(vps) > 1 else "is")
            for node, msg in evs:
                k = (fi.qual, getattr(node, "lineno", 0), msg)
                if k in seen:
                    continue
                seen.add(k)
                out.append((fi, node, msg, cdesc))
        return out


def report_affine(ctx, res, rule: str, functions, what: str) -> int:
    """one violation per definite position / direction mismatch in the given functions; returns the number of
    (function, context) pairs examined"""
    A = ctx.cache.get("affine")
    if A is None:
        A = ctx.cache["affine"] = Affine(ctx)
    n = 0
    for fi in functions:
        n += len(ctx.types.summaries_of(fi))
        if fi.qual not in A.events_memo:
            A.events_memo[fi.qual] = A.events_of(fi)
        evs = A.events_memo[fi.qual]
        if not evs and A.slots_of.get(fi.qual):
            res.ob(rule, fi.where(), "%s: positions and directions" % fi.short, True,
                   "%d Vector argument(s) of known weight in constructor / move slots, all of the weight the slot needs (%d context(s))"
                   % (A.slots_of[fi.qual], len(ctx.types.summaries_of(fi))))
        for f, node, msg, cdesc in evs:
            res.ob(rule, f.where(node), "%s: `%s`" % (f.short, txt(node)[:50]), False, msg)
            res.violation(rule, f, node,
                          "position / direction mismatch in %s (context %s): %s. The object built this way is not the translate of the "
                          "object built from translated inputs: %s depends on where the coordinate origin is"
                          % (f.short, cdesc, msg, what), construct="%s: affine mismatch `%s`" % (f.short, txt(node)[:50]))
    return n


def affine_scope(ctx, roots, classes=()) -> List[FunctionInfo]:
    """the root functions, what they reach (context-sensitive call graph), and the constructors of the named classes"""
    eng = ctx.types
    reached = eng.reached_from_functions(roots)
    out = [f for f in ctx.repo.functions(include_visualization=False) if f.qual in reached]
    for cn in classes:
        c = ctx.repo.cls(cn)
        for m in c.methods.values():
            if (m.name == "__init__" or m.name.startswith("_init")) and m not in out:
                out.append(m)
    return out
