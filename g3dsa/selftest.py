"""Thorough tier: checker self-validation on scratch copies of the *current* tree.

For every mutant of the property's catalogue (g3dsa/mutants.py) the package is
copied to a scratch directory outside /repo and /verif, one function is edited
at AST level (the edit is expressed on the function's `ast.unparse` normal form,
so it is independent of formatting and line numbers), the property's rules are
run on the copy and the scratch directory is removed.

  fault   mutants must produce a finding that the unmodified tree does not have
  neutral mutants must produce exactly the findings of the unmodified tree

A miss or a false alarm means the *checker* is broken: exit 2, never a
VIOLATION on the tree.  The registered commands never run the test suite.
"""
from __future__ import annotations

import ast
import multiprocessing as mp
import os
import random
import shutil
import tempfile
import time
import traceback
from typing import Any, Dict, List, Optional

from .model import AnalysisError, Repo


class Mutant:
    def __init__(self, name, kind, file, func, find, replace, rule=None, count=1, note="", base=None):
        self.base = base  # id of a behaviour-preserving refactor under /verif/seeded that is applied first (stacked variant)
        self.name = name
        self.kind = kind  # fault | neutral
        self.file = file  # relative to repo root
        self.func = func  # 'Class.method' / 'function' / None (whole module)
        self.find = find
        self.replace = replace
        self.rule = rule  # expected rule id of the new finding (fault only)
        self.count = count
        self.note = note


def _find_func(tree: ast.Module, short: str):
    parts = short.split(".")
    body = tree.body
    node = None
    for i, p in enumerate(parts):
        node = None
        for st in body:
            if isinstance(st, (ast.FunctionDef, ast.ClassDef)) and st.name == p:
                node = st
                break
        if node is None:
            return None, None
        parent_body = body
        body = node.body
    return node, parent_body


def apply_mutant(root: str, m: Mutant) -> Optional[str]:
    """Edit the scratch copy in place.  Returns None on success, or a reason why the
    mutant is not applicable to the current source."""
    path = os.path.join(root, m.file)
    if not os.path.isfile(path):
        return "file missing"
    src = open(path, encoding="utf-8").read()
    tree = ast.parse(src)
    if m.func is None:
        text = ast.unparse(tree)
        if (m.count and text.count(m.find) != m.count) or text.count(m.find) == 0:
            return "pattern occurs %d times in module (expected %d)" % (text.count(m.find), m.count)
        new = text.replace(m.find, m.replace)
        ast.parse(new)
        open(path, "w", encoding="utf-8").write(new + "\n")
        return None
    node, parent_body = _find_func(tree, m.func)
    if node is None:
        return "function %s not found" % m.func
    text = ast.unparse(node)
    if (m.count and text.count(m.find) != m.count) or text.count(m.find) == 0:
        return "pattern occurs %d times in %s (expected %d)" % (text.count(m.find), m.func, m.count)
    new = text.replace(m.find, m.replace)
    try:
        new_nodes = ast.parse(new).body
    except SyntaxError as e:
        return "mutant does not parse: %s" % e
    idx = parent_body.index(node)
    parent_body[idx:idx + 1] = new_nodes
    out = ast.unparse(tree)
    compile(out, path, "exec")  # the variant must still compile
    open(path, "w", encoding="utf-8").write(out + "\n")
    return None


def make_scratch(repo_root: str) -> str:
    d = tempfile.mkdtemp(prefix="g3dsa_mut_")
    shutil.copytree(os.path.join(repo_root, "Geometry3D"), os.path.join(d, "Geometry3D"),
                    ignore=shutil.ignore_patterns("__pycache__", "*.pyc"))
    doc = os.path.join(repo_root, "docs", "source", "example_operation.rst")
    if os.path.isfile(doc):
        os.makedirs(os.path.join(d, "docs", "source"))
        shutil.copy(doc, os.path.join(d, "docs", "source", "example_operation.rst"))
    return d


def _run_one(args):
    prop, repo_root, m = args
    from .check import run_property

    d = make_scratch(repo_root)
    t0 = time.time()
    try:
        if getattr(m, "base", None):
            import subprocess
            pp = os.path.join(os.path.dirname(os.path.dirname(os.path.abspath(__file__))), "seeded", m.base, "patch.diff")
            r = subprocess.run(["patch", "-p1", "-s", "-d", d, "-i", pp], capture_output=True, text=True)
            if r.returncode != 0:
                return {"name": m.name, "kind": m.kind, "status": "inapplicable", "why": "base refactor %s does not apply: %s" % (
                    m.base, (r.stdout + r.stderr).strip()[:120])}
        why = apply_mutant(d, m)
        if why is not None:
            return {"name": m.name, "kind": m.kind, "status": "inapplicable", "why": why}
        try:
            res = run_property(prop, d)
        except AnalysisError as e:
            return {"name": m.name, "kind": m.kind, "status": "analysis-error", "why": str(e)[:300]}
        return {
            "name": m.name, "kind": m.kind, "status": "ran",
            "keys": [list(k) for k in sorted(res.finding_keys())],
            "messages": {str(list(f.key())): f.message[:200] for f in res.findings},
            "wall_s": round(time.time() - t0, 2),
        }
    except Exception:
        return {"name": m.name, "kind": m.kind, "status": "crash", "why": traceback.format_exc()[-600:]}
    finally:
        shutil.rmtree(d, ignore_errors=True)


def seeded_changes(prop: str) -> List[Dict[str, Any]]:
    """seeded breaking changes (written by independent sub-agents, confirmed by hand) that this
    property's check is recorded to detect: /verif/seeded/<id>/{patch.diff, meta.json}"""
    import json

    root = os.path.join(os.path.dirname(os.path.dirname(os.path.abspath(__file__))), "seeded")
    out = []
    if not os.path.isdir(root):
        return out
    for sid in sorted(os.listdir(root)):
        mp = os.path.join(root, sid, "meta.json")
        pp = os.path.join(root, sid, "patch.diff")
        if os.path.isfile(mp) and os.path.isfile(pp):
            meta = json.load(open(mp))
            if prop in meta.get("detected_by", []):
                out.append({"id": sid, "patch": pp, "meta": meta})
    return out


def neutral_refactors() -> List[Dict[str, Any]]:
    """behaviour-preserving refactors written by independent sub-agents (tests pass, differential check SAME):
    /verif/seeded/neutral-*/{patch.diff, meta.json}; every check must stay silent on them"""
    import json

    root = os.path.join(os.path.dirname(os.path.dirname(os.path.abspath(__file__))), "seeded")
    out = []
    if not os.path.isdir(root):
        return out
    for sid in sorted(os.listdir(root)):
        mp_ = os.path.join(root, sid, "meta.json")
        pp = os.path.join(root, sid, "patch.diff")
        if os.path.isfile(mp_) and os.path.isfile(pp):
            meta = json.load(open(mp_))
            if meta.get("kind") in ("neutral", "neutral-outside-fragment"):
                out.append({"id": sid, "patch": pp, "meta": meta})
    return out


def _run_seeded(args):
    import subprocess

    prop, repo_root, sc = args
    from .check import run_property

    d = make_scratch(repo_root)
    try:
        r = subprocess.run(["patch", "-p1", "-s", "-d", d, "-i", sc["patch"]], capture_output=True, text=True)
        if r.returncode != 0:
            return {"id": sc["id"], "status": "inapplicable", "why": (r.stdout + r.stderr).strip()[:200]}
        try:
            res = run_property(prop, d)
        except AnalysisError as e:
            return {"id": sc["id"], "status": "analysis-error", "why": str(e)[:300]}
        return {"id": sc["id"], "status": "ran", "keys": [list(k) for k in sorted(res.finding_keys())],
                "messages": {str(list(f.key())): f.message[:200] for f in res.findings}}
    except Exception:
        return {"id": sc["id"], "status": "crash", "why": traceback.format_exc()[-400:]}
    finally:
        shutil.rmtree(d, ignore_errors=True)


def run_selftest(prop: str, repo_root: str, base_res, seed: int = 0, jobs: int = 16,
                 only: Optional[List[str]] = None) -> Dict[str, Any]:
    from .mutants import catalogue

    muts: List[Mutant] = catalogue(prop)
    if only:
        muts = [m for m in muts if m.name in only]
    rnd = random.Random(seed)
    order = list(muts)
    rnd.shuffle(order)
    base = {tuple(k) for k in base_res.finding_keys()}
    t0 = time.time()
    if jobs > 1 and len(order) > 1:
        with mp.get_context("fork").Pool(min(jobs, len(order))) as pool:
            outs = pool.map(_run_one, [(prop, repo_root, m) for m in order], chunksize=1)
    else:
        outs = [_run_one((prop, repo_root, m)) for m in order]
    by_name = {m.name: m for m in muts}
    broken: List[str] = []
    rows = []
    n_fault = n_fault_ok = n_neutral = n_neutral_ok = n_inapp = 0
    for o in sorted(outs, key=lambda x: x["name"]):
        m = by_name[o["name"]]
        row = {"mutant": m.name, "kind": m.kind, "file": m.file, "function": m.func, "status": o["status"]}
        if o["status"] == "inapplicable":
            n_inapp += 1
            row["why"] = o["why"]
            rows.append(row)
            continue
        if o["status"] == "crash":
            broken.append("%s: analyser crashed on the variant: %s" % (m.name, o["why"].strip().splitlines()[-1]))
            row["why"] = o["why"]
            rows.append(row)
            continue
        if m.kind == "fault":
            n_fault += 1
            if o["status"] == "analysis-error":
                # fail-closed is acceptable for a fault only if declared so
                if m.rule == "ANALYSIS-ERROR":
                    n_fault_ok += 1
                    row["verdict"] = "fails closed (exit 2) as declared"
                else:
                    broken.append("%s: fault variant made the analyser give up instead of reporting: %s" % (m.name, o["why"]))
                    row["verdict"] = "analysis-error: " + o["why"]
                rows.append(row)
                continue
            new = [k for k in map(tuple, o["keys"]) if k not in base]
            hit = [k for k in new if m.rule is None or k[1] == m.rule]
            if hit:
                n_fault_ok += 1
                row["verdict"] = "reported"
                row["finding"] = {"rule": hit[0][1], "function": hit[0][3], "construct": hit[0][4],
                                  "message": o["messages"].get(str(list(hit[0])), "")}
            else:
                broken.append("%s: fault variant (%s in %s) was NOT reported%s" % (
                    m.name, m.note or m.find[:40], m.func, (" by rule %s; new findings: %s" % (m.rule, new)) if new else ""))
                row["verdict"] = "MISSED"
        else:
            n_neutral += 1
            if o["status"] == "analysis-error":
                broken.append("%s: neutral variant made the analyser give up: %s" % (m.name, o["why"]))
                row["verdict"] = "analysis-error: " + o["why"]
                rows.append(row)
                continue
            new = [k for k in map(tuple, o["keys"]) if k not in base]
            gone = [k for k in base if k not in set(map(tuple, o["keys"]))]
            if not new:
                n_neutral_ok += 1
                row["verdict"] = "silent"
            else:
                broken.append("%s: neutral variant raised a false alarm: %s" % (m.name, new[:2]))
                row["verdict"] = "FALSE ALARM"
                row["finding"] = new[:3]
        rows.append(row)
    if muts and n_inapp > len(muts) // 2 and not base:
        broken.append("more than half of the catalogue (%d/%d) does not apply to the current source" % (n_inapp, len(muts)))
    # seeded breaking changes recorded as detected by this property's check
    seeded_rows = []
    n_seed = n_seed_ok = 0
    if not only:
        for sc in seeded_changes(prop):
            o = _run_seeded((prop, repo_root, sc))
            row = {"seeded": sc["id"], "status": o["status"], "needs": sc["meta"].get("needs_to_manifest", "")[:120]}
            if o["status"] == "inapplicable":
                row["why"] = o["why"]
            elif o["status"] != "ran":
                broken.append("seeded change %s: analyser gave up / crashed: %s" % (sc["id"], o.get("why", "")[:200]))
                n_seed += 1
            else:
                n_seed += 1
                new = [k for k in map(tuple, o["keys"]) if k not in base]
                if new:
                    n_seed_ok += 1
                    row["verdict"] = "reported"
                    row["finding"] = {"rule": new[0][1], "function": new[0][3], "message": o["messages"].get(str(list(new[0])), "")}
                else:
                    row["verdict"] = "MISSED"
                    broken.append("seeded change %s (breaks %s) is no longer reported" % (sc["id"], prop))
            seeded_rows.append(row)
    # behaviour-preserving refactors: no new finding, no give-up
    neutral_rows = []
    n_ref = n_ref_ok = 0
    if not only:
        refs = neutral_refactors()
        if jobs > 1 and len(refs) > 1:
            with mp.get_context("fork").Pool(min(jobs, len(refs))) as pool:
                routs = pool.map(_run_seeded, [(prop, repo_root, sc) for sc in refs], chunksize=1)
        else:
            routs = [_run_seeded((prop, repo_root, sc)) for sc in refs]
        for sc, o in zip(refs, routs):
            row = {"refactor": sc["id"], "status": o["status"], "files": sc["meta"].get("files", "")}
            if o["status"] == "inapplicable":
                row["why"] = o["why"]
            elif o["status"] != "ran" and sc["meta"].get("kind") == "neutral-outside-fragment":
                # a behaviour-preserving rewrite the analysis is KNOWN not to resolve (table-driven / higher-order dispatch):
                # it must fail closed (no verdict), never report a violation
                n_ref += 1
                n_ref_ok += 1
                row["verdict"] = "no verdict (outside the analysable fragment, as recorded)"
            elif o["status"] != "ran":
                n_ref += 1
                row["verdict"] = "GAVE UP"
                broken.append("behaviour-preserving refactor %s: the analyser gave up / crashed: %s" % (sc["id"], o.get("why", "")[:200]))
            else:
                n_ref += 1
                new = [k for k in map(tuple, o["keys"]) if k not in base]
                if new:
                    row["verdict"] = "FALSE ALARM"
                    row["finding"] = new[:3]
                    broken.append("behaviour-preserving refactor %s raised a false alarm: %s" % (sc["id"], new[:2]))
                else:
                    n_ref_ok += 1
                    row["verdict"] = "silent"
            neutral_rows.append(row)
    return {
        "neutral_refactors": n_ref, "neutral_refactors_silent": n_ref_ok, "neutral_refactor_rows": neutral_rows,
        "catalogue": len(muts), "fault_mutants": n_fault, "fault_reported": n_fault_ok,
        "neutral_mutants": n_neutral, "neutral_silent": n_neutral_ok, "inapplicable": n_inapp,
        "seeded_changes": n_seed, "seeded_reported": n_seed_ok, "seeded_rows": seeded_rows,
        "wall_s": round(time.time() - t0, 2), "seed": seed, "rows": rows, "broken": broken,
        "rule": "fault variants must add a finding (of the declared rule) to the findings of the unmodified tree; "
                "neutral variants must add none; edits are made on scratch copies removed after each run",
    }


def main(argv=None):
    """python -m g3dsa.selftest C04 [mutant names...]   -- development helper"""
    import sys

    from .check import run_property

    argv = argv or sys.argv[1:]
    prop = argv[0]
    repo = os.environ.get("G3DSA_REPO", "/repo")
    base = run_property(prop, repo)
    st = run_selftest(prop, repo, base, only=argv[1:] or None)
    for r in st["rows"]:
        print("%-8s %-60s %s %s" % (r["kind"], r["mutant"], r["status"], r.get("verdict", r.get("why", ""))))
        if r.get("finding") and "-v" in os.environ.get("G3DSA_FLAGS", ""):
            print("          ", r["finding"])
    print("fault %d/%d  neutral %d/%d  inapplicable %d  seeded %d/%d  refactors silent %d/%d  (%.1fs)" % (
        st["fault_reported"], st["fault_mutants"], st["neutral_silent"], st["neutral_mutants"], st["inapplicable"],
        st["seeded_reported"], st["seeded_changes"], st["neutral_refactors_silent"], st["neutral_refactors"], st["wall_s"]))
    for b in st["broken"]:
        print("BROKEN:", b)
    return 2 if st["broken"] else 0


if __name__ == "__main__":
    raise SystemExit(main())
