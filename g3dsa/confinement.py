"""Confinement analysis (shared by C01, C02, C03, C12).

Soundness half of every intersection property: *no point of the result lies
outside either operand*.  It is a compositional fact about how the handlers
are assembled from three numeric kernels and the membership predicates, decided
by an obligation (taint-style) dataflow analysis:

  conf(e) = the set of operand parameters the value e is known to be a subset of
            (TOP for None / empty containers).
  every `return e` of a handler h(p0, p1) is the obligation  {p0, p1} <= conf(e).

Transfer rules (all taken from the idioms of the 28 handlers):
  parameter x                     {x}
  sub-part x.f (end point, origin, vertex, edge, face, point of a line/plane)   conf(x)
  carrier  x.line / x.plane       {}            (a superset of x)
  intersection(u, v), u.intersection(v), inter_*(u, v)      conf(u) | conf(v)
  Segment(p, q), ConvexPolygon(pts), ConvexPolyhedron(faces),
  get_segment_from_point_list(l)  meet of the constituents  (operands are convex)
  containers                      meet over every .add / .union contribution
  hit-set helpers                 summary from the same analysis
Guards that add an operand on a CFG edge:
  G1  X in Y  (true)              conf(X) |= Y            (incl. De Morgan forms)
  G2  X == Y  (true)              both ways
  G3  isinstance(I, C) (true) where I = intersection(U, X.carrier) and C is the
      carrier's class:            X's carrier lies in U, hence conf(X) |= U
  G4  every end point of a Segment X is `in` Y (Y convex):   conf(X) |= Y
  G5  every vertex of a convex polygon X is `in` Y (all(...) / counting form):   conf(X) |= Y
Kernel axioms (assumption A4): exactly one numeric construction is accepted in
each of inter_line_line (Point), inter_line_plane (Point), inter_plane_plane (Line).
The handlers are verified together (assume-guarantee over the mutual recursion).
"""
from __future__ import annotations

import ast
from typing import Dict, FrozenSet, List, Optional, Set, Tuple

from .astutil import txt
from .model import AnalysisError, FunctionInfo, walk_local

FS = frozenset
TOP = "TOP"

CARRIER = {"line": "Line", "plane": "Plane"}
SUBPART_ATTRS = {"start_point", "end_point", "point", "points", "convex_polygons", "segment_set", "point_set", "p"}
SUBPART_METHODS = {"segments"}
HULL = {"Segment", "ConvexPolygon", "ConvexPolyhedron", "get_segment_from_point_list"}
KERNELS = {"inter_line_line": "Point", "inter_line_plane": "Point", "inter_plane_plane": "Line"}
ENDPOINTS = {"start_point", "end_point"}


def meet(a, b):
    if a == TOP:
        return b
    if b == TOP:
        return a
    return a & b


def cup(a, b):
    if a == TOP or b == TOP:
        return TOP
    return a | b


def show(c) -> str:
    return "TOP" if c == TOP else "{" + ", ".join(sorted(c)) + "}"


class Env:
    __slots__ = ("conf", "prov", "contrib")

    def __init__(self, conf=None, prov=None, contrib=None):
        self.conf: Dict[str, object] = dict(conf or {})
        self.prov: Dict[str, Tuple[str, ast.AST, str]] = dict(prov or {})
        self.contrib: Dict[str, List[Tuple[ast.AST, object, str]]] = {k: list(v) for k, v in (contrib or {}).items()}

    def copy(self):
        return Env(self.conf, self.prov, self.contrib)


def _ptxt(u) -> str:
    return u.text if hasattr(u, "text") and not isinstance(u, ast.expr) else txt(u)


def join_env(a: Optional[Env], b: Optional[Env]) -> Optional[Env]:
    if a is None:
        return b
    if b is None:
        return a
    e = Env()
    for k in set(a.conf) | set(b.conf):
        if k in a.conf and k in b.conf:
            e.conf[k] = meet(a.conf[k], b.conf[k])
        elif k.isidentifier():
            # a plain variable defined on one path only: keep what is known (it is only read where defined)
            e.conf[k] = a.conf.get(k, b.conf.get(k))
        # refinements of compound expressions present in one branch only are dropped (sound)
    for k in a.prov:
        if k in b.prov and b.prov[k][0] == a.prov[k][0] and _ptxt(b.prov[k][1]) == _ptxt(a.prov[k][1]):
            e.prov[k] = a.prov[k]
    for k in set(a.contrib) | set(b.contrib):
        seen = set()
        out = []
        for item in a.contrib.get(k, []) + b.contrib.get(k, []):
            if id(item[0]) not in seen:
                seen.add(id(item[0]))
                out.append(item)
        e.contrib[k] = out
    return e


def none_default_params(fi: FunctionInfo) -> List[str]:
    """parameters whose default value is None (optional pre-computed data: `edges=None`)"""
    out = []
    ds = list(fi.defaults)
    ps = fi.params[len(fi.params) - len(ds):] if ds else []
    for p, d in zip(ps, ds):
        if isinstance(d, ast.Constant) and d.value is None:
            out.append(p)
    return out


NONE_KEY = "\0none:"


class _Pre(ast.AST):
    """a precomputed confinement handed into an inlined helper (stands for the caller's expression U of a carrier hit)"""
    _fields = ()

    def __init__(self, conf, text):
        self.conf = conf
        self.text = text


class FnResult:
    def __init__(self, fi: FunctionInfo):
        self.fi = fi
        self.returns: List[dict] = []  # {node, conf, text, why}
        self.guards: Set[str] = set()
        self.kernel_sites: List[ast.AST] = []
        self.numeric_sites: List[ast.AST] = []
        self.carrier_reads = 0
        self.out_contrib: Dict[str, object] = {}  # container parameter -> meet of the confs of what is added to it


class Confinement:
    def __init__(self, ctx, functions: List[FunctionInfo], helpers: List[FunctionInfo]):
        self.ctx = ctx
        self.fns = {f.name: f for f in functions}
        self.helpers = {f.name: f for f in helpers}
        self.helper_sum: Dict[str, FrozenSet[str]] = {}
        self.helper_out: Dict[str, Dict[str, object]] = {}
        self.results: Dict[str, FnResult] = {}
        self._inprog: Set[str] = set()
        # every other function of the two modules is a potential (private) helper: summarised on demand
        self.module_fns: Dict[str, FunctionInfo] = {}
        for mname in ("calc.intersection", "calc.aux_calc"):
            for f in ctx.repo.module(mname).functions.values():
                self.module_fns[f.name] = f

    # ------------------------------------------------------------ per function
    def analyse(self, fi: FunctionInfo) -> FnResult:
        if fi.name in self.results:
            return self.results[fi.name]
        r = FnResult(fi)
        self.results[fi.name] = r
        self.cur = r
        self.params = fi.params
        env = Env({p: FS([p]) for p in fi.params})
        # a function is verified on its own under the default binding of its optional parameters (`edges=None`: the data
        # is computed inside); a call that passes them is evaluated at the call site, with what is passed
        for p in none_default_params(fi):
            env.conf[p] = TOP
            env.conf[NONE_KEY + p] = TOP
        self.block(fi.node.body, env, fi)
        return r

    def is_helper(self, name: str) -> bool:
        return name in self.helpers or (name in self.module_fns and name not in self.fns and name not in HULL)

    def helper_fi(self, name: str) -> FunctionInfo:
        return self.helpers.get(name) or self.module_fns[name]

    def helper_summary(self, name: str) -> FrozenSet[str]:
        if name in self.helper_sum:
            return self.helper_sum[name]
        fi = self.helper_fi(name)
        if name in self._inprog:
            return FS(fi.params)
        self._inprog.add(name)
        saved = (getattr(self, "cur", None), getattr(self, "params", None))
        r = self.analyse(fi)
        self.cur, self.params = saved
        c = TOP
        for ret in r.returns:
            c = meet(c, ret["conf"])
        self._inprog.discard(name)
        self.helper_sum[name] = FS(fi.params) if c == TOP else FS(c)
        self.helper_out[name] = dict(r.out_contrib)
        return self.helper_sum[name]

    def inline_helper(self, h: FunctionInfo, call: ast.Call, env: Env, fi):
        """context-sensitive evaluation of a private helper at this call site: its body is analysed with the parameters
        bound to the confinements (and carrier-hit provenance) of the actual arguments; -> meet of the confinements of
        its returns, in the caller's operand names (None: not inlinable here)"""
        stack = getattr(self, "_inline_stack", [])
        optional = none_default_params(h)
        missing = h.params[len(call.args):]
        if h.name in stack or len(stack) >= 3 or len(call.args) > len(h.params) or any(m not in optional for m in missing) or call.keywords \
                or any(isinstance(a, ast.Starred) for a in call.args) or h.is_generator:
            return None
        cenv = Env()
        for p_, a in zip(h.params, call.args):
            cenv.conf[p_] = self.selfconf(a, env, fi)
        for p_ in missing:
            cenv.conf[p_] = TOP
            cenv.conf[NONE_KEY + p_] = TOP
        # provenance: a parameter that receives  I = intersection(U, X.carrier)  (directly or through a local)
        for p_, a in zip(h.params, call.args):
            pv = env.prov.get(a.id) if isinstance(a, ast.Name) else self.carrier_prov(a)
            if pv is None:
                continue
            X, U, C = pv
            xs = [q for q, b in zip(h.params, call.args) if isinstance(b, ast.Name) and b.id == X]
            if xs:
                uconf = U.conf if isinstance(U, _Pre) else self.selfconf(U, env, fi)
                cenv.prov[p_] = (xs[0], _Pre(uconf, _ptxt(U)), C)
        saved = (self.cur, self.params)
        self._inline_stack = stack + [h.name]
        sub = FnResult(h)
        self.cur, self.params = sub, ()
        try:
            self.block(h.node.body, cenv, h)
        finally:
            self.cur, self.params = saved
            self._inline_stack = stack
        self.cur.kernel_sites += sub.kernel_sites
        self.cur.numeric_sites += sub.numeric_sites
        self.cur.guards |= sub.guards
        if not sub.returns:
            return None
        c = TOP
        for ret in sub.returns:
            c = meet(c, ret["conf"])
        return c

    @staticmethod
    def returns_own_container(h) -> Optional[str]:
        """the parameter p when every return of the helper is `return p` and p is never rebound"""
        rets = [r for r in walk_local(h.node) if isinstance(r, ast.Return)]
        if not rets or not all(isinstance(r.value, ast.Name) and r.value.id in h.params for r in rets):
            return None
        names = {r.value.id for r in rets}
        if len(names) != 1:
            return None
        p = names.pop()
        if any(isinstance(x, ast.Name) and x.id == p and isinstance(x.ctx, ast.Store) for x in walk_local(h.node)):
            return None
        return p

    def apply_helper_out(self, call: ast.Call, env: Env, fi) -> None:
        """a helper that adds to a container passed as argument: the caller's container now holds these elements"""
        n = call.func.id
        self.helper_summary(n)
        h = self.helper_fi(n)
        for p, c in self.helper_out.get(n, {}).items():
            if p not in h.params:
                continue
            i = h.params.index(p)
            if i >= len(call.args) or not isinstance(call.args[i], ast.Name):
                continue
            tgt = call.args[i].id
            if c == TOP:
                continue
            add = FS()
            for q in c:
                if q in h.params and h.params.index(q) < len(call.args):
                    add = cup(add, self.selfconf(call.args[h.params.index(q)], env, fi))
            env.conf[tgt] = meet(env.conf.get(tgt, TOP), add)
            env.contrib.setdefault(tgt, []).append((call, add, txt(call)[:70]))

    # ------------------------------------------------------------ expressions
    def ev(self, e, env: Env, fi) -> object:
        t = txt(e)
        if not isinstance(e, ast.Name) and t in env.conf:
            return env.conf[t]
        if isinstance(e, ast.Name):
            return env.conf.get(e.id, FS())
        if isinstance(e, ast.Constant):
            return TOP if e.value is None else FS()
        if isinstance(e, ast.Attribute):
            if e.attr in CARRIER:
                self.cur.carrier_reads += 1
                return FS()
            if e.attr in SUBPART_ATTRS:
                return self.ev(e.value, env, fi)
            return FS()
        if isinstance(e, ast.Subscript):
            return self.ev(e.value, env, fi)
        if isinstance(e, ast.IfExp):
            et = self.narrow(e.test, env, True, fi)
            ef = self.narrow(e.test, env, False, fi)
            return meet(self.ev(e.body, et, fi), self.ev(e.orelse, ef, fi))
        if isinstance(e, (ast.Tuple, ast.List, ast.Set)):
            c = TOP
            for x in e.elts:
                c = meet(c, self.ev(x, env, fi))
            return c
        if isinstance(e, (ast.GeneratorExp, ast.ListComp, ast.SetComp)):
            return self.comp_conf(e, env, fi)
        if isinstance(e, ast.BinOp) and isinstance(e.op, (ast.Add, ast.BitOr)):
            # list concatenation / set union: every element comes from one of the two sides
            return meet(self.ev(e.left, env, fi), self.ev(e.right, env, fi))
        if isinstance(e, ast.Call):
            fn = e.func
            if isinstance(fn, ast.Name):
                n = fn.id
                if n == "intersection" or n in self.fns:
                    if len(e.args) != 2:
                        return FS()
                    return cup(self.ev(e.args[0], env, fi), self.ev(e.args[1], env, fi))
                if n in HULL:
                    c = TOP
                    for a in e.args:
                        c = meet(c, self.ev(a, env, fi))
                    return c
                if n in ("list", "tuple", "sorted", "frozenset", "iter", "next", "reversed"):
                    # next(iter(X)) / list(X): elements of X
                    return self.ev(e.args[0], env, fi) if e.args else TOP
                if n == "set":
                    return TOP if not e.args else self.ev(e.args[0], env, fi)
                if n == "dict" and not e.args and not e.keywords:
                    return TOP
                b_ = fi.resolve(n)
                if b_ is not None and b_.kind == "ext" and str(b_.target) == "itertools.chain":
                    # chain(X, Y, ...): every element comes from one of the arguments
                    c = TOP
                    for a in e.args:
                        c = meet(c, self.ev(a, env, fi))
                    return c
                if self.is_helper(n):
                    hs = self.helper_summary(n)
                    h = self.helper_fi(n)
                    rp = self.returns_own_container(h)
                    if rp is not None and rp in self.helper_out.get(n, {}) and h.params.index(rp) < len(e.args):
                        # the helper fills the container handed to it and returns it: the result holds what the container
                        # held before and what the helper adds
                        add_c = self.helper_out[n][rp]
                        add = FS()
                        if add_c != TOP:
                            for q in add_c:
                                if q in h.params and h.params.index(q) < len(e.args):
                                    add = cup(add, self.selfconf(e.args[h.params.index(q)], env, fi))
                        else:
                            add = TOP
                        return meet(self.ev(e.args[h.params.index(rp)], env, fi), add)
                    passes_optional = any(p in none_default_params(h) for p in h.params[:len(e.args)])
                    c = FS()
                    if not passes_optional:
                        for p, a in zip(h.params, e.args):
                            if p in hs:
                                c = cup(c, self.selfconf(a, env, fi))
                    if n.startswith("_") or passes_optional:
                        # (the summary speaks for the default binding of optional parameters; a call that passes them is
                        # evaluated with what it passes)
                        ci = self.inline_helper(h, e, env, fi)
                        if ci is not None:
                            c = ci if ci == TOP else (cup(c, ci) if c != TOP else ci)
                    return c
                if n in ("Point", "Line", "Plane", "HalfLine"):
                    # a numeric construction
                    if KERNELS.get(fi.name) == n:
                        self.cur.kernel_sites.append(e)
                        return TOP
                    self.cur.numeric_sites.append(e)
                    return FS()
                if n == "copy" or txt(fn) == "copy.deepcopy":
                    return self.ev(e.args[0], env, fi) if e.args else FS()
                return FS()
            if isinstance(fn, ast.Attribute):
                if txt(fn) == "copy.deepcopy" and e.args:
                    return self.ev(e.args[0], env, fi)
                if fn.attr == "intersection" and len(e.args) == 1:
                    return cup(self.ev(fn.value, env, fi), self.ev(e.args[0], env, fi))
                if fn.attr in SUBPART_METHODS:
                    return self.ev(fn.value, env, fi)
                if fn.attr == "union" and e.args:
                    c = self.ev(fn.value, env, fi)
                    for a in e.args:
                        c = meet(c, self.ev(a, env, fi))
                    return c
                if fn.attr in ("copy", "values"):
                    return self.ev(fn.value, env, fi)  # d.values(): what was stored in the local dictionary
                return FS()
        if isinstance(e, ast.Dict):
            c = TOP
            for x in e.values:
                c = meet(c, self.ev(x, env, fi))
            return c
        return FS()

    def selfconf(self, e, env: Env, fi):
        c = self.ev(e, env, fi)
        if isinstance(e, ast.Name) and e.id in self.params:
            c = cup(c, FS([e.id]))
        return c

    def refine(self, env: Env, expr, add, tag: str, fi):
        k = txt(expr)
        cur = env.conf.get(k)
        if cur is None:
            cur = self.ev(expr, env, fi)
        env.conf[k] = cup(cur, add)
        self.cur.guards.add(tag)

    # ------------------------------------------------------------ narrowing
    def narrow(self, test, env: Optional[Env], truth: bool, fi) -> Optional[Env]:
        if env is None:
            return None
        env = env.copy()
        if isinstance(test, ast.UnaryOp) and isinstance(test.op, ast.Not):
            return self.narrow(test.operand, env, not truth, fi)
        if isinstance(test, ast.BoolOp):
            is_and = isinstance(test.op, ast.And)
            if is_and == truth:
                for v in test.values:
                    env = self.narrow(v, env, truth, fi)
                if truth:
                    self.g4(test.values, env, fi)
                else:
                    # not(A or B) == (not A) and (not B): collect memberships established negatively
                    self.g4(test.values, env, fi, negated=True)
                return env
            return env
        if isinstance(test, ast.Name):
            d = self.bool_def(fi, test.id)
            if d is not None:
                return self.narrow(d, env, truth, fi)
            return env
        g5 = self.all_vertices_guard(test, fi) if truth else None
        if g5 is not None:
            X, Y = g5
            self.refine(env, X, self.selfconf(Y, env, fi), "G5", fi)
            return env
        if isinstance(test, ast.Compare) and len(test.ops) == 1:
            op, L, R = test.ops[0], test.left, test.comparators[0]
            if (isinstance(op, ast.In) and truth) or (isinstance(op, ast.NotIn) and not truth):
                self.refine(env, L, self.selfconf(R, env, fi), "G1", fi)
                return env
            if (isinstance(op, ast.Eq) and truth) or (isinstance(op, ast.NotEq) and not truth):
                a = self.selfconf(R, env, fi)
                b = self.selfconf(L, env, fi)
                self.refine(env, L, a, "G2", fi)
                self.refine(env, R, b, "G2", fi)
                return env
            return env
        if isinstance(test, ast.Call) and isinstance(test.func, ast.Name) and test.func.id == "isinstance" and not truth \
                and len(test.args) == 2 and isinstance(test.args[0], ast.Name) and env.prov.get(test.args[0].id) is not None:
            # `not isinstance(I, Point)` where the type inference knows I to be a Point or a Line here: I is a Line
            v = test.args[0].id
            pv = env.prov.get(v)
            excl = {x.id for x in ([test.args[1]] if isinstance(test.args[1], ast.Name) else
                                   (test.args[1].elts if isinstance(test.args[1], ast.Tuple) else [])) if isinstance(x, ast.Name)}
            here = {str(t) for t in self.ctx.types.types_at(fi, test.args[0]) if not isinstance(t, tuple)}
            if excl and here and (here - excl) == {pv[2]}:
                X, U, _ = pv
                uconf = U.conf if isinstance(U, _Pre) else self.selfconf(U, env, fi)
                self.refine(env, ast.Name(id=X, ctx=ast.Load()), uconf, "G3", fi)
            return env
        if isinstance(test, ast.Call) and isinstance(test.func, ast.Name) and test.func.id == "isinstance" and truth \
                and len(test.args) == 2 and isinstance(test.args[0], ast.Name):
            v = test.args[0].id
            tys = [test.args[1].id] if isinstance(test.args[1], ast.Name) else []
            pv = env.prov.get(v)
            if pv is not None and tys == [pv[2]]:
                X, U, _ = pv
                uconf = U.conf if isinstance(U, _Pre) else self.selfconf(U, env, fi)
                self.refine(env, ast.Name(id=X, ctx=ast.Load()), uconf, "G3", fi)
        return env

    @staticmethod
    def all_vertices_guard(test, fi):
        """G5: every vertex of a convex polygon X lies in the convex set Y  ->  (X, Y)
             all(p in Y for p in X.points)
             len([p for p in X.points if p in Y]) == len(X.points)        (locals expanded)"""
        from .astutil import expand_locals

        def quant(comp, with_if):
            if len(comp.generators) != 1:
                return None
            g = comp.generators[0]
            if not (isinstance(g.target, ast.Name) and isinstance(g.iter, ast.Attribute) and g.iter.attr == "points"):
                return None
            t = g.target.id
            if with_if:
                if not (isinstance(comp.elt, ast.Name) and comp.elt.id == t and len(g.ifs) == 1):
                    return None
                c = g.ifs[0]
            else:
                if g.ifs:
                    return None
                c = comp.elt
            if isinstance(c, ast.Compare) and len(c.ops) == 1 and isinstance(c.ops[0], ast.In) and isinstance(c.left, ast.Name) \
                    and c.left.id == t and not any(isinstance(x, ast.Name) and x.id == t for x in ast.walk(c.comparators[0])):
                return g.iter.value, c.comparators[0]
            return None

        e = expand_locals(fi.node, test, fi.params)
        if isinstance(e, ast.Call) and isinstance(e.func, ast.Name) and e.func.id == "all" and len(e.args) == 1 \
                and isinstance(e.args[0], (ast.GeneratorExp, ast.ListComp)):
            return quant(e.args[0], False)
        if isinstance(e, ast.Compare) and len(e.ops) == 1 and isinstance(e.ops[0], ast.Eq):
            for a, b in ((e.left, e.comparators[0]), (e.comparators[0], e.left)):
                if isinstance(a, ast.Call) and isinstance(a.func, ast.Name) and a.func.id == "len" and len(a.args) == 1 \
                        and isinstance(a.args[0], ast.ListComp) and isinstance(b, ast.Call) and isinstance(b.func, ast.Name) \
                        and b.func.id == "len" and len(b.args) == 1:
                    q = quant(a.args[0], True)
                    if q is not None and txt(b.args[0]) == txt(q[0]) + ".points":
                        return q
        return None

    def bool_def(self, fi, name: str):
        """the unique boolean definition of a local flag (`inside = p in b`), if its operands are stable"""
        from .astutil import assigned_names, root_name
        asg = assigned_names(fi.node)
        defs = asg.get(name, [])
        if name in fi.params or len(defs) != 1 or not isinstance(defs[0], ast.Assign):
            return None
        v = defs[0].value
        if not isinstance(v, (ast.Compare, ast.BoolOp)) and not (isinstance(v, ast.UnaryOp) and isinstance(v.op, ast.Not)):
            return None
        for x in ast.walk(v):
            if isinstance(x, ast.Name) and x.id in asg and x.id not in fi.params:
                return None  # depends on another local: keep it simple
        return v

    def g4(self, conjuncts, env: Env, fi, negated=False):
        """all end points of a Segment X are in Y  ->  X inside Y"""
        byx: Dict[Tuple[str, str], Set[str]] = {}
        exprs: Dict[Tuple[str, str], Tuple[ast.AST, ast.AST]] = {}
        for v in conjuncts:
            if isinstance(v, ast.Name):
                d = self.bool_def(fi, v.id)
                if d is not None:
                    v = d
            elif isinstance(v, ast.UnaryOp) and isinstance(v.op, ast.Not) and isinstance(v.operand, ast.Name):
                d = self.bool_def(fi, v.operand.id)
                if d is not None:
                    v = ast.UnaryOp(op=ast.Not(), operand=d)
            while isinstance(v, ast.UnaryOp) and isinstance(v.op, ast.Not) and isinstance(v.operand, ast.UnaryOp) \
                    and isinstance(v.operand.op, ast.Not):
                v = v.operand.operand
            if negated:
                # every disjunct o is false; a membership is established iff o is `not (X in Y)` / `X not in Y`
                o = v
                if isinstance(o, ast.UnaryOp) and isinstance(o.op, ast.Not):
                    v = o.operand
                elif isinstance(o, ast.Compare) and len(o.ops) == 1 and isinstance(o.ops[0], ast.NotIn):
                    v = ast.Compare(left=o.left, ops=[ast.In()], comparators=o.comparators)
                else:
                    continue
            if isinstance(v, ast.Compare) and len(v.ops) == 1 and isinstance(v.ops[0], ast.In) and isinstance(v.left, ast.Attribute) \
                    and v.left.attr in ENDPOINTS:
                k = (txt(v.left.value), txt(v.comparators[0]))
                byx.setdefault(k, set()).add(v.left.attr)
                exprs[k] = (v.left.value, v.comparators[0])
        for k, s in byx.items():
            if s == ENDPOINTS:
                X, Y = exprs[k]
                self.refine(env, X, self.selfconf(Y, env, fi), "G4", fi)

    def carrier_prov(self, value):
        """I = intersection(U, X.carrier) / intersection(X.carrier, U) with X a name and U not a carrier"""
        if isinstance(value, ast.Call):
            args = None
            if isinstance(value.func, ast.Name) and (value.func.id == "intersection" or value.func.id in self.fns) and len(value.args) == 2:
                args = value.args  # the dispatcher, or the handler of the pair called directly
            elif isinstance(value.func, ast.Attribute) and value.func.attr == "intersection" and len(value.args) == 1:
                args = [value.func.value, value.args[0]]
            if args:
                for c, u in ((args[0], args[1]), (args[1], args[0])):
                    if isinstance(c, ast.Attribute) and c.attr in CARRIER and isinstance(c.value, ast.Name):
                        if not (isinstance(u, ast.Attribute) and u.attr in CARRIER):
                            return (c.value.id, u, CARRIER[c.attr])
        return None

    # ------------------------------------------------------------ statements
    def block(self, stmts, env: Optional[Env], fi) -> Optional[Env]:
        for i, s in enumerate(stmts):
            if env is None:
                return None
            if isinstance(s, ast.If) and self._is_renaming_if(s) and i + 1 < len(stmts):
                # `if c: x, y = a, b  else: x, y = b, a` (operand normalisation): the rest of the block is analysed once per
                # arm -- joining here would forget that x and y are *different* operands in either case
                outs = []
                for arm, truth in ((s.body, True), (s.orelse, False)):
                    e = self.block(arm, self.narrow(s.test, env, truth, fi), fi)
                    outs.append(self.block(stmts[i + 1:], e, fi) if e is not None else None)
                return join_env(outs[0], outs[1])
            env = self.stmt(s, env, fi)
        return env

    @staticmethod
    def _is_renaming_if(s: ast.If) -> bool:
        def plain(arm):
            return 0 < len(arm) <= 3 and all(
                isinstance(x, ast.Assign) and len(x.targets) == 1 and not any(isinstance(c, ast.Call) for c in ast.walk(x.value))
                and all(isinstance(t, ast.Name) for t in (x.targets[0].elts if isinstance(x.targets[0], (ast.Tuple, ast.List)) else [x.targets[0]]))
                for x in arm)
        return plain(s.body) and plain(s.orelse)

    def invalidate(self, env: Env, name: str):
        env.conf.pop(NONE_KEY + name, None)
        for k in [k for k in env.conf if k != name and (k.startswith(name + ".") or k.startswith(name + "[") or
                                                         ("(" + name + ")") in k)]:
            del env.conf[k]

    def stmt(self, s, env: Env, fi) -> Optional[Env]:
        if isinstance(s, ast.Return):
            c = TOP if s.value is None else self.ev(s.value, env, fi)
            why = None
            if s.value is not None and isinstance(s.value, ast.Name) and s.value.id in env.contrib:
                why = env.contrib[s.value.id]
            # containers converted with list()/tuple() keep the contributions of their source
            self.cur.returns.append({"node": s, "conf": c, "text": txt(s.value) if s.value is not None else "None",
                                     "contrib": self._contribs(s.value, env)})
            return None
        if isinstance(s, ast.Raise):
            return None
        if isinstance(s, ast.Assign):
            t = s.targets[0]
            if isinstance(s.value, ast.Call) and isinstance(s.value.func, ast.Name) and self.is_helper(s.value.func.id):
                env = env.copy()
                self.apply_helper_out(s.value, env, fi)
            if isinstance(t, ast.Name):
                c = self.ev(s.value, env, fi)
                env = env.copy()
                env.conf[t.id] = c
                self.invalidate(env, t.id)
                pv = self.carrier_prov(s.value)
                if pv:
                    env.prov[t.id] = pv
                else:
                    env.prov.pop(t.id, None)
                src = self._contribs(s.value, env)
                env.contrib[t.id] = list(src) if src else ([(s, c, txt(s.value)[:60])] if c != TOP else [])
            elif isinstance(t, ast.Subscript) and isinstance(t.value, ast.Name) and t.value.id not in fi.params:
                # d[key] = value  on a local container: one more contribution
                v = t.value.id
                env = env.copy()
                add = self.ev(s.value, env, fi)
                env.conf[v] = meet(env.conf.get(v, TOP), add)
                env.contrib.setdefault(v, []).append((s, add, txt(s)[:70]))
            elif isinstance(t, (ast.Tuple, ast.List)):
                env = env.copy()
                vals = s.value.elts if isinstance(s.value, (ast.Tuple, ast.List)) and len(s.value.elts) == len(t.elts) else None
                for i, x in enumerate(t.elts):
                    if isinstance(x, ast.Name):
                        env.conf[x.id] = self.ev(vals[i], env, fi) if vals else FS()
                        self.invalidate(env, x.id)
            return env
        if isinstance(s, ast.AugAssign):
            if isinstance(s.target, ast.Name):
                env = env.copy()
                env.conf[s.target.id] = meet(env.conf.get(s.target.id, TOP), self.ev(s.value, env, fi))
            return env
        if isinstance(s, ast.Expr):
            c = s.value
            if isinstance(c, ast.Call) and isinstance(c.func, ast.Attribute) and isinstance(c.func.value, ast.Name) \
                    and (c.func.attr in ("add", "append", "update", "extend") and c.args
                         or c.func.attr == "setdefault" and len(c.args) == 2):
                v = c.func.value.id
                env = env.copy()
                add = self.ev(c.args[-1] if c.func.attr == "setdefault" else c.args[0], env, fi)  # d.setdefault(key, value): the value
                if c.func.attr in ("update", "extend") and isinstance(c.args[0], (ast.GeneratorExp, ast.ListComp, ast.SetComp)):
                    add = self.comp_conf(c.args[0], env, fi)
                env.conf[v] = meet(env.conf.get(v, TOP), add)
                env.contrib.setdefault(v, []).append((s, add, txt(c)[:70]))
                if v in fi.params:
                    self.cur.out_contrib[v] = meet(self.cur.out_contrib.get(v, TOP), add)
            elif isinstance(c, ast.Call) and isinstance(c.func, ast.Name) and self.is_helper(c.func.id):
                env = env.copy()
                self.apply_helper_out(c, env, fi)
            return env
        if isinstance(s, ast.If) and isinstance(s.test, ast.Compare) and len(s.test.ops) == 1 and isinstance(s.test.ops[0], (ast.Is, ast.IsNot)) \
                and isinstance(s.test.left, ast.Name) and (NONE_KEY + s.test.left.id) in env.conf \
                and isinstance(s.test.comparators[0], ast.Constant) and s.test.comparators[0].value is None:
            # the optional parameter is known to hold its default None here: one branch only
            return self.block(s.body if isinstance(s.test.ops[0], ast.Is) else s.orelse, env, fi)
        if isinstance(s, ast.If):
            et = self.narrow(s.test, env, True, fi)
            ef = self.narrow(s.test, env, False, fi)
            a = self.block(s.body, et, fi)
            b = self.block(s.orelse, ef, fi)
            return join_env(a, b)
        if isinstance(s, ast.For) and unroll_items(s, fi.node, fi.params) is not None:
            # a loop over a literal tuple is the sequence of its iterations (exact)
            for elt in unroll_items(s, fi.node, fi.params):
                env = self.stmt(ast.copy_location(ast.Assign(targets=[s.target], value=elt), s), env, fi)
                env = self.block(s.body, env, fi)
                if env is None:
                    return None
            return self.block(s.orelse, env, fi)
        if isinstance(s, ast.For):
            e0 = env
            for _ in range(3):
                e1 = e0.copy()
                is_range = isinstance(s.iter, ast.Call) and isinstance(s.iter.func, ast.Name) and s.iter.func.id in ("range", "enumerate")
                if isinstance(s.target, ast.Name):
                    e1.conf[s.target.id] = FS() if is_range else self.ev(s.iter, e0, fi)
                    self.invalidate(e1, s.target.id)
                    e1.prov.pop(s.target.id, None)
                out = self.block(s.body, e1, fi)
                e0 = join_env(e0, out) if out is not None else e0
            return e0
        if isinstance(s, ast.While):
            e0 = env
            for _ in range(3):
                out = self.block(s.body, e0.copy(), fi)
                e0 = join_env(e0, out) if out is not None else e0
            return e0
        if isinstance(s, (ast.Continue, ast.Break)):
            return None
        if isinstance(s, ast.Try):
            # the body may be left at any statement: a handler starts from the join of the states in between
            states = [env]
            cur = env
            for b in s.body:
                cur = self.stmt(b, cur, fi) if cur is not None else None
                if cur is not None:
                    states.append(cur)
            pre_h = None
            for st_ in states:
                pre_h = join_env(pre_h, st_)
            out = self.block(s.orelse, cur, fi) if cur is not None else None
            for h in s.handlers:
                out = join_env(out, self.block(h.body, pre_h.copy() if pre_h is not None else None, fi))
            if s.finalbody and out is not None:
                out = self.block(s.finalbody, out, fi)
            return out
        if isinstance(s, ast.With):
            return self.block(s.body, env, fi)
        if isinstance(s, (ast.Pass, ast.Import, ast.ImportFrom, ast.Assert, ast.Global)):
            return env
        raise AnalysisError("%s: confinement analysis does not model statement kind %s" % (fi.where(s), type(s).__name__))

    def comp_conf(self, comp, env: Env, fi):
        """conf of the elements produced by  (x for x in ITER if COND)"""
        if len(comp.generators) == 1:
            g0 = comp.generators[0]
            fake = ast.For(target=g0.target, iter=g0.iter, body=[], orelse=[])
            items = unroll_items(fake, fi.node, fi.params)
            if items is not None:
                # a comprehension over a literal tuple: the meet over its (unrolled) iterations
                c = TOP
                for elt in items:
                    e2 = self.stmt(ast.copy_location(ast.Assign(targets=[g0.target], value=elt), comp), env.copy(), fi)
                    for cond in g0.ifs:
                        e2 = self.narrow(cond, e2, True, fi)
                    c = meet(c, self.ev(comp.elt, e2, fi))
                return c
        e2 = env.copy()
        for g in comp.generators:
            if isinstance(g.target, ast.Name):
                e2.conf[g.target.id] = self.ev(g.iter, e2, fi)
                self.invalidate(e2, g.target.id)
            for cond in g.ifs:
                e2 = self.narrow(cond, e2, True, fi)
        return self.ev(comp.elt, e2, fi)

    def _contribs(self, e, env: Env):
        """contribution list of the container an expression is derived from"""
        while isinstance(e, ast.Call) and ((isinstance(e.func, ast.Name) and e.func.id in ("list", "tuple", "sorted", "iter", "next") and e.args)
                                           or (isinstance(e.func, ast.Attribute) and e.func.attr == "values" and not e.args)):
            e = e.args[0] if e.args else e.func.value
        while isinstance(e, ast.Subscript):
            e = e.value
        if isinstance(e, ast.Call) and isinstance(e.func, ast.Name) and e.func.id in HULL:
            out = []
            for a in e.args:
                out += self._contribs(a, env) or []
            return out
        if isinstance(e, ast.Name):
            return env.contrib.get(e.id, [])
        return []


def unroll_items(s: ast.For, fn_node=None, params=()):
    """`for T in (e1, ..., ek): body` with a literal tuple / list (directly or through a single-definition local that
    is only iterated) and no break / continue is equal to k copies of the body: -> [e1, ..., ek], else None"""
    it = s.iter
    if isinstance(it, ast.Name) and fn_node is not None:
        from .astutil import single_defs
        d = single_defs(fn_node, params).get(it.id)
        uses = [x for x in ast.walk(fn_node) if isinstance(x, ast.Name) and x.id == it.id and isinstance(x.ctx, ast.Load)]
        if d is not None and isinstance(d, (ast.Tuple, ast.List)) and len(uses) == 1:
            it = d
    if not (isinstance(it, (ast.Tuple, ast.List)) and 0 < len(it.elts) <= 12):
        return None
    if any(isinstance(e, ast.Starred) for e in it.elts):
        return None
    def own_jump(stmts) -> bool:
        for b in stmts:
            if isinstance(b, (ast.Break, ast.Continue)):
                return True
            if isinstance(b, (ast.For, ast.While, ast.AsyncFor, ast.FunctionDef, ast.ClassDef)):
                continue  # jumps inside a nested loop belong to that loop
            for fld in ("body", "orelse", "finalbody", "handlers"):
                sub = getattr(b, fld, None)
                if sub and own_jump([h for h in sub if isinstance(h, ast.stmt)] + [x for h in sub if isinstance(h, ast.ExceptHandler) for x in h.body]):
                    return True
        return False
    if own_jump(s.body):
        return None
    return list(it.elts)


def unrollable(s: ast.For) -> bool:
    return unroll_items(s) is not None


def handler_functions(ctx) -> Tuple[List[FunctionInfo], List[FunctionInfo], FunctionInfo]:
    repo = ctx.repo
    m = repo.module("calc.intersection")
    inter = repo.fn("intersection", "calc.intersection")
    try:
        from .rules.c01 import handler_bindings_all
        bound = set(handler_bindings_all(ctx))
    except AnalysisError:
        bound = set()
    # a private two-parameter function that no dispatch row is bound to is a helper (analysed where it is called)
    handlers = [f for f in m.functions.values() if f is not inter and len(f.params) == 2
                and (not f.name.startswith("_") or f.name in bound)]
    aux = repo.module("calc.aux_calc")
    helpers = [f for f in aux.functions.values() if f.name.endswith("_intersection_point_set")]
    return handlers, helpers, inter


def run_confinement(ctx) -> Confinement:
    if "confinement" in ctx.cache:
        return ctx.cache["confinement"]
    handlers, helpers, inter = handler_functions(ctx)
    cf = Confinement(ctx, handlers + [inter], helpers)
    for h in helpers:
        cf.helper_summary(h.name)
    for f in handlers + [inter]:
        cf.analyse(f)
    ctx.cache["confinement"] = cf
    return cf


def report_function(ctx, res, cf: Confinement, fi: FunctionInfo, rule: str, is_helper=False) -> int:
    """emit one obligation per return site of fi; returns the number of return sites"""
    r = cf.analyse(fi) if fi.name not in cf.results else cf.results[fi.name]
    need = FS(fi.params[:2])
    n = 0
    for ret in r.returns:
        n += 1
        c = ret["conf"]
        ok = c == TOP or need <= c
        res.ob(rule, fi.where(ret["node"]), "%s: return %s" % (fi.short, ret["text"][:50]), ok,
               "confined in %s" % show(c) if ok else "only known to lie in %s" % show(c),
               nontrivial=(c != TOP))
        if not ok:
            missing = sorted(need - (c if c != TOP else need))
            low = [(node, cc, t) for node, cc, t in (ret["contrib"] or []) if cc != TOP and not need <= cc]
            detail = {"needs": sorted(need), "known": show(c)}
            if low:
                detail["contributions that are not confined"] = ["%s `%s` lies in %s" % (fi.where(nd), t, show(cc)) for nd, cc, t in low[:5]]
            res.violation(
                rule, fi, low[0][0] if low else ret["node"],
                "%s may return points outside its operand(s) %s: `return %s` is %s, but nothing on this path clips it to %s"
                % (fi.short, missing, ret["text"][:60], "only known to lie in " + show(c), " and ".join(missing)),
                construct="%s: return %s unconfined in %s" % (fi.short, ret["text"][:60], ",".join(missing)), detail=detail)
    for e in r.numeric_sites:
        pass  # a numeric construction outside the three kernels has conf {} and is caught where it is returned
    return n


# ------------------------------------------------------------------ candidate families must be consulted
def family_bypass(ctx, fi: FunctionInfo, families: List[ast.stmt], scope: List[ast.stmt]):
    """Completeness companion of the confinement rule: inside `scope` every return that claims a result
    computed from the candidates -- in particular every `return None` -- must lie behind *every* candidate
    family (a loop or a guarded add): otherwise an overlap / touching configuration that only that family
    finds is reported as disjoint or is truncated.  Returns of an operand parameter (a in b -> return a)
    and returns nested inside a family are complete by themselves and exempt.
    -> list of (return stmt, family stmt) that are bypassed."""
    g = ctx.cfg(fi)
    fam_nodes = []
    for F in families:
        ids = list(g.nodes_of(F))
        if isinstance(F, ast.If):
            ids = [c.id for c in g.conds() if c.stmt is F]
        if isinstance(F, ast.Assign) or isinstance(F, ast.Expr):
            ids = list(g.nodes_of(F))
        fam_nodes.append((F, set(ids)))
    inside = set()
    for F in families:
        for n in ast.walk(F):
            inside.add(id(n))
    out = []
    for st in scope:
        for r in ast.walk(st):
            if not isinstance(r, ast.Return) or id(r) in inside:
                continue
            if r.value is not None and isinstance(r.value, ast.Name) and r.value.id in fi.params:
                continue
            rn = g.nodes_of(r)
            if not rn or rn[0] not in g.reachable_nodes():
                continue
            for F, ids in fam_nodes:
                if not ids:
                    continue
                if rn[0] in g.reach([g.entry], avoid_nodes=ids):
                    out.append((r, F))
    return out


def report_bypass(ctx, res, fi: FunctionInfo, rule: str, families: List[ast.stmt], scope: List[ast.stmt], what: str) -> int:
    bad = family_bypass(ctx, fi, families, scope)
    ok = not bad
    res.ob(rule, fi.where(scope[0]) if scope else fi.where(), "%s: every result return lies behind all %d candidate families (%s)" % (
        fi.short, len(families), what), ok,
        "no return can bypass a family" if ok else "`%s` (line %d) can be reached without `%s`" % (
            txt(bad[0][0])[:40], bad[0][0].lineno, txt(bad[0][1]).split("\n")[0][:50]))
    for r, F in bad[:3]:
        res.violation(rule, fi, r,
                      "%s can `%s` without having consulted the candidate family `%s` (line %d): configurations that only "
                      "this family detects are reported as disjoint or truncated" % (
                          fi.short, txt(r)[:40], txt(F).split("\n")[0][:60], F.lineno),
                      construct="%s: `%s` bypasses `%s`" % (fi.short, txt(r)[:40], txt(F).split("\n")[0][:60]))
    return 1


def numeric_rejections(ctx, res, rule: str, functions, what: str) -> int:
    """`None` (disjoint) may be decided by a membership test, by a sub-intersection being None or by an empty candidate
    set -- all of which carry the library's tolerance.  A *numeric* ordering comparison that leads straight to
    `return None` must leave a tolerance margin too (depend on the live get_eps()): with an exact threshold, operands
    that merely touch (where the compared quantity is zero up to float noise) are reported as disjoint."""
    from .rules.c15 import cond_deps
    eng = ctx.types
    n = 0
    for fi in functions:
        g = ctx.cfg(fi)
        for cn in g.conds():
            e = cn.ast
            cmps = [c for c in ast.walk(e) if isinstance(c, ast.Compare) and len(c.ops) == 1
                    and isinstance(c.ops[0], (ast.Lt, ast.LtE, ast.Gt, ast.GtE))]
            if not cmps:
                continue
            rejecting = False
            for y, _l in g.succ[cn.id]:
                yn = g.nodes[y]
                if yn.kind == "return" and (yn.ast.value is None or (isinstance(yn.ast.value, ast.Constant) and yn.ast.value.value is None)):
                    rejecting = True
            if not rejecting:
                continue
            for c in cmps:
                sides = [c.left, c.comparators[0]]
                if any(isinstance(x, ast.Call) and isinstance(x.func, ast.Name) and x.func.id == "len" for sd in sides for x in ast.walk(sd)):
                    continue
                tys = [set(map(str, eng.types_at(fi, sd))) for sd in sides]
                if not all(t and t <= {"num", "bool"} for t in tys):
                    continue
                n += 1
                deps = set()
                for sd in sides:
                    deps |= cond_deps(ctx, fi, sd)
                ok = "get_eps" in deps
                res.ob(rule, fi.where(c), "%s: `%s` -> return None" % (fi.short, txt(c)[:50]), ok,
                       "threshold depends on the live tolerance" if ok else "exact threshold")
                if not ok:
                    res.violation(rule, fi, c, "%s reports the operands as disjoint on the exact comparison `%s` (%s): where they merely touch "
                                  "the compared quantity is zero up to float noise, so the touching point is lost; every other None of the "
                                  "handlers comes from a tolerant membership test, a None sub-intersection or an empty candidate set"
                                  % (fi.short, txt(c)[:60], what), construct="%s: exact numeric rejection `%s`" % (fi.short, txt(c)[:40]))
    return n
