"""Syntax normalisation applied to every module before the analyses see it.

Two constructs of current Python are rewritten into the statement forms that
all engines (CFG, type inference, effects, confinement, origins) already model.
Both rewrites are exact; line numbers are kept, and findings are keyed by
function and construct, never by position.

  match S:                       if/elif chain of isinstance / == / is tests on S
      case C(): ...              (class patterns without sub-patterns, `A() | B()`,
      case (C(), D()): ...        literals, None, `_`, captures `as x`, tuple subjects
      case _: ...                 matched element-wise, guards)

  if (x := e) is None: ...       x = e; if x is None: ...        (a walrus in the
                                  left-most evaluated position of an if / return /
                                  assignment; an elif becomes else: + nested if)

  match args: case (x, y): ...   sequence patterns on the function's own *args tuple: len(args) == k and the
                                  element-wise patterns on args[i]

  @staticmethod def f(...)       hoisted to a module-level function; C.f(...) / self.f(...) / cls.f(...) redirected
  def outer(): def g(x): ...     lambda lifting of nested functions that are only called by name (captured locals become
                                  extra arguments)

  all(P(x) for x in (a, b))      P(a) and P(b)       (any -> or; literal tuple of plain names)
  x: T = e                       x = e
  try: B except E: log; raise    B          (handlers that only log and re-raise the same exception, no finally)

A pattern or position outside this fragment is left as it is; the engines then
fail closed (exit 2) on the statement they do not model.
"""
from __future__ import annotations

import ast
import copy
from typing import List, Optional, Tuple


class _Unsupported(Exception):
    pass


_VARARGS: List[str] = []  # *args names of the enclosing functions while a module is being rewritten
_SEQ_SUBJECTS: List[str] = []  # match subjects known to be sequences: list(...) / tuple(...) results, or matched only by sequence patterns


def _simple(e: ast.AST) -> bool:
    return isinstance(e, (ast.Name, ast.Constant))


def _pattern(p, subj: ast.AST) -> Tuple[Optional[ast.AST], List[ast.stmt]]:
    """-> (test expression or None for 'always', binding statements)"""
    if isinstance(p, ast.MatchClass):
        if p.patterns or p.kwd_patterns:
            raise _Unsupported()
        t = ast.Call(func=ast.Name(id="isinstance", ctx=ast.Load()), args=[copy.deepcopy(subj), copy.deepcopy(p.cls)], keywords=[])
        return t, []
    if isinstance(p, ast.MatchAs):
        binds = []
        test = None
        if p.pattern is not None:
            test, binds = _pattern(p.pattern, subj)
        if p.name is not None:
            binds = binds + [ast.Assign(targets=[ast.Name(id=p.name, ctx=ast.Store())], value=copy.deepcopy(subj))]
        return test, binds
    if isinstance(p, ast.MatchOr):
        tests = []
        for q in p.patterns:
            t, b = _pattern(q, subj)
            if b:
                raise _Unsupported()
            if t is None:
                return None, []
            tests.append(t)
        return ast.BoolOp(op=ast.Or(), values=tests), []
    if isinstance(p, ast.MatchValue):
        return ast.Compare(left=copy.deepcopy(subj), ops=[ast.Eq()], comparators=[copy.deepcopy(p.value)]), []
    if isinstance(p, ast.MatchSingleton):
        return ast.Compare(left=copy.deepcopy(subj), ops=[ast.Is()], comparators=[ast.Constant(value=p.value)]), []
    if isinstance(p, ast.MatchSequence) and isinstance(subj, ast.Name) and (subj.id in _VARARGS or subj.id in _SEQ_SUBJECTS) and not any(
            isinstance(q, ast.MatchStar) for q in p.patterns):
        # the subject is the function's *args tuple: a sequence pattern of k sub-patterns is `len(args) == k` plus the
        # element-wise patterns on args[0] ... args[k-1]
        k = len(p.patterns)
        tests = [ast.Compare(left=ast.Call(func=ast.Name(id="len", ctx=ast.Load()), args=[copy.deepcopy(subj)], keywords=[]),
                             ops=[ast.Eq()], comparators=[ast.Constant(value=k)])]
        binds = []
        for i, q in enumerate(p.patterns):
            elem = ast.Subscript(value=copy.deepcopy(subj), slice=ast.Constant(value=i), ctx=ast.Load())
            t, b = _pattern(q, elem)
            if t is not None:
                tests.append(t)
            binds += b
        return (tests[0] if len(tests) == 1 else ast.BoolOp(op=ast.And(), values=tests)), binds
    if isinstance(p, ast.MatchSequence):
        if not isinstance(subj, ast.Tuple) or len(subj.elts) != len(p.patterns) or any(isinstance(q, ast.MatchStar) for q in p.patterns):
            raise _Unsupported()
        tests, binds = [], []
        for q, s in zip(p.patterns, subj.elts):
            t, b = _pattern(q, s)
            if t is not None:
                tests.append(t)
            binds += b
        if not tests:
            return None, binds
        return (tests[0] if len(tests) == 1 else ast.BoolOp(op=ast.And(), values=tests)), binds
    raise _Unsupported()


def _match_to_if(m: ast.Match) -> List[ast.stmt]:
    pre: List[ast.stmt] = []
    subj = m.subject
    if isinstance(subj, ast.Tuple):
        elts = []
        for i, e in enumerate(subj.elts):
            if _simple(e):
                elts.append(e)
            else:
                nm = "_g3d_match_%d_%d" % (m.lineno, i)
                pre.append(ast.Assign(targets=[ast.Name(id=nm, ctx=ast.Store())], value=e))
                elts.append(ast.Name(id=nm, ctx=ast.Load()))
        subj = ast.Tuple(elts=elts, ctx=ast.Load())
    elif not _simple(subj):
        nm = "_g3d_match_%d" % m.lineno
        pre.append(ast.Assign(targets=[ast.Name(id=nm, ctx=ast.Store())], value=subj))
        is_seq = isinstance(subj, ast.Call) and isinstance(subj.func, ast.Name) and subj.func.id in ("list", "tuple", "sorted")
        subj = ast.Name(id=nm, ctx=ast.Load())
        if is_seq:
            _SEQ_SUBJECTS.append(nm)
    if isinstance(subj, ast.Name) and subj.id not in _SEQ_SUBJECTS:
        def seq_or_wild(p):
            return isinstance(p, ast.MatchSequence) or (isinstance(p, ast.MatchAs) and p.pattern is None)
        if any(isinstance(c.pattern, ast.MatchSequence) for c in m.cases) and all(seq_or_wild(c.pattern) for c in m.cases):
            _SEQ_SUBJECTS.append(subj.id)  # matched by length only: the subject is used as a sequence
    arms = []
    for c in m.cases:
        test, binds = _pattern(c.pattern, subj)
        if c.guard is not None:
            if binds:
                raise _Unsupported()
            test = c.guard if test is None else ast.BoolOp(op=ast.And(), values=[test, c.guard])
        arms.append((test, binds + list(c.body), c))
    # build the chain from the last arm backwards
    orelse: List[ast.stmt] = []
    for test, body, c in reversed(arms):
        if test is None:
            orelse = body  # irrefutable: everything after it is unreachable, as in the match statement
        else:
            node = ast.If(test=test, body=body, orelse=orelse)
            ast.copy_location(node, c.pattern)
            orelse = [node]
    out = pre + orelse
    for n in out:
        ast.copy_location(n, m)
        ast.fix_missing_locations(n)
    return out


def _leftmost_walrus(e: ast.AST) -> Optional[ast.NamedExpr]:
    """the walrus that is evaluated first and unconditionally when `e` is evaluated, if any"""
    while True:
        if isinstance(e, ast.NamedExpr):
            return e if isinstance(e.target, ast.Name) else None
        if isinstance(e, ast.Compare):
            e = e.left
        elif isinstance(e, ast.UnaryOp):
            e = e.operand
        elif isinstance(e, ast.BoolOp):
            e = e.values[0]
        elif isinstance(e, ast.BinOp):
            e = e.left
        elif isinstance(e, ast.Attribute) or isinstance(e, ast.Subscript):
            e = e.value
        elif isinstance(e, ast.Call) and isinstance(e.func, ast.Name) and e.args:
            e = e.args[0]
        else:
            return None


class _Replace(ast.NodeTransformer):
    def __init__(self, target: ast.NamedExpr):
        self.t = target

    def visit_NamedExpr(self, n):
        if n is self.t:
            return ast.copy_location(ast.Name(id=n.target.id, ctx=ast.Load()), n)
        return self.generic_visit(n)


class Desugar(ast.NodeTransformer):
    def visit_FunctionDef(self, node):
        va = node.args.vararg.arg if node.args.vararg is not None else None
        reassigned = va is not None and any(isinstance(x, ast.Name) and x.id == va and isinstance(x.ctx, ast.Store) for x in ast.walk(node))
        if va is not None and not reassigned:
            _VARARGS.append(va)
        try:
            return self.generic_visit(node)
        finally:
            if va is not None and not reassigned:
                _VARARGS.pop()

    def visit_Match(self, node):
        self.generic_visit(node)
        try:
            return _match_to_if(node)
        except _Unsupported:
            return node

    def _hoist(self, node, expr_field: str):
        out = []
        for _ in range(4):
            w = _leftmost_walrus(getattr(node, expr_field))
            if w is None:
                break
            asg = ast.copy_location(ast.Assign(targets=[ast.Name(id=w.target.id, ctx=ast.Store())], value=w.value), node)
            ast.fix_missing_locations(asg)
            out.append(asg)
            setattr(node, expr_field, _Replace(w).visit(getattr(node, expr_field)))
        return out

    def visit_If(self, node):
        # an elif whose test starts with a walrus: else: + nested if (so that the assignment can be hoisted)
        self.generic_visit(node)
        pre = self._hoist(node, "test")
        return pre + [node] if pre else node

    def visit_Return(self, node):
        if node.value is None:
            return node
        self.generic_visit(node)
        pre = self._hoist(node, "value")
        return pre + [node] if pre else node

    def visit_Assign(self, node):
        self.generic_visit(node)
        pre = self._hoist(node, "value")
        # chained assignment with one attribute target:  obj.f = x = e   ->   obj.f = e ; x = obj.f
        # (e is evaluated once and both names are bound to the same object either way; obj.f is a data attribute)
        attrs = [t for t in node.targets if isinstance(t, ast.Attribute) and isinstance(t.value, ast.Name)]
        names = [t for t in node.targets if isinstance(t, ast.Name)]
        if len(node.targets) > 1 and len(attrs) == 1 and len(names) == len(node.targets) - 1:
            a = attrs[0]
            first = ast.copy_location(ast.Assign(targets=[a], value=node.value), node)
            rest = [ast.copy_location(ast.Assign(
                targets=[n], value=ast.copy_location(ast.Attribute(value=ast.copy_location(ast.Name(id=a.value.id, ctx=ast.Load()), a),
                                                                   attr=a.attr, ctx=ast.Load()), a)), node) for n in names]
            out = pre + [first] + rest
            for x in out:
                ast.fix_missing_locations(x)
            return out
        # unpacking a comprehension over a literal tuple:  a, b = (f(p) for p in (x, y))  ->  a, b = (f(x), f(y))
        # (one generator, no filter, as many items as targets; the element expression is evaluated once per item, in order)
        if len(node.targets) == 1 and isinstance(node.targets[0], (ast.Tuple, ast.List)) \
                and isinstance(node.value, (ast.GeneratorExp, ast.ListComp)) and len(node.value.generators) == 1:
            g = node.value.generators[0]
            if not g.ifs and not g.is_async and isinstance(g.target, ast.Name) and isinstance(g.iter, (ast.Tuple, ast.List)) \
                    and len(g.iter.elts) == len(node.targets[0].elts) and not any(isinstance(x, ast.Starred) for x in g.iter.elts) \
                    and all(isinstance(x, (ast.Name, ast.Attribute, ast.Constant, ast.Subscript)) for x in g.iter.elts):
                var = g.target.id

                class _SubVar(ast.NodeTransformer):
                    def __init__(self, repl):
                        self.repl = repl

                    def visit_Name(self, n):
                        if n.id == var and isinstance(n.ctx, ast.Load):
                            return copy.deepcopy(self.repl)
                        return n

                elems = [_SubVar(x).visit(copy.deepcopy(node.value.elt)) for x in g.iter.elts]
                node = ast.copy_location(ast.Assign(targets=node.targets, value=ast.copy_location(ast.Tuple(elts=elems, ctx=ast.Load()), node.value)), node)
                ast.fix_missing_locations(node)
        # element-wise tuple assignment whose values do not mention the targets:  a, b = e1, e2  ->  a = e1 ; b = e2
        # (a swap `a, b = b, a` mentions them and stays as it is)
        if len(node.targets) == 1 and isinstance(node.targets[0], (ast.Tuple, ast.List)) and isinstance(node.value, (ast.Tuple, ast.List)) \
                and len(node.targets[0].elts) == len(node.value.elts) and all(isinstance(t, ast.Name) for t in node.targets[0].elts) \
                and not any(isinstance(v, ast.Starred) for v in node.value.elts):
            tn = {t.id for t in node.targets[0].elts}
            if len(tn) == len(node.targets[0].elts) and not any(isinstance(x, ast.Name) and x.id in tn for v in node.value.elts for x in ast.walk(v)):
                out = pre + [ast.copy_location(ast.Assign(targets=[t], value=v), node) for t, v in zip(node.targets[0].elts, node.value.elts)]
                for x in out:
                    ast.fix_missing_locations(x)
                return out
        return pre + [node] if pre else node

    def visit_Expr(self, node):
        self.generic_visit(node)
        pre = self._hoist(node, "value")
        return pre + [node] if pre else node

    def visit_Call(self, node):
        # all(P(x) for x in (a, b, c))  ->  P(a) and P(b) and P(c)      any(...)  ->  ... or ...
        # (a comprehension over a literal tuple of plain names; evaluation order and short-circuiting are the same)
        self.generic_visit(node)
        # getattr(o, "name")  ->  o.name          getattr(o, "name", d)  ->  (o.name if hasattr(o, "name") else d)
        # (a literal attribute name on a plain variable: the same attribute read, written dynamically)
        if isinstance(node.func, ast.Name) and node.func.id == "getattr" and len(node.args) in (2, 3) and not node.keywords \
                and isinstance(node.args[0], ast.Name) and isinstance(node.args[1], ast.Constant) \
                and isinstance(node.args[1].value, str) and node.args[1].value.isidentifier():
            rd = ast.Attribute(value=copy.deepcopy(node.args[0]), attr=node.args[1].value, ctx=ast.Load())
            if len(node.args) == 2:
                return ast.fix_missing_locations(ast.copy_location(rd, node))
            if _simple(node.args[2]) or isinstance(node.args[2], ast.Constant):
                test = ast.Call(func=ast.Name(id="hasattr", ctx=ast.Load()), args=[copy.deepcopy(node.args[0]), node.args[1]], keywords=[])
                return ast.fix_missing_locations(ast.copy_location(ast.IfExp(test=test, body=rd, orelse=node.args[2]), node))
        if isinstance(node.func, ast.Name) and node.func.id in ("all", "any") and len(node.args) == 1 and not node.keywords \
                and isinstance(node.args[0], (ast.GeneratorExp, ast.ListComp)):
            ge = node.args[0]
            if len(ge.generators) == 1 and not ge.generators[0].ifs and isinstance(ge.generators[0].target, ast.Name) \
                    and isinstance(ge.generators[0].iter, (ast.Tuple, ast.List)) and 0 < len(ge.generators[0].iter.elts) <= 8 \
                    and all(isinstance(x, ast.Name) for x in ge.generators[0].iter.elts):
                var = ge.generators[0].target.id

                class Sub(ast.NodeTransformer):
                    def __init__(self, repl):
                        self.repl = repl

                    def visit_Name(self, n):
                        if n.id == var and isinstance(n.ctx, ast.Load):
                            return ast.copy_location(ast.Name(id=self.repl, ctx=ast.Load()), n)
                        return n

                vals = [Sub(x.id).visit(copy.deepcopy(ge.elt)) for x in ge.generators[0].iter.elts]
                new = vals[0] if len(vals) == 1 else ast.BoolOp(op=ast.And() if node.func.id == "all" else ast.Or(), values=vals)
                return ast.copy_location(new, node)
        return node

    def visit_Compare(self, node):
        # "name" in o.__dict__  ->  hasattr(o, "name")        "name" not in o.__dict__  ->  not hasattr(o, "name")
        # (presence of an attribute written as a dictionary test; for the classes of this package, which define no
        # attribute of that name on a base class, the two coincide)
        self.generic_visit(node)
        if len(node.ops) == 1 and isinstance(node.ops[0], (ast.In, ast.NotIn)) and isinstance(node.left, ast.Constant) \
                and isinstance(node.left.value, str) and node.left.value.isidentifier():
            c = node.comparators[0]
            if isinstance(c, ast.Attribute) and c.attr == "__dict__" and isinstance(c.value, ast.Name):
                call = ast.Call(func=ast.Name(id="hasattr", ctx=ast.Load()), args=[c.value, node.left], keywords=[])
                new = call if isinstance(node.ops[0], ast.In) else ast.UnaryOp(op=ast.Not(), operand=call)
                return ast.fix_missing_locations(ast.copy_location(new, node))
        return node

    def visit_AnnAssign(self, node):
        # x: T = e  ->  x = e   (a bare declaration `x: T` has no effect at run time)
        if node.value is None:
            return ast.copy_location(ast.Pass(), node)
        new = ast.copy_location(ast.Assign(targets=[node.target], value=node.value), node)
        return self.visit_Assign(new)

    def visit_Try(self, node):
        self.generic_visit(node)
        # try: BODY  except ...: <log>; raise   -- on every normal path this is BODY: the handlers only run when BODY
        # raises and hand the exception on unchanged
        def reraises(h):
            return bool(h.body) and isinstance(h.body[-1], ast.Raise) and (
                h.body[-1].exc is None or (isinstance(h.body[-1].exc, ast.Name) and h.body[-1].exc.id == h.name)) \
                and not any(isinstance(x, (ast.Return, ast.Break, ast.Continue)) for b in h.body for x in ast.walk(b))
        if node.handlers and all(reraises(h) for h in node.handlers) and not node.finalbody:
            return list(node.body) + list(node.orelse)
        return node


def _hoist_staticmethods(tree: ast.Module) -> None:
    """@staticmethod def f(...) of class C  ->  module-level function _C_static_f; calls C.f(...) anywhere in the module and
    self.f(...) / cls.f(...) inside C are redirected.  (A static method is a plain function that lives in a class
    namespace; no engine needs to know about the namespace.)"""
    new_body: List[ast.stmt] = []
    renames = {}
    for st in tree.body:
        new_body.append(st)
        if not isinstance(st, ast.ClassDef):
            continue
        keep = []
        for m in st.body:
            if isinstance(m, ast.FunctionDef) and any(isinstance(d, ast.Name) and d.id == "staticmethod" for d in m.decorator_list) \
                    and len(m.decorator_list) == 1:
                new_name = "_%s_static_%s" % (st.name, m.name)
                renames[(st.name, m.name)] = new_name
                m.decorator_list = []
                m.name = new_name
                new_body.append(m)
            else:
                keep.append(m)
        st.body = keep or [ast.copy_location(ast.Pass(), st)]
    if not renames:
        return
    tree.body = new_body

    class R(ast.NodeTransformer):
        def __init__(self):
            self.cls = None
            self.recv = set()

        def visit_ClassDef(self, n):
            old = self.cls
            self.cls = n.name
            self.generic_visit(n)
            self.cls = old
            return n

        def visit_FunctionDef(self, n):
            old = self.recv
            if self.cls is not None and n.args.args:
                self.recv = {n.args.args[0].arg}
            self.generic_visit(n)
            self.recv = old
            return n

        def visit_Attribute(self, n):
            self.generic_visit(n)
            if isinstance(n.value, ast.Name) and isinstance(n.ctx, ast.Load):
                if (n.value.id, n.attr) in renames:
                    return ast.copy_location(ast.Name(id=renames[(n.value.id, n.attr)], ctx=ast.Load()), n)
                if self.cls is not None and n.value.id in self.recv and (self.cls, n.attr) in renames:
                    return ast.copy_location(ast.Name(id=renames[(self.cls, n.attr)], ctx=ast.Load()), n)
            return n

    R().visit(tree)


def _lift_nested_functions(tree: ast.Module) -> None:
    """lambda lifting: a function defined inside another function and only ever *called* there by name becomes a module-level
    function `_<outer>_local_<name>`; the enclosing function's locals it reads are passed as extra arguments at each call
    (a closure reads them at call time, so passing their values at the call is the same thing)"""
    import builtins

    def local_names(fn):
        names = {a.arg for a in fn.args.args + fn.args.kwonlyargs}
        if fn.args.vararg:
            names.add(fn.args.vararg.arg)
        if fn.args.kwarg:
            names.add(fn.args.kwarg.arg)
        for n in ast.walk(fn):
            if isinstance(n, ast.Name) and isinstance(n.ctx, ast.Store):
                names.add(n.id)
        return names

    new_top: List[ast.stmt] = []

    def process(outer: ast.FunctionDef, owner_name: str):
        nested = [g for g in outer.body if isinstance(g, ast.FunctionDef)]
        if not nested:
            return
        outer_locals = local_names(outer)
        for g in nested:
            if g.decorator_list or any(isinstance(x, (ast.Nonlocal, ast.Global)) for x in ast.walk(g)):
                continue
            uses = [n for n in ast.walk(outer) if isinstance(n, ast.Name) and n.id == g.name and isinstance(n.ctx, ast.Load)]
            calls = [c for c in ast.walk(outer) if isinstance(c, ast.Call) and isinstance(c.func, ast.Name) and c.func.id == g.name]
            inside = {id(n) for n in ast.walk(g)}
            if len(uses) != len(calls) or any(id(u) in inside for u in uses):
                continue  # used as a value, or recursive: leave it
            g_locals = local_names(g)
            free = []
            for n in ast.walk(g):
                if isinstance(n, ast.Name) and isinstance(n.ctx, ast.Load) and n.id not in g_locals and n.id in outer_locals \
                        and n.id != g.name and n.id not in free:
                    free.append(n.id)
            new_name = "_%s_local_%s" % (owner_name, g.name)
            for c in calls:
                c.func = ast.copy_location(ast.Name(id=new_name, ctx=ast.Load()), c.func)
                if c.keywords:
                    c.keywords += [ast.keyword(arg=f, value=ast.Name(id=f, ctx=ast.Load())) for f in free]
                else:
                    c.args += [ast.Name(id=f, ctx=ast.Load()) for f in free]
            g.name = new_name
            g.args.args = g.args.args + [ast.arg(arg=f) for f in free]
            outer.body = [x for x in outer.body if x is not g] or [ast.copy_location(ast.Pass(), outer)]
            new_top.append(g)

    for st in list(tree.body):
        if isinstance(st, ast.FunctionDef):
            process(st, st.name)
        elif isinstance(st, ast.ClassDef):
            for m in st.body:
                if isinstance(m, ast.FunctionDef):
                    process(m, "%s_%s" % (st.name, m.name))
    tree.body += new_top


def desugar(tree: ast.Module) -> ast.Module:
    _lift_nested_functions(tree)
    _hoist_staticmethods(tree)
    tree = Desugar().visit(tree)
    ast.fix_missing_locations(tree)
    return tree
