"""Candidate-origin analysis (completeness companion of the confinement analysis).

For every handler / helper of the intersection code it computes *where the values that can end up in the
result come from*, as symbolic origin descriptors that do not depend on how the code is written (explicit
loops, comprehensions, local flags, extracted private helpers with out-parameters, loops over a tuple of
fields):

    ('op', p)                 the operand parameter p
    ('part', O, attr)         a sub-part of O:  end point, origin, vertices, edge cycle, faces, edge set
    ('elem', O)               an element of the collection O
    ('hit', {O1, O2})         the result of intersecting O1 with O2

A *candidate family* is the canonical string of such a descriptor, e.g. ``a.start_point``,
``b.points[*]``, ``hit(cph.segment_set[*] | s)``.  The rules state which families a handler must consult
(derived from the operand types and the class field table); this module answers which families *are*
consulted and by which statements, so that CFG rules can demand that no result return bypasses them.
"""
from __future__ import annotations

import ast
from typing import Dict, FrozenSet, List, Optional, Set, Tuple

from .confinement import unroll_items
from .astutil import parents, txt
from .model import FunctionInfo, walk_local

FS = frozenset
PART_ATTRS = {"start_point", "end_point", "point", "points", "convex_polygons", "segment_set", "point_set", "line", "plane", "p"}
PART_METHODS = {"segments"}
COLLECTION_PARTS = {"points", "convex_polygons", "segment_set", "point_set", "segments()"}
HULL = {"Segment", "ConvexPolygon", "ConvexPolyhedron", "get_segment_from_point_list"}
UNKNOWN = ("?",)


def _is_chain(fi: FunctionInfo, name: str) -> bool:
    b = fi.resolve(name)
    return b is not None and b.kind == "ext" and str(b.target) == "itertools.chain"


def canon(d) -> str:
    k = d[0]
    if k == "op":
        return d[1]
    if k == "part":
        return "%s.%s" % (canon(d[1]), d[2])
    if k == "elem":
        return "%s[*]" % canon(d[1])
    if k == "hit":
        return "hit(%s)" % " | ".join(sorted(canon(x) for x in d[1]))
    if k == "slice":
        return "%s[%s]" % (canon(d[1]), d[2])
    return "?"


class FnOrigins:
    def __init__(self, fi: FunctionInfo):
        self.fi = fi
        self.var: Dict[str, Set] = {}
        self.contrib: List[Tuple[str, ast.AST, FrozenSet]] = []  # (container, statement, origins)
        self.returns: List[Tuple[ast.Return, FrozenSet]] = []
        self.assigns: List[Tuple[ast.AST, FrozenSet]] = []  # (assignment, origins of its value at that point)
        self.pending: List = []  # environments leaving the enclosing loops through break / continue
        self.out: Dict[str, Set] = {}  # container parameter -> origins added to it
        self.ret: Set = set()


class Origins:
    def __init__(self, ctx, module_fns: Dict[str, FunctionInfo], handlers: Set[str]):
        self.ctx = ctx
        self.fns = module_fns
        self.handlers = handlers
        self.res: Dict[str, FnOrigins] = {}
        self._inprog: Set[str] = set()
        self._gen: Set = set()

    # ------------------------------------------------------------------
    def analyse(self, name: str) -> FnOrigins:
        if name in self.res:
            return self.res[name]
        fi = self.fns[name]
        r = FnOrigins(fi)
        if name in self._inprog:
            return r
        self._inprog.add(name)
        saved_gen = self._gen
        for p in fi.params:
            r.var[p] = {("op", p)}
        r.contrib = []
        r.returns = []
        r.assigns = []
        self.block(fi.node.body, r)
        # one record per statement (loops are interpreted several times)
        def merge(recs, keyf):
            acc = {}
            order = []
            for rec in recs:
                k = keyf(rec)
                if k not in acc:
                    acc[k] = [rec[:-1], set()]
                    order.append(k)
                acc[k][1] |= set(rec[-1])
            return [tuple(acc[k][0]) + (FS(acc[k][1]),) for k in order]
        r.contrib = merge(r.contrib, lambda x: (x[0], id(x[1])))
        r.returns = merge(r.returns, lambda x: id(x[0]))
        r.assigns = merge(r.assigns, lambda x: id(x[0]))
        for p in fi.params:
            adds = set()
            for c, st, o in r.contrib:
                if c == p:
                    adds |= set(o)
            if adds:
                r.out[p] = adds
        for rs, o in r.returns:
            r.ret |= set(o)
        self._inprog.discard(name)
        self._gen = saved_gen
        self.res[name] = r
        return r

    @staticmethod
    def _copy(env):
        return {k: set(v) for k, v in env.items()}

    @staticmethod
    def _join(e1, e2):
        out = {k: set(v) for k, v in e1.items()}
        for k, v in e2.items():
            out.setdefault(k, set()).update(v)
        return out

    def block(self, stmts, r: FnOrigins) -> bool:
        """flow-sensitive interpretation of a statement list (strong updates of plain locals, joins at merges,
        loops to a fixed point of bounded depth); returns False when the block cannot fall through"""
        for st in stmts:
            if isinstance(st, ast.If):
                pre = self._copy(r.var)
                f1 = self.block(st.body, r)
                e1 = r.var
                r.var = self._copy(pre)
                f2 = self.block(st.orelse, r)
                e2 = r.var
                if f1 and f2:
                    r.var = self._join(e1, e2)
                elif f1:
                    r.var = e1
                elif f2:
                    r.var = e2
                else:
                    r.var = self._join(e1, e2)
                    return False
            elif isinstance(st, ast.For) and unroll_items(st, r.fi.node, r.fi.params) is not None:
                for elt in unroll_items(st, r.fi.node, r.fi.params):
                    self.stmt(ast.copy_location(ast.Assign(targets=[st.target], value=elt), st), r, None)
                    if not self.block(st.body, r):
                        return False
                self.block(st.orelse, r)
            elif isinstance(st, (ast.For, ast.AsyncFor, ast.While)):
                pre = self._copy(r.var)
                r.pending.append(None)
                for _ in range(3):
                    if isinstance(st, (ast.For, ast.AsyncFor)):
                        if isinstance(st.target, ast.Name):
                            self._gen = set()
                            r.var[st.target.id] = self.elems(st.iter, r, {})
                            r.assigns.append((st, FS(r.var[st.target.id] & self._gen)))
                        else:
                            for x in ast.walk(st.target):
                                if isinstance(x, ast.Name):
                                    r.var[x.id] = set()
                    self.block(st.body, r)
                    r.var = self._join(pre, r.var)
                    if r.pending[-1] is not None:
                        r.var = self._join(r.var, r.pending[-1])
                r.pending.pop()
                self.block(st.orelse, r)
            elif isinstance(st, ast.Try):
                pre = self._copy(r.var)
                self.block(st.body, r)
                acc = self._join(pre, r.var)
                for h in st.handlers:
                    r.var = self._copy(acc)
                    self.block(h.body, r)
                    acc = self._join(acc, r.var)
                r.var = acc
                self.block(st.orelse, r)
                self.block(st.finalbody, r)
            elif isinstance(st, (ast.With, ast.AsyncWith)):
                if not self.block(st.body, r):
                    return False
            elif isinstance(st, (ast.Return, ast.Raise)):
                self.stmt(st, r, None)
                return False
            elif isinstance(st, (ast.Break, ast.Continue)):
                if r.pending:
                    r.pending[-1] = self._copy(r.var) if r.pending[-1] is None else self._join(r.pending[-1], r.var)
                return False
            else:
                self.stmt(st, r, None)
        return True

    def is_helper(self, n: str) -> bool:
        return n in self.fns and n not in self.handlers and n not in HULL and n != "intersection"

    # ------------------------------------------------------------------
    def subst(self, d, amap: Dict[str, Set]) -> Set:
        """replace ('op', helper parameter) by the caller's argument origins"""
        k = d[0]
        if k == "elem" and d[1][0] == "op" and d[1][1] in amap:
            # elements of a collection parameter: if the caller passed a local container (which holds element
            # origins directly) these are its contents, otherwise the elements of the passed object
            out = set()
            contents = d[1][1] in amap.get("\0contents", ())
            for x in amap[d[1][1]]:
                out.add(x if (contents or x[0] in ("hit", "elem")) else ("elem", x))
            return out
        if k == "op":
            return set(amap.get(d[1], {UNKNOWN}))
        if k == "part":
            return {("part", x, d[2]) for x in self.subst(d[1], amap)}
        if k == "elem":
            return {("elem", x) for x in self.subst(d[1], amap)}
        if k == "slice":
            return {("slice", x, d[2]) for x in self.subst(d[1], amap)}
        if k == "hit":
            parts = [sorted(self.subst(x, amap), key=repr) for x in d[1]]
            out = set()
            if len(parts) == 2:
                for a in parts[0][:6]:
                    for b in parts[1][:6]:
                        out.add(("hit", FS([a, b])))
            elif len(parts) == 1:
                for a in parts[0][:6]:
                    out.add(("hit", FS([a])))
            return out
        return {d}

    def call_amap(self, h: FunctionInfo, call: ast.Call, r: FnOrigins, local) -> Dict[str, Set]:
        amap = {}
        contents = set()
        for p, a in zip(h.params, call.args):
            amap[p] = self.ev(a, r, local)
            # a literal tuple / list / set or a local container holds its element origins directly
            if isinstance(a, (ast.Tuple, ast.List, ast.Set)) or (isinstance(a, ast.Name) and a.id not in r.fi.params) or (
                    isinstance(a, ast.Call) and isinstance(a.func, ast.Name) and a.func.id in ("list", "tuple", "set", "sorted")):
                contents.add(p)
        amap["\0contents"] = contents
        return amap

    def ev(self, e, r: FnOrigins, local: Optional[Dict[str, Set]] = None) -> Set:
        """origins of an expression; descriptors *constructed* here (not merely read from a variable) are noted in self._gen"""
        out = self._ev(e, r, local)
        if not isinstance(e, (ast.Name, ast.IfExp, ast.BinOp, ast.Tuple, ast.List, ast.Set, ast.GeneratorExp, ast.ListComp, ast.SetComp)):
            transparent = isinstance(e, ast.Call) and (
                (isinstance(e.func, ast.Name) and (e.func.id in HULL or e.func.id in ("list", "tuple", "set", "sorted", "frozenset", "iter", "next", "reversed")
                                                   or _is_chain(r.fi, e.func.id)))
                or (isinstance(e.func, ast.Attribute) and e.func.attr in ("union", "copy", "values"))
                or txt(e.func) == "copy.deepcopy")
            transparent = transparent or (isinstance(e, ast.Subscript) and (isinstance(e.value, ast.Name) or (
                isinstance(e.value, ast.Call) and isinstance(e.value.func, ast.Name) and e.value.func.id in ("list", "tuple", "sorted"))))
            if not transparent:
                self._gen |= out
        return out

    def _ev(self, e, r: FnOrigins, local: Optional[Dict[str, Set]] = None) -> Set:
        local = local or {}
        if isinstance(e, ast.Name):
            if e.id in local:
                return set(local[e.id])
            return set(r.var.get(e.id, set()))
        if isinstance(e, ast.Attribute):
            if e.attr in PART_ATTRS:
                return {("part", o, e.attr) for o in self.ev(e.value, r, local) if o != UNKNOWN}
            return set()
        if isinstance(e, ast.Subscript):
            base = e.value
            sl = e.slice
            if isinstance(sl, ast.Slice) and not (sl.lower is None and sl.upper is None and sl.step is None) \
                    and not (isinstance(base, ast.Name) and base.id not in r.fi.params):
                # a proper slice of an operand's collection: only SOME of its elements (a different, partial family)
                return {("slice", o, txt(sl)) for o in self.ev(base, r, local) if o != UNKNOWN}
            if isinstance(sl, ast.Slice) and isinstance(base, ast.Call):
                return self.ev(base, r, local)
            if isinstance(base, ast.Name) or (isinstance(base, ast.Call) and isinstance(base.func, ast.Name)
                                              and base.func.id in ("list", "tuple", "sorted")):
                return self.ev(base, r, local)  # local containers hold element origins directly
            return {("elem", o) for o in self.ev(base, r, local) if o != UNKNOWN}
        if isinstance(e, ast.IfExp):
            return self.ev(e.body, r, local) | self.ev(e.orelse, r, local)
        if isinstance(e, ast.BinOp) and isinstance(e.op, (ast.Add, ast.BitOr)):
            return self.ev(e.left, r, local) | self.ev(e.right, r, local)  # list concatenation / set union
        if isinstance(e, (ast.Tuple, ast.List, ast.Set)):
            out = set()
            for x in e.elts:
                out |= self.ev(x, r, local)
            return out
        if isinstance(e, (ast.GeneratorExp, ast.ListComp, ast.SetComp)):
            if len(e.generators) == 1:
                g0 = e.generators[0]
                items = unroll_items(ast.For(target=g0.target, iter=g0.iter, body=[], orelse=[]), r.fi.node, r.fi.params)
                if items is not None:
                    # a comprehension over a literal tuple (of tuples): the union over its unrolled iterations
                    out = set()
                    for elt in items:
                        loc = dict(local)
                        if isinstance(g0.target, ast.Name):
                            loc[g0.target.id] = self.ev(elt, r, local)
                        elif isinstance(g0.target, (ast.Tuple, ast.List)) and isinstance(elt, (ast.Tuple, ast.List)) \
                                and len(elt.elts) == len(g0.target.elts):
                            for t, v in zip(g0.target.elts, elt.elts):
                                if isinstance(t, ast.Name):
                                    loc[t.id] = self.ev(v, r, local)
                        out |= self.ev(e.elt, r, loc)
                    return out
            loc = dict(local)
            for g in e.generators:
                if isinstance(g.target, ast.Name):
                    loc[g.target.id] = self.elems(g.iter, r, loc)
            return self.ev(e.elt, r, loc)
        if isinstance(e, ast.Call):
            fn = e.func
            if isinstance(fn, ast.Name):
                n = fn.id
                if (n == "intersection" or n in self.handlers) and len(e.args) == 2:
                    A, B = self.ev(e.args[0], r, local), self.ev(e.args[1], r, local)
                    return {("hit", FS([a, b])) for a in sorted(A, key=repr)[:6] for b in sorted(B, key=repr)[:6]
                            if a != UNKNOWN and b != UNKNOWN}
                if n in HULL:
                    out = set()
                    for a in e.args:
                        out |= self.ev(a, r, local)
                    return out
                if n in ("list", "tuple", "set", "sorted", "frozenset", "iter", "next", "reversed") and e.args:
                    return self.ev(e.args[0], r, local)
                if _is_chain(r.fi, n):
                    out = set()
                    for a in e.args:  # chain(X, Y): the collections one after the other
                        out |= self.ev(a, r, local)
                    return out
                if self.is_helper(n):
                    h = self.fns[n]
                    hs = self.analyse(n)
                    amap = self.call_amap(h, e, r, local)
                    out = set()
                    for d in hs.ret:
                        out |= self.subst(d, amap)
                    return out
                if txt(fn) == "copy.deepcopy" and e.args:
                    return self.ev(e.args[0], r, local)
                return set()
            if isinstance(fn, ast.Attribute):
                if txt(fn) == "copy.deepcopy" and e.args:
                    return self.ev(e.args[0], r, local)
                if fn.attr == "intersection" and len(e.args) == 1:
                    A, B = self.ev(fn.value, r, local), self.ev(e.args[0], r, local)
                    return {("hit", FS([a, b])) for a in sorted(A, key=repr)[:6] for b in sorted(B, key=repr)[:6]
                            if a != UNKNOWN and b != UNKNOWN}
                if fn.attr in PART_METHODS:
                    return {("part", o, fn.attr + "()") for o in self.ev(fn.value, r, local) if o != UNKNOWN}
                if fn.attr == "union":
                    out = self.ev(fn.value, r, local)
                    for a in e.args:
                        out |= self.ev(a, r, local)
                    return out
                if fn.attr in ("copy", "values"):
                    return self.ev(fn.value, r, local)
        return set()

    def elems(self, it, r: FnOrigins, local) -> Set:
        """origins of the elements of an iterated expression"""
        out = self._elems(it, r, local)
        self._gen |= {d for d in out if d[0] == "elem"}
        return out

    def _elems(self, it, r: FnOrigins, local) -> Set:
        if isinstance(it, (ast.Tuple, ast.List, ast.Set)):
            return self.ev(it, r, local)
        if isinstance(it, ast.Name) and it.id in r.fi.params and it.id not in local:
            # a collection handed in by the caller: its elements
            return {("elem", o) for o in self.ev(it, r, local) if o != UNKNOWN}
        if isinstance(it, ast.Name) or (isinstance(it, ast.Call) and isinstance(it.func, ast.Name)
                                        and it.func.id in ("list", "tuple", "sorted", "set")):
            # a local container holds its element origins directly; a local that merely names an operand's collection
            # (`faces = cph.convex_polygons`, `b_segments = tuple(b.segments())`) yields that collection's elements
            return {("elem", d) if (d[0] == "part" and d[2] in COLLECTION_PARTS) else d for d in self.ev(it, r, local)}
        if isinstance(it, ast.Call) and isinstance(it.func, ast.Name) and it.func.id in ("range", "enumerate", "zip"):
            return set()
        if isinstance(it, ast.Call) and isinstance(it.func, ast.Name) and self.is_helper(it.func.id):
            return self.ev(it, r, local)  # a hit-set helper returns a container: it holds its element origins directly
        if isinstance(it, ast.Call) and isinstance(it.func, ast.Attribute) and it.func.attr in ("union", "copy", "values"):
            return self.ev(it, r, local)
        return {("elem", o) for o in self.ev(it, r, local) if o != UNKNOWN}

    def stmt(self, st, r: FnOrigins, par):
        self._gen = set()
        self._stmt(st, r, par)

    def _stmt(self, st, r: FnOrigins, par):
        if isinstance(st, ast.Assign):
            for t in st.targets:
                if isinstance(t, ast.Name):
                    o = self.ev(st.value, r)
                    r.var[t.id] = set(o)
                    r.assigns.append((st, FS(o & self._gen)))
                elif isinstance(t, ast.Subscript) and isinstance(t.value, ast.Name) and t.value.id not in r.fi.params:
                    # d[key] = value on a local container
                    o = self.ev(st.value, r)
                    r.var.setdefault(t.value.id, set()).update(o)
                    r.contrib.append((t.value.id, st, FS(o)))
                    r.assigns.append((st, FS(o & self._gen)))
                elif isinstance(t, (ast.Tuple, ast.List)) and isinstance(st.value, (ast.Tuple, ast.List)) \
                        and len(t.elts) == len(st.value.elts):
                    vals = [self.ev(v, r) for v in st.value.elts]
                    for x, o in zip(t.elts, vals):
                        if isinstance(x, ast.Name):
                            r.var[x.id] = set(o)
                elif isinstance(t, (ast.Tuple, ast.List)):
                    for x in ast.walk(t):
                        if isinstance(x, ast.Name):
                            r.var[x.id] = set()
            self.helper_effects(st.value, st, r)
        elif isinstance(st, ast.Expr):
            c = st.value
            if isinstance(c, ast.Call) and isinstance(c.func, ast.Attribute) and isinstance(c.func.value, ast.Name) \
                    and (c.func.attr in ("add", "append", "update", "extend", "insert") and c.args
                         or c.func.attr == "setdefault" and len(c.args) == 2):
                v = c.func.value.id
                o = self.ev(c.args[-1], r)
                r.var.setdefault(v, set()).update(o)
                r.contrib.append((v, st, FS(o)))
                r.assigns.append((st, FS(o & self._gen)))
            else:
                self.helper_effects(c, st, r)
        elif isinstance(st, ast.AugAssign) and isinstance(st.target, ast.Name):
            o = self.ev(st.value, r)
            r.var.setdefault(st.target.id, set()).update(o)
            r.contrib.append((st.target.id, st, FS(o)))
            r.assigns.append((st, FS(o & self._gen)))
        elif isinstance(st, ast.Return):
            o = self.ev(st.value, r) if st.value is not None else set()
            r.returns.append((st, FS(o)))
            r.assigns.append((st, FS((o & self._gen) | {d for d in o if d[0] == "op" and isinstance(st.value, ast.Name)})))

    def helper_effects(self, c, st, r: FnOrigins):
        if isinstance(c, ast.Call) and isinstance(c.func, ast.Name) and self.is_helper(c.func.id):
            h = self.fns[c.func.id]
            hs = self.analyse(c.func.id)
            amap = self.call_amap(h, c, r, {})
            for p, ds in hs.out.items():
                if p in h.params and h.params.index(p) < len(c.args) and isinstance(c.args[h.params.index(p)], ast.Name):
                    tgt = c.args[h.params.index(p)].id
                    o = set()
                    for d in ds:
                        o |= self.subst(d, amap)
                    r.var.setdefault(tgt, set()).update(o)
                    r.contrib.append((tgt, st, FS(o)))
                    r.assigns.append((st, FS(o)))
        if isinstance(c, ast.Call) and isinstance(c.func, ast.Attribute) and c.func.attr == "union" \
                and isinstance(c.func.value, ast.Name):
            pass

    # ------------------------------------------------------------------
    def families(self, name: str) -> Dict[str, List[ast.AST]]:
        """canonical family -> statements of the function that contribute it (adds, helper calls, direct returns)"""
        r = self.analyse(name)
        out: Dict[str, List[ast.AST]] = {}
        # only what can reach the result (a returned value or a caller's container) is a candidate family
        result = set(r.ret)
        for ds in r.out.values():
            result |= set(ds)
        for st, o in r.assigns:
            for d in o:
                if d in result and d[0] in ("hit", "part", "elem", "slice", "op"):
                    L = out.setdefault(canon(d), [])
                    if not any(x is st for x in L):
                        L.append(st)
        return out


def get_origins(ctx) -> Origins:
    if "origins" in ctx.cache:
        return ctx.cache["origins"]
    from .confinement import handler_functions

    handlers, helpers, inter = handler_functions(ctx)
    fns = {}
    for mname in ("calc.intersection", "calc.aux_calc"):
        for f in ctx.repo.module(mname).functions.values():
            fns[f.name] = f
    from .rules.c01 import handler_bindings

    bound = set(handler_bindings(ctx))
    o = Origins(ctx, fns, bound | {h.name for h in handlers if h.name in bound})
    ctx.cache["origins"] = o
    return o


def family_nodes(ctx, fi: FunctionInfo, stmts: List[ast.AST]) -> Set[int]:
    """CFG nodes that stand for 'this family has been consulted': the outermost enclosing loop header of each
    contributing statement, else the conditions of the enclosing candidate-if, else the statement itself"""
    g = ctx.cfg(fi)
    par = parents(fi.node)
    ids: Set[int] = set()
    for st in stmts:
        loop = st if isinstance(st, (ast.For, ast.While)) else None
        cond_if = None
        cur = st
        while id(cur) in par:
            p = par[id(cur)]
            if isinstance(p, (ast.For, ast.While)):
                loop = p
            if isinstance(p, ast.If) and cond_if is None and any(x is cur for x in p.body):
                cond_if = p
            if isinstance(p, ast.FunctionDef):
                break
            cur = p
        if loop is not None:
            ids |= set(g.nodes_of(loop))
        elif cond_if is not None:
            # an if/elif chain is one consultation point: whether a later arm is evaluated depends on the earlier tests
            chain = [cond_if]
            head = cond_if
            while isinstance(par.get(id(head)), ast.If) and len(par[id(head)].orelse) == 1 and par[id(head)].orelse[0] is head:
                head = par[id(head)]
                chain.append(head)
            ids |= {c.id for c in g.conds() if any(c.stmt is x for x in chain)}
        else:
            ids |= set(g.nodes_of(st))
    return ids


def bypassing_returns(ctx, fi: FunctionInfo, fam_stmts: Dict[str, List[ast.AST]], required: List[str]):
    """[(return stmt, family)]: result returns (not of an operand parameter, not themselves a contribution of the
    family) that can be reached without passing any statement that contributes `family`"""
    g = ctx.cfg(fi)
    reach_all = g.reachable_nodes()
    out = []
    for fam in required:
        stmts = fam_stmts.get(fam, [])
        if not stmts:
            continue
        ids = family_nodes(ctx, fi, stmts)
        inside = set()
        for st in stmts:
            # everything nested in the enclosing loop of a contribution belongs to the family
            for n in ast.walk(st):
                inside.add(id(n))
        par = parents(fi.node)
        loops = set()
        for st in stmts:
            cur = st
            while id(cur) in par:
                cur = par[id(cur)]
                if isinstance(cur, (ast.For, ast.While)):
                    for n in ast.walk(cur):
                        inside.add(id(n))
        if not ids:
            continue
        ok_reach = g.reach([g.entry], avoid_nodes=ids)
        for r in walk_local(fi.node):
            if not isinstance(r, ast.Return) or id(r) in inside:
                continue
            if r.value is not None and isinstance(r.value, ast.Name) and r.value.id in fi.params:
                continue
            rn = g.nodes_of(r)
            if not rn or rn[0] not in reach_all:
                continue
            if rn[0] in ok_reach:
                out.append((r, fam))
    return out


def check_families(ctx, res, rule: str, fi: FunctionInfo, required: List[str], what: str,
                   exempt_bypass: Tuple[str, ...] = (), quick_rejection: bool = False) -> int:
    """presence of every required candidate family + no result return of the candidate region bypasses one.
    Returns the number of obligations emitted."""
    from .model import AnalysisError

    o = get_origins(ctx)
    fams = o.families(fi.name)
    present = [f for f in required if f in fams]
    if required and not fams:
        raise AnalysisError("%s: no candidate family of %s is recognised in the code (expected %s): unrecognised structure"
                            % (fi.where(), fi.short, required))
    n = 0
    for f in required:
        n += 1
        ok = f in fams
        res.ob(rule, fi.where(fams[f][0]) if ok else fi.where(), "%s consults %s" % (fi.short, f), ok,
               "contributed at line(s) %s" % sorted({getattr(s, "lineno", 0) for s in fams[f]}) if ok else "never contributes to the result")
        if not ok:
            res.violation(rule, fi, fi.node,
                          "%s never offers the candidate family `%s` (%s): configurations in which only this family finds the common "
                          "points lose part of the result" % (fi.short, f, what), construct="%s: family %s missing" % (fi.short, f))
    # region: result returns reachable from some family statement
    g = ctx.cfg(fi)
    req_present = [f for f in present if f not in exempt_bypass]
    all_ids: Set[int] = set()
    for f in req_present:
        all_ids |= family_nodes(ctx, fi, fams[f])
    bad = []
    if all_ids:
        region = g.reach(list(all_ids))
        for r, fam in bypassing_returns(ctx, fi, fams, req_present):
            rn = g.nodes_of(r)
            if quick_rejection and rn and rn[0] not in region and isinstance(r.value, ast.Constant) and r.value.value is None \
                    and not any(x[0] is r for x in bad):
                # an early `return None` in front of every candidate family: fine as an operand guard (None / type tests), not as
                # a geometric quick rejection ("no vertex of one lies in the other"), which decides "disjoint" without consulting
                # the families that detect the configurations it misses
                par_ = parents(fi.node)
                cur_ = r
                geometric = None
                while id(cur_) in par_:
                    prev_, cur_ = cur_, par_[id(cur_)]
                    if isinstance(cur_, ast.If):
                        def typeish(t):
                            if isinstance(t, ast.BoolOp):
                                return all(typeish(v) for v in t.values)
                            if isinstance(t, ast.UnaryOp) and isinstance(t.op, ast.Not):
                                return typeish(t.operand)
                            if isinstance(t, ast.Call) and isinstance(t.func, ast.Name) and t.func.id == "isinstance":
                                return True
                            if isinstance(t, ast.Compare) and len(t.ops) == 1 and isinstance(t.ops[0], (ast.Is, ast.IsNot)):
                                return True
                            return False
                        if not typeish(cur_.test):
                            geometric = cur_.test
                    if isinstance(cur_, ast.FunctionDef):
                        break
                if geometric is not None and any(isinstance(x, (ast.Compare, ast.Call)) for x in ast.walk(geometric)) \
                        and any(isinstance(x, ast.Name) and x.id in fi.params for x in ast.walk(geometric)):
                    bad.append((r, "%s (quick rejection `%s`)" % (fam, txt(geometric)[:50])))
                continue
            if rn and rn[0] not in region:
                continue
            if rn and rn[0] in region:
                # nested inside the loop / candidate-if of ANOTHER family: an element found by that family is returned
                nested = False
                par = parents(fi.node)
                cur = r
                while id(cur) in par:
                    cur = par[id(cur)]
                    if isinstance(cur, (ast.For, ast.While)):
                        for f2 in req_present:
                            if any(any(x is s for x in ast.walk(cur)) for s in fams[f2]):
                                nested = True
                    if isinstance(cur, ast.If) and not nested:
                        # the comprehension form of the same early accept:
                        #     x = next((e for e in FAMILY if P(e)), None)
                        #     if x is not None: return x
                        t = cur.test
                        nm = None
                        if isinstance(t, ast.Compare) and len(t.ops) == 1 and isinstance(t.ops[0], ast.IsNot) and isinstance(t.left, ast.Name) \
                                and isinstance(t.comparators[0], ast.Constant) and t.comparators[0].value is None:
                            nm = t.left.id
                        if nm is not None and isinstance(r.value, ast.Name) and r.value.id == nm and any(x is r for b_ in cur.body for x in ast.walk(b_)):
                            for f2 in req_present:
                                for s_ in fams[f2]:
                                    if isinstance(s_, ast.Assign) and len(s_.targets) == 1 and isinstance(s_.targets[0], ast.Name) \
                                            and s_.targets[0].id == nm and isinstance(s_.value, ast.Call) and isinstance(s_.value.func, ast.Name) \
                                            and s_.value.func.id == "next" and s_.value.args and isinstance(s_.value.args[0], ast.GeneratorExp):
                                        nested = True
                    if isinstance(cur, ast.FunctionDef):
                        break
                if not nested:
                    bad.append((r, fam))
    n += 1
    ok = not bad
    res.ob(rule, fi.where(), "%s: no result return bypasses a candidate family (%s)" % (fi.short, what), ok,
           "%d families on every path to the result returns" % len(req_present) if ok else
           "`%s` (line %d) can be reached without consulting `%s`" % (txt(bad[0][0])[:40], bad[0][0].lineno, bad[0][1]))
    seen = set()
    for r, fam in bad:
        if (id(r), fam) in seen:
            continue
        seen.add((id(r), fam))
        res.violation(rule, fi, r,
                      "%s can `%s` without having consulted the candidate family `%s`: configurations that only this family "
                      "detects are reported as disjoint or truncated" % (fi.short, txt(r)[:40], fam),
                      construct="%s: `%s` bypasses %s" % (fi.short, txt(r)[:40], fam))
    return n
