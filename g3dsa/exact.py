"""R-EXACT: decisions taken on the *exact* value of a coordinate-derived float.

Every comparison of the library is meant to carry the live tolerance (null(),
abs(..) < get_eps(), the __eq__ / __contains__ / parallel / orthogonal
predicates).  A branch that tests a computed float exactly -- its truthiness,
`== c`, `!= c` -- classifies the float noise of an exactly incident
configuration (a dot product of 1e-17 instead of 0) as "not incident".

exact_tests(ctx, functions) lists such tests: a decision position (if / while /
conditional expression / comprehension filter / assert / operand of and, or,
not inside one) whose atom is
   * a bare expression of type num, or
   * an == / != comparison both sides of which have type num,
and in which some side *has a float source*: a dot product of two Vectors, a
true division, a call of length / angle / area / volume / distance / math.*,
a coordinate read (x, y, z, subscript of a Vector or Point), a float literal
that is not integral, or a call of a library function whose own returns have
one (depth 3).  Integer quantities (len, counts, indices, parameters of
unknown origin) have no float source and are never reported.
"""
from __future__ import annotations

import ast
from typing import Iterator, List, Optional, Tuple

from .astutil import single_defs, txt
from .model import FunctionInfo, walk_local

FLOAT_METHODS = {"length", "angle", "area", "volume", "distance", "normalized", "unit"}
COORD_ATTRS = {"x", "y", "z"}
GEOM_NUMERIC = {"Vector", "Point"}


def _tys(ctx, fi, e) -> set:
    return set(map(str, ctx.types.types_at(fi, e)))


INT_CALLS = {"len", "int", "bool", "isinstance", "id", "hash", "ord", "range", "enumerate", "callable", "hasattr"}
INT_METHODS = {"index", "count", "find", "bit_length"}


def _walk_pruned(e: ast.AST) -> Iterator[ast.AST]:
    """sub-expressions of e that contribute to its *value*: integer-valued calls (len, int, one-argument round, index,
    count), comparisons and subscript indices are not entered"""
    todo = [e]
    while todo:
        n = todo.pop()
        if isinstance(n, ast.Call):
            f = n.func
            if isinstance(f, ast.Name) and (f.id in INT_CALLS or (f.id == "round" and len(n.args) == 1 and not n.keywords)):
                continue
            if isinstance(f, ast.Attribute) and f.attr in INT_METHODS:
                continue
        if isinstance(n, ast.Compare):
            continue
        yield n
        if isinstance(n, ast.Subscript):
            todo.append(n.value)
            continue
        todo.extend(ast.iter_child_nodes(n))


def float_source(ctx, fi: FunctionInfo, e: ast.AST, depth: int = 3, _defs=None, _seen=None) -> Optional[str]:
    """a witness (text) that `e` is computed from coordinates in floating point, or None"""
    if _defs is None:
        _defs = single_defs(fi.node, fi.params)
    _seen = _seen or set()
    for n in _walk_pruned(e):
        if isinstance(n, ast.Constant) and isinstance(n.value, float) and not float(n.value).is_integer():
            return "float literal %r" % n.value
        if isinstance(n, ast.BinOp):
            if isinstance(n.op, ast.Div):
                return "true division `%s`" % txt(n)[:40]
            if isinstance(n.op, ast.Mult) and _tys(ctx, fi, n.left) == {"Vector"} and _tys(ctx, fi, n.right) == {"Vector"}:
                return "dot product `%s`" % txt(n)[:40]
            if isinstance(n.op, ast.Pow) and isinstance(n.right, ast.Constant) and isinstance(n.right.value, float):
                return "root `%s`" % txt(n)[:40]
        if isinstance(n, ast.Attribute) and n.attr in COORD_ATTRS and _tys(ctx, fi, n.value) and _tys(ctx, fi, n.value) <= GEOM_NUMERIC:
            return "coordinate `%s`" % txt(n)[:40]
        if isinstance(n, ast.Subscript) and _tys(ctx, fi, n.value) and _tys(ctx, fi, n.value) <= GEOM_NUMERIC:
            return "coordinate `%s`" % txt(n)[:40]
        if isinstance(n, ast.Call):
            if isinstance(n.func, ast.Attribute):
                if isinstance(n.func.value, ast.Name) and n.func.value.id == "math" and n.func.attr not in ("floor", "ceil", "trunc", "factorial", "gcd", "comb"):
                    return "math.%s" % n.func.attr
                if n.func.attr in FLOAT_METHODS and not (_tys(ctx, fi, n.func.value) & {"list", "tuple", "set", "dict", "str"}):
                    return "`%s`" % txt(n)[:40]
            tg = ctx.types.call_targets.get((fi.qual, id(n)), set())
            if tg and depth > 0 and _tys(ctx, fi, n) == {"num"}:
                by_qual = getattr(ctx, "_fi_by_qual", None)
                if by_qual is None:
                    by_qual = ctx._fi_by_qual = {f.qual: f for f in ctx.repo.functions(include_visualization=False)}
                for q in sorted(tg):
                    h = by_qual.get(q)
                    if h is None or q in _seen:
                        continue
                    for r in walk_local(h.node):
                        if isinstance(r, ast.Return) and r.value is not None:
                            w = float_source(ctx, h, r.value, depth - 1, None, _seen | {q})
                            if w:
                                return "%s returns %s" % (h.short, w)
        if isinstance(n, ast.Name) and isinstance(n.ctx, ast.Load) and n.id in _defs and n.id not in _seen:
            w = float_source(ctx, fi, _defs[n.id], depth, _defs, _seen | {n.id})
            if w:
                return "%s = %s" % (n.id, w)
    return None


def _atoms(test: ast.AST) -> Iterator[ast.AST]:
    if isinstance(test, ast.BoolOp):
        for v in test.values:
            yield from _atoms(v)
    elif isinstance(test, ast.UnaryOp) and isinstance(test.op, ast.Not):
        yield from _atoms(test.operand)
    else:
        yield test


def decision_tests(fn_node: ast.AST) -> Iterator[Tuple[ast.AST, str]]:
    for n in walk_local(fn_node):
        if isinstance(n, (ast.If, ast.While, ast.IfExp, ast.Assert)):
            yield n.test, type(n).__name__.lower()
        elif isinstance(n, ast.Return) and isinstance(n.value, (ast.Compare, ast.BoolOp)) or (
                isinstance(n, ast.Return) and isinstance(n.value, ast.UnaryOp) and isinstance(n.value.op, ast.Not)):
            # a predicate: the returned comparison is the decision its callers branch on
            yield n.value, "returned predicate"
        elif isinstance(n, ast.comprehension):
            for c in n.ifs:
                yield c, "comprehension filter"
        elif isinstance(n, (ast.ListComp, ast.SetComp, ast.GeneratorExp, ast.DictComp)):
            for g in n.generators:
                for c in g.ifs:
                    yield c, "comprehension filter"


def exact_tests(ctx, functions) -> Tuple[List[Tuple[FunctionInfo, ast.AST, str, str]], int]:
    """([(function, atom, kind, witness)], number of decision atoms examined)"""
    out = []
    seen = set()
    examined = 0
    for fi in functions:
        for test, where in decision_tests(fi.node):
            for a in _atoms(test):
                if id(a) in seen:
                    continue
                seen.add(id(a))
                examined += 1
                if isinstance(a, ast.Compare):
                    if len(a.ops) != 1 or not isinstance(a.ops[0], (ast.Eq, ast.NotEq)):
                        continue
                    l, r = a.left, a.comparators[0]
                    tl, tr = _tys(ctx, fi, l), _tys(ctx, fi, r)
                    if not (tl and tr and tl <= {"num"} and tr <= {"num"}):
                        continue
                    w = float_source(ctx, fi, l) or float_source(ctx, fi, r)
                    if w:
                        out.append((fi, a, "exact %s in %s" % ("==" if isinstance(a.ops[0], ast.Eq) else "!=", where), w))
                else:
                    t = _tys(ctx, fi, a)
                    if not (t and t <= {"num"}):
                        continue
                    if isinstance(a, ast.Call) and isinstance(a.func, ast.Name) and a.func.id in ("len", "bool", "isinstance", "all", "any", "isclose", "callable", "hasattr"):
                        continue
                    if isinstance(a, ast.Call) and txt(a.func) in ("math.isclose",):
                        continue  # a tolerant comparison: its own tolerances are C19 R19.3's subject
                    w = float_source(ctx, fi, a)
                    if w:
                        out.append((fi, a, "truthiness in %s" % where, w))
    return out, examined


# Confirmed by reading: exact tests that are not geometric classifications.  One line of reason each.
EXEMPT = {
    ("ConvexPolygon.Parallelogram", "v1.length() == 0"):
        "input validation against the literal zero vector; any shorter-than-tolerance edge is rejected afterwards by the "
        "tolerant parallel() test and by ConvexPolygon.__init__ (C15)",
    ("ConvexPolyhedron.Parallelepiped", "v1.length() == 0"):
        "input validation against the literal zero vector; any shorter-than-tolerance edge is rejected afterwards by the "
        "tolerant parallel() tests and by the face constructors (C15)",
}


def report_exact(ctx, res, rule: str, functions, what: str) -> int:
    """one obligation per decision atom with a float source; returns the number of decision atoms examined"""
    found, examined = exact_tests(ctx, functions)
    for fi, a, kind, w in found:
        key = (fi.short, txt(a))
        why = EXEMPT.get(key)
        res.ob(rule, fi.where(a), "%s: `%s`" % (fi.short, txt(a)[:50]), why is not None,
               ("tabled exception: " + why) if why else "%s of a computed float (%s)" % (kind, w))
        if why is None:
            res.violation(rule, fi, a,
                          "%s decides on the exact value of a computed float: %s of `%s` (%s). An exactly incident configuration "
                          "yields float noise here (1e-17 instead of 0) and is classified as not incident; every other decision of "
                          "%s goes through a tolerant predicate (null, abs(..) < get_eps(), ==, in, parallel, orthogonal)"
                          % (fi.short, kind, txt(a)[:60], w, what),
                          construct="%s: exact float test `%s`" % (fi.short, txt(a)[:50]))
    return examined


# ------------------------------------------------------------------ raw coordinates used as identity
def _coord_key_source(ctx, fi: FunctionInfo, k: ast.AST, defs) -> Optional[str]:
    """witness that the key expression k is made of raw (unrounded) coordinates of a Point / Vector"""
    todo, seen = [k], set()
    while todo:
        n = todo.pop()
        if isinstance(n, ast.Name) and n.id in defs and n.id not in seen:
            seen.add(n.id)
            todo.append(defs[n.id])
            continue
        if isinstance(n, ast.Call) and isinstance(n.func, ast.Name):
            if n.func.id == "round":
                continue  # rounded to the library's significant figures: the library's own hashing discipline
            if n.func.id in ("tuple", "list") and len(n.args) == 1:
                t = _tys(ctx, fi, n.args[0])
                if t and t <= GEOM_NUMERIC:
                    return "`%s` (the raw coordinates of a %s)" % (txt(n)[:40], "/".join(sorted(t)))
                todo.append(n.args[0])
                continue
            if n.func.id in INT_CALLS:
                continue
        if isinstance(n, ast.Attribute) and n.attr in COORD_ATTRS and _tys(ctx, fi, n.value) and _tys(ctx, fi, n.value) <= GEOM_NUMERIC:
            return "coordinate `%s`" % txt(n)[:40]
        if isinstance(n, ast.Attribute) and n.attr == "_v" and _tys(ctx, fi, n.value) == {"Vector"}:
            return "`%s` (the raw components of a Vector)" % txt(n)[:40]
        if isinstance(n, ast.Subscript) and _tys(ctx, fi, n.value) and _tys(ctx, fi, n.value) <= GEOM_NUMERIC:
            return "coordinate `%s`" % txt(n)[:40]
        todo.extend(ast.iter_child_nodes(n))
    return None


GEOM_OBJECTS = ("Point", "Vector", "Segment", "ConvexPolygon", "Line", "Plane", "HalfLine", "ConvexPolyhedron", "Pyramid")


def coordinate_keys(ctx, functions) -> Tuple[List[Tuple[FunctionInfo, ast.AST, str, str]], int]:
    """uses of raw coordinate tuples as *identity of geometric objects*:
       (a) a dictionary that stores under a raw-coordinate key (setdefault / d[key] = ..., dict comprehension): an identity map;
       (b) a membership test `raw in seen` in a loop that appends geometric objects to a list: a hand-made duplicate filter;
       (c) a set built from raw coordinate tuples whose size is read (len) -- counting distinct positions.
    A set of raw tuples that only accompanies a set of Points (which merges by the tolerant hash anyway) is not reported.
    Returns ([(function, node, use, witness)], number of keyed uses examined)."""
    from .astutil import parents
    out = []
    examined = 0
    for fi in functions:
        defs = single_defs(fi.node, fi.params)
        par = None
        for n in walk_local(fi.node):
            keys: List[Tuple[ast.AST, str, str]] = []
            if isinstance(n, ast.Call) and isinstance(n.func, ast.Attribute) and n.args:
                recv_t = _tys_kinds(ctx, fi, n.func.value)
                if n.func.attr == "setdefault" and "dict" in recv_t:
                    keys.append((n.args[0], "dictionary key in `%s`" % txt(n)[:50], "store"))
                elif n.func.attr in ("add",) and "set" in recv_t:
                    keys.append((n.args[0], "set element in `%s`" % txt(n)[:50], "setadd"))
            elif isinstance(n, ast.Subscript) and isinstance(n.ctx, ast.Store) and "dict" in _tys_kinds(ctx, fi, n.value):
                keys.append((n.slice, "dictionary key in `%s`" % txt(n)[:50], "store"))
            elif isinstance(n, ast.Compare) and len(n.ops) == 1 and isinstance(n.ops[0], (ast.In, ast.NotIn)):
                if _tys_kinds(ctx, fi, n.comparators[0]) & {"dict", "set", "list", "tuple"}:
                    keys.append((n.left, "membership test `%s`" % txt(n)[:50], "member"))
            elif isinstance(n, ast.DictComp):
                keys.append((n.key, "dict comprehension key", "store"))
            elif isinstance(n, ast.SetComp):
                keys.append((n.elt, "set comprehension element", "setadd"))
            for k, use, kind in keys:
                examined += 1
                kt = ctx.types.types_at(fi, k)
                if any(str(t) in GEOM_OBJECTS for t in kt if not isinstance(t, tuple)):
                    continue  # keyed by the object itself: its tolerant __eq__ / __hash__
                w = _coord_key_source(ctx, fi, k, defs)
                if not w:
                    continue
                if kind == "store":
                    dname = None
                    if isinstance(n, ast.Call) and isinstance(n.func.value, ast.Name):
                        dname = n.func.value.id
                    elif isinstance(n, ast.Subscript) and isinstance(n.value, ast.Name):
                        dname = n.value.id
                    if dname is not None and _only_read_into_set(fi, dname):
                        continue  # set(d.values()): merged again by the tolerant hash of the stored objects
                    out.append((fi, k, use, w))
                elif kind == "member":
                    if par is None:
                        par = parents(fi.node)
                    loop = n
                    while id(loop) in par and not isinstance(loop, (ast.For, ast.While)):
                        loop = par[id(loop)]
                    scope = loop if isinstance(loop, (ast.For, ast.While)) else fi.node
                    for c in ast.walk(scope):
                        if isinstance(c, ast.Call) and isinstance(c.func, ast.Attribute) and c.func.attr in ("append", "extend", "insert") \
                                and c.args and "list" in _tys_kinds(ctx, fi, c.func.value) \
                                and any(str(t) in GEOM_OBJECTS for t in ctx.types.types_at(fi, c.args[-1]) if not isinstance(t, tuple)) \
                                and not (isinstance(c.func.value, ast.Name) and _only_read_into_set(fi, c.func.value.id, values=False)):
                            out.append((fi, k, use + " filtering `%s`" % txt(c)[:40], w))
                            break
                elif kind == "setadd":
                    # the number of distinct raw positions is read
                    recv = n.func.value if isinstance(n, ast.Call) else None
                    name = recv.id if isinstance(recv, ast.Name) else None
                    if name is None and isinstance(n, ast.SetComp):
                        if par is None:
                            par = parents(fi.node)
                        p_ = par.get(id(n))
                        if isinstance(p_, ast.Call) and isinstance(p_.func, ast.Name) and p_.func.id == "len":
                            out.append((fi, k, "len() of a " + use, w))
                        elif isinstance(p_, ast.Assign) and len(p_.targets) == 1 and isinstance(p_.targets[0], ast.Name):
                            name = p_.targets[0].id
                    if name is not None:
                        for c in walk_local(fi.node):
                            if isinstance(c, ast.Call) and isinstance(c.func, ast.Name) and c.func.id == "len" and len(c.args) == 1 \
                                    and isinstance(c.args[0], ast.Name) and c.args[0].id == name:
                                out.append((fi, k, use + " counted by `%s`" % txt(c), w))
                                break
    return out, examined


def _only_read_into_set(fi: FunctionInfo, name: str, values: bool = True) -> bool:
    """every read of the local container `name` (other than the keyed stores / appends themselves) is  set(name.values())
    / frozenset(...)  (values=True)  or  set(name) / frozenset(name)  (values=False)"""
    from .astutil import parents
    par = parents(fi.node)
    reads = 0
    for n in walk_local(fi.node):
        if not (isinstance(n, ast.Name) and n.id == name and isinstance(n.ctx, ast.Load)):
            continue
        p = par.get(id(n))
        # the store / append / membership sites themselves
        if isinstance(p, ast.Attribute) and p.attr in ("setdefault", "append", "extend", "insert", "add"):
            continue
        if isinstance(p, ast.Subscript) and isinstance(p.ctx, ast.Store):
            continue
        if isinstance(p, ast.Compare):
            continue
        reads += 1
        e = p
        if values:
            if not (isinstance(p, ast.Attribute) and p.attr == "values"):
                return False
            e = par.get(id(p))  # the call .values()
            e = par.get(id(e)) if isinstance(e, ast.Call) else None
        if not (isinstance(e, ast.Call) and isinstance(e.func, ast.Name) and e.func.id in ("set", "frozenset") and len(e.args) == 1):
            return False
    return reads > 0


def _tys_kinds(ctx, fi, e) -> set:
    return {t[0] for t in ctx.types.types_at(fi, e) if isinstance(t, tuple)}


def report_coordinate_keys(ctx, res, rule: str, functions, what: str) -> int:
    """returns the number of functions scanned (the anti-vacuity measure: the number of keyed uses varies with style)"""
    functions = list(functions)
    found, examined = coordinate_keys(ctx, functions)
    res.count("%s keyed uses examined" % rule, examined)
    for fi, k, use, w in found:
        res.ob(rule, fi.where(k), "%s: %s" % (fi.short, use), False, "keyed by %s" % w)
        res.violation(rule, fi, k,
                      "%s identifies points by their exact coordinates: %s keyed by %s. Two computations of the same point differ "
                      "by float noise (1e-16), so they are kept as two points; %s merges points only through Point.__eq__ / "
                      "__hash__ (sets of Points), which carry the tolerance" % (fi.short, use, w, what),
                      construct="%s: raw coordinates as identity `%s`" % (fi.short, txt(k)[:50]))
    return len(functions)


# ------------------------------------------------------------------ rounding of computed values
HASH_ROOTS = {"__hash__", "hash_with_normal", "oriented_hash", "eq_with_normal", "__eq__", "__repr__", "__str__"}


def _hash_like(ctx, fi: FunctionInfo, _seen=None) -> bool:
    """fi is a hash / equality / repr method, or a private helper all of whose callers are"""
    if fi.name in HASH_ROOTS:
        return True
    _seen = _seen or set()
    if fi.qual in _seen or not fi.name.startswith("_"):
        return False
    _seen = _seen | {fi.qual}
    eng = ctx.types
    rev = ctx.cache.get("exact.rev_calls")
    if rev is None:
        rev = {}
        for a, bs in eng.call_graph().items():
            for b in bs:
                rev.setdefault(b, set()).add(a)
        ctx.cache["exact.rev_calls"] = rev
    callers = rev.get(fi.qual, set())
    if not callers:
        return True  # a private helper whose calls were all read as its body (inlined): nothing reaches it any more
    return all(eng.fn_by_qual.get(q) is not None and _hash_like(ctx, eng.fn_by_qual[q], _seen) for q in callers)


CORE_ENTRY_NAMES = {"intersection", "distance", "angle", "parallel", "orthogonal", "volume", "__contains__", "in_", "move", "length",
                    "area", "height", "__init__", "segments", "__neg__", "get_circle_point_list", "Circle", "Sphere", "Cylinder", "Cone",
                    "Parallelogram", "Parallelepiped", "general_form", "parametric", "pv", "__getitem__", "__setitem__", "acute"}


def _core_reach(ctx) -> set:
    """functions reached from the geometric entry points without passing through a hash / eq / repr method: the code whose
    values go on into the geometry (a user-requested `Point.rounded(ndigits)` or a helper only the hashes call is not in it)"""
    if "exact.core_reach" in ctx.cache:
        return ctx.cache["exact.core_reach"]
    eng = ctx.types
    g = eng.call_graph()
    todo = [f.qual for f in ctx.repo.functions(include_visualization=False) if f.name in CORE_ENTRY_NAMES and f.name not in HASH_ROOTS]
    seen = set(todo)
    while todo:
        q = todo.pop()
        for q2 in g.get(q, ()):
            f2 = eng.fn_by_qual.get(q2)
            if f2 is None or q2 in seen or f2.name in HASH_ROOTS:
                continue
            seen.add(q2)
            todo.append(q2)
    ctx.cache["exact.core_reach"] = seen
    return seen


def report_rounding(ctx, res, rule: str, functions, what: str) -> int:
    """`round(x, k)` of a coordinate-derived float outside the hash / repr methods: the value that goes on into the geometry is
    moved by up to 0.5 * 10**-k -- at the default k = 10 that is 5e-11, half the tolerance before any lever arm; multiplied by
    an unnormalised edge length (ConvexPolygon.__contains__), a direction vector (line parameters) or summed over faces it
    exceeds eps, and a point that lies exactly on an edge / plane is judged outside.  Returns the number of functions scanned."""
    n = 0
    for fi in functions:
        n += 1
        if _hash_like(ctx, fi) or fi.qual not in _core_reach(ctx):
            continue
        for c in walk_local(fi.node):
            if not (isinstance(c, ast.Call) and isinstance(c.func, ast.Name) and c.func.id == "round" and fi.resolve("round") is None):
                continue
            prec = c.args[1] if len(c.args) >= 2 else next((k.value for k in c.keywords if k.arg == "ndigits"), None)
            if prec is None or not c.args:
                continue
            if isinstance(prec, ast.Constant) and prec.value is None:
                continue
            a0 = c.args[0]
            if isinstance(a0, ast.Constant):
                continue
            if isinstance(a0, ast.Call) and isinstance(a0.func, ast.Name) and a0.func.id in INT_CALLS:
                continue
            w = float_source(ctx, fi, a0) or "a computed number"
            res.ob(rule, fi.where(c), "%s: `%s`" % (fi.short, txt(c)[:50]), False, "a computed value is rounded outside the hash methods (%s)" % (w or "a Point / Vector"))
            res.violation(rule, fi, c,
                          "%s rounds a computed value that goes on into the geometry: `%s` (%s). Rounding to the hash precision moves it by "
                          "up to 5e-11; multiplied by an unnormalised edge or direction vector, or summed, that exceeds the tolerance 1e-10: "
                          "a point exactly on an edge is judged outside, a vertex leaves its face plane, %s is off by more than eps. "
                          "Rounding belongs to __hash__ only" % (fi.short, txt(c)[:60], w or "coordinates", what),
                          construct="%s: rounds `%s`" % (fi.short, txt(c.args[0])[:40]))
    return n
