"""Constant folding of module-level numeric initialisers (no dependency on the model)."""
from __future__ import annotations

import ast
import math


def const_value(e: ast.AST):
    """value of a numeric constant expression (literals, math.pi, + - * / **, unary minus); None otherwise"""
    if isinstance(e, ast.Constant) and isinstance(e.value, (int, float)) and not isinstance(e.value, bool):
        return e.value
    if isinstance(e, ast.Attribute) and isinstance(e.value, ast.Name) and e.value.id == "math" and e.attr == "pi":
        return math.pi
    if isinstance(e, ast.UnaryOp) and isinstance(e.op, (ast.USub, ast.UAdd)):
        v = const_value(e.operand)
        return None if v is None else (-v if isinstance(e.op, ast.USub) else v)
    if isinstance(e, ast.BinOp):
        a, b = const_value(e.left), const_value(e.right)
        if a is None or b is None:
            return None
        try:
            if isinstance(e.op, ast.Add):
                return a + b
            if isinstance(e.op, ast.Sub):
                return a - b
            if isinstance(e.op, ast.Mult):
                return a * b
            if isinstance(e.op, ast.Div):
                return a / b
            if isinstance(e.op, ast.Pow):
                return a ** b
        except (ZeroDivisionError, OverflowError):
            return None
    return None
