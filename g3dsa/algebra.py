"""E4 -- expression algebra (no execution).

* Polynomial normal forms over opaque atoms with exact rational coefficients,
  obtained by interpreting the AST of the vector / point methods over symbolic
  coordinates.  Two expressions agree iff their normal forms are equal, so any
  algebraically equivalent rewrite is accepted.  This is expression
  normalisation (value numbering), not path exploration and not a solver.
* Degree / parity domain used for the gauge invariance of hashes (C08).
Anything outside the handled forms is an analysis error, never a guess.
"""
from __future__ import annotations

import ast
import itertools
from fractions import Fraction as F
from typing import Dict, List, Optional, Tuple

from .astutil import txt
from .model import AnalysisError, ClassInfo, FunctionInfo, Repo, walk_local

Poly = Dict[Tuple[str, ...], F]


# ------------------------------------------------------------------ polynomials
def P(atom: str) -> Poly:
    return {(atom,): F(1)}


def C(c) -> Poly:
    c = F(c)
    return {(): c} if c else {}


def padd(a: Poly, b: Poly, s=1) -> Poly:
    r = dict(a)
    for m, c in b.items():
        v = r.get(m, F(0)) + s * c
        if v:
            r[m] = v
        else:
            r.pop(m, None)
    return r


def pmul(a: Poly, b: Poly) -> Poly:
    r: Poly = {}
    for (m1, c1), (m2, c2) in itertools.product(a.items(), b.items()):
        m = tuple(sorted(m1 + m2))
        v = r.get(m, F(0)) + c1 * c2
        if v:
            r[m] = v
        else:
            r.pop(m, None)
    return r


def pneg(a: Poly) -> Poly:
    return {m: -c for m, c in a.items()}


def pconst(a: Poly) -> Optional[F]:
    if not a:
        return F(0)
    if set(a) == {()}:
        return a[()]
    return None


def pshow(a: Poly) -> str:
    if not a:
        return "0"
    parts = []
    for m, c in sorted(a.items()):
        mono = "*".join(m) if m else "1"
        parts.append(("%s*%s" % (c, mono)) if c != 1 or not m else mono)
    return " + ".join(parts)


# ------------------------------------------------------------------ symbolic values
class SObj:
    """symbolic instance of a package class: field name -> value"""

    def __init__(self, cls: str, fields=None):
        self.cls = cls
        self.f = dict(fields or {})

    def __repr__(self):
        return "<%s %s>" % (self.cls, {k: (pshow(v) if isinstance(v, dict) else v) for k, v in self.f.items()})


class Opaque:
    def __init__(self, what):
        self.what = what


class _Return(Exception):
    def __init__(self, v):
        self.v = v


class _Raise(Exception):
    pass


class SymInterp:
    """Interprets the straight-line / type-switch code of the vector algebra symbolically."""

    def __init__(self, repo: Repo):
        self.repo = repo
        self.coercions: List[str] = []
        self.depth = 0

    # -- entry points
    def new(self, cname: str, *args):
        c = self.repo.cls(cname)
        o = SObj(cname)
        init = c.lookup("__init__")
        if init is not None:
            self.call_fn(init, [o] + list(args))
        return o

    def method(self, obj: SObj, name: str, *args):
        m = self.repo.cls(obj.cls).lookup(name)
        if m is None:
            raise AnalysisError("E4: %s has no method %s" % (obj.cls, name))
        return self.call_fn(m, [obj] + list(args))

    def call_fn(self, fi: FunctionInfo, args: list):
        self.depth += 1
        if self.depth > 40:
            raise AnalysisError("E4: recursion too deep in %s" % fi.short)
        env = {}
        ps = fi.params
        for p, a in zip(ps, args):
            env[p] = a
        if fi.vararg:
            env[fi.vararg] = tuple(args[len(ps):])
        elif len(args) > len(ps):
            raise AnalysisError("E4: too many arguments for %s" % fi.short)
        nd = len(fi.defaults)
        for i, p in enumerate(ps):
            if p not in env:
                j = i - (len(ps) - nd)
                if j >= 0:
                    env[p] = self.ev(fi.defaults[j], {}, fi)
                else:
                    raise AnalysisError("E4: missing argument %s of %s" % (p, fi.short))
        try:
            self.block(fi.node.body, env, fi)
            return None
        except _Return as r:
            return r.v
        finally:
            self.depth -= 1

    # -- statements
    def block(self, stmts, env, fi):
        for s in stmts:
            self.stmt(s, env, fi)

    def truth(self, e, env, fi) -> bool:
        v = self.ev(e, env, fi)
        if isinstance(v, bool):
            return v
        raise AnalysisError("E4: %s: condition `%s` does not fold to a constant" % (fi.where(e), txt(e)))

    def stmt(self, s, env, fi):
        if isinstance(s, ast.Expr):
            if isinstance(s.value, ast.Constant):
                return  # docstring
            if isinstance(s.value, ast.Call) and txt(s.value.func).startswith("get_main_logger()."):
                return  # logging has no value
            self.ev(s.value, env, fi)
            return
        if isinstance(s, ast.Assign):
            v = self.ev(s.value, env, fi)
            for t in s.targets:
                self.assign(t, v, env, fi)
            return
        if isinstance(s, ast.AugAssign):
            cur = self.ev(s.target, env, fi)
            v = self.binop(type(s.op), cur, self.ev(s.value, env, fi), fi, s)
            self.assign(s.target, v, env, fi)
            return
        if isinstance(s, ast.If):
            if self.truth(s.test, env, fi):
                self.block(s.body, env, fi)
            else:
                self.block(s.orelse, env, fi)
            return
        if isinstance(s, ast.Return):
            raise _Return(self.ev(s.value, env, fi) if s.value is not None else None)
        if isinstance(s, ast.Raise):
            raise AnalysisError("E4: %s: symbolic execution reaches `%s`" % (fi.where(s), txt(s)[:60]))
        if isinstance(s, (ast.Pass, ast.Import, ast.ImportFrom, ast.Assert, ast.Global)):
            return  # an assertion is an invariant of the code, not part of the value it computes
        if isinstance(s, ast.For):
            for val in self.iterate(self.ev(s.iter, env, fi), fi, s.iter):
                self.assign(s.target, val, env, fi)
                self.block(s.body, env, fi)
            self.block(s.orelse, env, fi)
            return
        raise AnalysisError("E4: %s: statement kind %s is not handled" % (fi.where(s), type(s).__name__))

    def assign(self, t, v, env, fi):
        if isinstance(t, ast.Name):
            env[t.id] = v
        elif isinstance(t, (ast.Tuple, ast.List)):
            vs = list(v) if isinstance(v, (list, tuple)) else (self.iterate(v, fi, t) if isinstance(v, SObj) else None)
            if vs is None or len(vs) != len(t.elts):
                raise AnalysisError("E4: %s: cannot unpack" % fi.where(t))
            for x, y in zip(t.elts, vs):
                self.assign(x, y, env, fi)
        elif isinstance(t, ast.Attribute):
            o = self.ev(t.value, env, fi)
            if not isinstance(o, SObj):
                raise AnalysisError("E4: %s: attribute store on a non-object" % fi.where(t))
            o.f[t.attr] = v
        elif isinstance(t, ast.Subscript):
            o = self.ev(t.value, env, fi)
            i = self.ev(t.slice, env, fi)
            ci = pconst(i) if isinstance(i, dict) else None
            if isinstance(o, list) and ci is not None:
                o[int(ci)] = v
            else:
                raise AnalysisError("E4: %s: subscript store is not handled" % fi.where(t))
        else:
            raise AnalysisError("E4: %s: assignment target %s" % (fi.where(t), type(t).__name__))

    # -- expressions
    def ev(self, e, env, fi):
        if isinstance(e, ast.Constant):
            if isinstance(e.value, bool) or e.value is None or isinstance(e.value, str):
                return e.value
            if isinstance(e.value, int):
                return C(e.value)
            if isinstance(e.value, float):
                return C(F(e.value))
            raise AnalysisError("E4: constant %r" % (e.value,))
        if isinstance(e, ast.Name):
            if e.id in env:
                return env[e.id]
            b = fi.resolve(e.id)
            if b is not None and b.kind == "class":
                return ("class", b.target.name)
            if b is not None and b.kind == "func":
                return ("func", b.target)
            return ("name", e.id)
        if isinstance(e, ast.Attribute):
            o = self.ev(e.value, env, fi)
            if isinstance(o, SObj):
                if e.attr in o.f:
                    return o.f[e.attr]
                m = self.repo.cls(o.cls).lookup(e.attr)
                if m is not None:
                    return ("bound", o, m)
                raise AnalysisError("E4: %s: %s has no field %s" % (fi.where(e), o.cls, e.attr))
            if isinstance(o, tuple) and o and o[0] == "class":
                m = self.repo.cls(o[1]).lookup(e.attr)
                if m is not None:
                    return ("clsmethod", o[1], m)
            if isinstance(o, tuple) and o and o[0] == "name":
                return ("name", o[1] + "." + e.attr)
            raise AnalysisError("E4: %s: attribute `%s`" % (fi.where(e), txt(e)))
        if isinstance(e, ast.Subscript):
            o = self.ev(e.value, env, fi)
            i = self.ev(e.slice, env, fi)
            ci = pconst(i) if isinstance(i, dict) else None
            if isinstance(o, SObj):
                g = self.repo.cls(o.cls).lookup("__getitem__")
                if g is None:
                    raise AnalysisError("E4: %s: %s is not subscriptable" % (fi.where(e), o.cls))
                return self.call_fn(g, [o, i])
            if isinstance(o, (list, tuple)) and ci is not None:
                return o[int(ci)]
            raise AnalysisError("E4: %s: subscript `%s`" % (fi.where(e), txt(e)))
        if isinstance(e, ast.UnaryOp):
            v = self.ev(e.operand, env, fi)
            if isinstance(e.op, ast.USub):
                if isinstance(v, dict):
                    return pneg(v)
                if isinstance(v, SObj):
                    return self.method(v, "__neg__")
            if isinstance(e.op, ast.Not) and isinstance(v, bool):
                return not v
            raise AnalysisError("E4: %s: unary `%s`" % (fi.where(e), txt(e)))
        if isinstance(e, ast.BinOp):
            return self.binop(type(e.op), self.ev(e.left, env, fi), self.ev(e.right, env, fi), fi, e)
        if isinstance(e, ast.Compare) and len(e.ops) == 1:
            l = self.ev(e.left, env, fi)
            r = self.ev(e.comparators[0], env, fi)
            if isinstance(l, dict) and isinstance(r, dict):
                a, b = pconst(l), pconst(r)
                if a is not None and b is not None:
                    op = type(e.ops[0])
                    return {ast.Eq: a == b, ast.NotEq: a != b, ast.Lt: a < b, ast.LtE: a <= b, ast.Gt: a > b, ast.GtE: a >= b}[op]
            if isinstance(l, dict) and isinstance(r, (tuple, list)) and isinstance(e.ops[0], (ast.In, ast.NotIn)):
                a = pconst(l)
                bs = [pconst(x) if isinstance(x, dict) else None for x in r]
                if a is not None and all(x is not None for x in bs):
                    return (a in bs) if isinstance(e.ops[0], ast.In) else (a not in bs)
            raise AnalysisError("E4: %s: comparison `%s` does not fold" % (fi.where(e), txt(e)))
        if isinstance(e, ast.BoolOp):
            vals = [self.truth(v, env, fi) for v in e.values]
            return all(vals) if isinstance(e.op, ast.And) else any(vals)
        if isinstance(e, (ast.Tuple, ast.List)):
            vs = [self.ev(x, env, fi) for x in e.elts]
            return vs if isinstance(e, ast.List) else tuple(vs)
        if isinstance(e, ast.IfExp):
            return self.ev(e.body if self.truth(e.test, env, fi) else e.orelse, env, fi)
        if isinstance(e, (ast.ListComp, ast.GeneratorExp)):
            return self.comp(e, env, fi)
        if isinstance(e, ast.Call):
            return self.call(e, env, fi)
        raise AnalysisError("E4: %s: expression kind %s" % (fi.where(e), type(e).__name__))

    def iterate(self, v, fi, node):
        if isinstance(v, (list, tuple)):
            return list(v)
        if isinstance(v, SObj):
            c = self.repo.cls(v.cls)
            if c.lookup("__iter__") is not None:
                return self.iterate(self.call_fn(c.lookup("__iter__"), [v]), fi, node)
            if c.lookup("__iter__") is None and c.lookup("__getitem__") is not None:
                # legacy iteration protocol over the stored component list
                out = []
                for i in range(3):
                    out.append(self.call_fn(c.lookup("__getitem__"), [v, C(i)]))
                return out
        raise AnalysisError("E4: %s: cannot iterate" % fi.where(node))

    def comp(self, e, env, fi):
        if len(e.generators) != 1 or e.generators[0].ifs:
            raise AnalysisError("E4: %s: comprehension shape" % fi.where(e))
        g = e.generators[0]
        it = g.iter
        out = []
        if isinstance(it, ast.Call) and isinstance(it.func, ast.Name) and it.func.id == "zip":
            seqs = [self.iterate(self.ev(a, env, fi), fi, a) for a in it.args]
            for tup in zip(*seqs):
                e2 = dict(env)
                self.assign(g.target, tuple(tup), e2, fi)
                out.append(self.ev(e.elt, e2, fi))
        else:
            for val in self.iterate(self.ev(it, env, fi), fi, it):
                e2 = dict(env)
                self.assign(g.target, val, e2, fi)
                out.append(self.ev(e.elt, e2, fi))
        return out

    def binop(self, op, l, r, fi, node):
        if isinstance(l, dict) and isinstance(r, dict):
            if op is ast.Add:
                return padd(l, r)
            if op is ast.Sub:
                return padd(l, r, -1)
            if op is ast.Mult:
                return pmul(l, r)
            if op is ast.Div:
                c = pconst(r)
                if c:
                    return pmul(l, C(1 / c))
            if op is ast.Pow:
                c = pconst(r)
                if c is not None and c.denominator == 1 and 0 <= c <= 6:
                    out = C(1)
                    for _ in range(int(c)):
                        out = pmul(out, l)
                    return out
            raise AnalysisError("E4: %s: arithmetic `%s` is outside the polynomial fragment" % (fi.where(node), txt(node)[:60]))
        names = {ast.Add: ("__add__", "__radd__"), ast.Sub: ("__sub__", "__rsub__"), ast.Mult: ("__mul__", "__rmul__")}
        if op in names:
            d, rd = names[op]
            if isinstance(l, SObj) and self.repo.cls(l.cls).lookup(d) is not None:
                return self.method(l, d, r)
            if isinstance(r, SObj) and self.repo.cls(r.cls).lookup(rd) is not None:
                return self.method(r, rd, l)
        raise AnalysisError("E4: %s: operands of `%s` are not handled" % (fi.where(node), txt(node)[:60]))

    def call(self, e, env, fi):
        if e.keywords:
            raise AnalysisError("E4: %s: keyword arguments" % fi.where(e))
        args = []
        for a in e.args:
            if isinstance(a, ast.Starred):
                args.extend(self.iterate(self.ev(a.value, env, fi), fi, a))
            else:
                args.append(self.ev(a, env, fi))
        fn = self.ev(e.func, env, fi)
        if isinstance(fn, tuple) and fn:
            if fn[0] == "class":
                return self.new(fn[1], *args)
            if fn[0] == "bound":
                return self.call_fn(fn[2], [fn[1]] + args)
            if fn[0] == "clsmethod":
                return self.call_fn(fn[2], [("class", fn[1])] + args)
            if fn[0] == "func":
                if fn[1].short == "unify_types":
                    return list(self.iterate(args[0], fi, e))  # promotion does not change values
                return self.call_fn(fn[1], args)
            if fn[0] == "name":
                n = fn[1]
                if n == "isinstance":
                    cls = args[1]
                    if isinstance(cls, tuple) and cls and cls[0] == "class":
                        return isinstance(args[0], SObj) and self.repo.cls(cls[1]) in self.repo.cls(args[0].cls).mro()
                    raise AnalysisError("E4: %s: isinstance on %s" % (fi.where(e), txt(e.args[1])))
                if n == "len":
                    return C(len(self.iterate(args[0], fi, e)))
                if n == "iter" and len(args) == 1:
                    return list(self.iterate(args[0], fi, e))
                if n == "zip":
                    return [tuple(t) for t in zip(*[self.iterate(a, fi, e) for a in args])]
                if n.startswith("operator.") and n.split(".", 1)[1] in ("add", "sub", "mul", "truediv") and len(args) == 2:
                    opn = {"add": ast.Add, "sub": ast.Sub, "mul": ast.Mult, "truediv": ast.Div}[n.split(".", 1)[1]]
                    return self.binop(opn, args[0], args[1], fi, e)
                if n == "operator.neg" and len(args) == 1 and isinstance(args[0], dict):
                    return pmul(args[0], C(-1))
                if n in ("list", "tuple"):
                    vs = self.iterate(args[0], fi, e)
                    return list(vs) if n == "list" else tuple(vs)
                if n == "sum":
                    out: Poly = {}
                    for x in self.iterate(args[0], fi, e):
                        if not isinstance(x, dict):
                            raise AnalysisError("E4: %s: sum of non-scalars" % fi.where(e))
                        out = padd(out, x)
                    return out
                if n in ("float", "int", "round", "Decimal", "Fraction", "abs") or n.startswith("math."):
                    self.coercions.append("%s %s `%s`" % (fi.where(e), fi.short, txt(e)[:50]))
                    raise AnalysisError("E4: %s: `%s` leaves the exact algebra" % (fi.where(e), txt(e)[:50]))
                if n == "get_main_logger" or n.endswith(".debug") or n.endswith(".format"):
                    return None
        raise AnalysisError("E4: %s: call `%s` is not handled" % (fi.where(e), txt(e)[:60]))


def sym_vector(it: SymInterp, name: str) -> SObj:
    return it.new("Vector", P(name + "0"), P(name + "1"), P(name + "2"))


def sym_point(it: SymInterp, name: str) -> SObj:
    return it.new("Point", P(name + "x"), P(name + "y"), P(name + "z"))


def vec_components(it: SymInterp, v) -> List[Poly]:
    if not isinstance(v, SObj):
        raise AnalysisError("E4: expected a Vector/Point object, got %r" % (v,))
    if v.cls == "Point":
        return [v.f["x"], v.f["y"], v.f["z"]]
    g = it.repo.cls(v.cls).lookup("__getitem__")
    return [it.call_fn(g, [v, C(i)]) for i in range(3)]


def point_distance_forms(ctx):
    """normal forms under the root of Point.distance and distance(Point, Point)"""
    repo = ctx.repo
    # Point.distance: math.sqrt(<poly>)
    pd = repo.fn("Point.distance")
    rets = [r for r in walk_local(pd.node) if isinstance(r, ast.Return)]
    if len(rets) != 1 or not (isinstance(rets[0].value, ast.Call) and txt(rets[0].value.func) in ("math.sqrt", "sqrt")):
        raise AnalysisError("Point.distance is not `math.sqrt(<expression>)`")
    it = SymInterp(repo)
    a, b = sym_point(it, "a"), sym_point(it, "b")
    env = {pd.params[0]: a, pd.params[1]: b}
    from .astutil import expand_locals
    f1 = it.ev(expand_locals(pd.node, rets[0].value.args[0], pd.params), env, pd)
    # distance(Point, Point): Vector(a, b).length() == (v*v) ** 0.5
    it2 = SymInterp(repo)
    a2, b2 = sym_point(it2, "a"), sym_point(it2, "b")
    v = it2.new("Vector", a2, b2)
    ln = repo.fn("Vector.length")
    lr = [r for r in walk_local(ln.node) if isinstance(r, ast.Return)]
    if len(lr) != 1 or not (isinstance(lr[0].value, ast.BinOp) and isinstance(lr[0].value.op, ast.Pow)
                            and txt(lr[0].value.right) == "0.5"):
        raise AnalysisError("Vector.length is not `(<expression>) ** 0.5`")
    f2 = it2.ev(expand_locals(ln.node, lr[0].value.left, ln.params), {ln.params[0]: v}, ln)
    return pshow(f1), pshow(f2), f1 == f2


# ------------------------------------------------------------------ gauge interpretation of __hash__
def canon(v) -> str:
    if isinstance(v, dict):
        return pshow(v)
    if isinstance(v, SObj):
        return "%s(%s)" % (v.cls, ", ".join("%s=%s" % (k, canon(x)) for k, x in sorted(v.f.items())))
    if isinstance(v, (list, tuple)):
        return "(" + ", ".join(canon(x) for x in v) + ")"
    return repr(v)


class HashInterp(SymInterp):
    """SymInterp that models the non-polynomial primitives of the hash functions as opaque,
    *functional* atoms of their canonical arguments: hash(x), round(x, n), get_sig_figures(),
    and v.normalized() as  lambda_v * v  with one positive atom per distinct vector."""

    def call_fn(self, fi, args):
        if fi.short in ("Vector.normalized",) or (fi.cls is not None and fi.cls.name == "Vector" and fi.name == "unit"):
            v = args[0]
            comps = vec_components(self, v)
            # zero vector stays zero; otherwise one scale atom per direction class is enough for the
            # translation gauges checked here (the scale / sign gauges are decided by the parity domain)
            lam = P("lambda[%s]" % canon([c for c in comps]))
            return self.new("Vector", *[pmul(c, lam) for c in comps])
        if fi.short in ("get_sig_figures", "get_eps"):
            return P(fi.short + "()")
        if fi.short == "Vector.__hash__" or fi.name == "__hash__":
            pass
        return super().call_fn(fi, args)

    def call(self, e, env, fi):
        if isinstance(e.func, ast.Name) and e.func.id in ("hash", "round") and fi.resolve(e.func.id) is None:
            args = [self.ev(a, env, fi) for a in e.args]
            if e.func.id == "hash" and isinstance(args[0], SObj):
                h = self.repo.cls(args[0].cls).lookup("__hash__")
                if h is not None:
                    return self.call_fn(h, [args[0]])
            return P("%s[%s]" % (e.func.id, "; ".join(canon(a) for a in args)))
        return super().call(e, env, fi)


def hash_form(repo: Repo, cname: str, fields: Dict[str, object]) -> str:
    it = HashInterp(repo)
    o = SObj(cname, fields(it) if callable(fields) else fields)
    h = repo.cls(cname).lookup("__hash__")
    return canon(it.call_fn(h, [o]))
