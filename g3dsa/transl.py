"""Translation-invariance domain.

Abstract value of an expression under the translation of every position by one
vector v (the effect of obj.move(v) on a consistent object):

  'P'        a position (Point, position vector):        x -> x + v
  ('X', i)   the i-th coordinate of a position:          x_i -> x_i + v_i
  'D'        a difference / direction vector:            unchanged
  'I'        an invariant scalar / boolean / None / string
  'O'        a geometric object, translated as a whole
  ('c', k)   a container whose elements have kind k
  ('t', ks)  a tuple with element kinds ks
  '?'        anything else

It decides which *stored derived values* of an object survive move() without a
refresh (a memoised area does, a memoised centre does not) and that the measure
functions are translation invariant by construction.  The interpretation is
flow-insensitive inside a function (joins over all definitions of a local),
interprocedural through resolved callees (E1 call targets) with the kinds of
the arguments as context, and control-dependence aware: a value assigned or
returned under a branch whose test is not invariant is '?'.
"""
from __future__ import annotations

import ast
from typing import Dict, List, Optional, Tuple

from .astutil import txt
from .model import GEOM7, FunctionInfo, walk_local

POSITION_CLASSES = set(GEOM7) | {"Pyramid"}
AXIS = {"x": 0, "y": 1, "z": 2}
INV_BUILTINS = {"abs", "float", "int", "round", "min", "max", "bool", "str", "repr", "hash"}


def join(a, b):
    if a is None:
        return b
    if b is None:
        return a
    if a == b:
        return a
    if isinstance(a, tuple) and isinstance(b, tuple) and a[0] == b[0] == "c":
        return ("c", join(a[1], b[1]))
    return "?"


def invariant(k) -> bool:
    if k in ("I", "D"):
        return True
    if isinstance(k, tuple) and k[0] == "c":
        return invariant(k[1])
    if isinstance(k, tuple) and k[0] == "t":
        return all(invariant(x) for x in k[1])
    return False


class Transl:
    def __init__(self, ctx):
        self.ctx = ctx
        self.eng = ctx.types
        self.memo: Dict[Tuple[str, tuple], object] = {}
        self.inprog = set()
        self.fmemo: Dict[Tuple[str, str], object] = {}
        self.finprog = set()

    # ------------------------------------------------------------ fields
    def kind_of_tags(self, tags, cls: Optional[str] = None, field: Optional[str] = None):
        out = None
        for t in tags:
            if isinstance(t, tuple) and t[0] in ("list", "tuple", "set", "iter"):
                k = ("c", self.kind_of_tags(t[1]) or "?")
            elif isinstance(t, tuple) and t[0] == "ftuple":
                k = ("t", tuple(self.kind_of_tags(x) or "?" for x in t[1]))
            elif isinstance(t, tuple):
                k = "?"
            else:
                s = str(t)
                if s == "Point":
                    k = "P"
                elif s in POSITION_CLASSES:
                    k = "O"
                elif s == "None":
                    continue
                elif s == "Vector":
                    k = "V"  # decided by the stores (position or direction)
                elif s in ("num", "bool", "str"):
                    k = "S"  # decided by the stores
                else:
                    k = "?"
            out = join(out, k)
        return out

    def field_kind(self, cname: str, f: str):
        key = (cname, f)
        if key in self.fmemo:
            return self.fmemo[key]
        if key in self.finprog:
            return None
        ty = None
        c = self.ctx.repo.cls(cname) if self.ctx.repo.has_cls(cname) else None
        cc = c
        while cc is not None and ty is None:
            ty = self.eng.fields.get((cc.name, f))
            bs = cc.bases()
            cc = bs[0] if bs else None
        if c is None or ty is None:
            return "?"
        if cname == "Point" and f in AXIS:
            self.fmemo[key] = ("X", AXIS[f])
            return self.fmemo[key]
        k = self.kind_of_tags(ty)
        if k == "V" and cname in GEOM7:
            # a stored vector of a geometry class: position or direction by the affine classification of its stores (C07)
            from .rules.c07 import field_table
            ft = field_table(self.ctx).get(cname, {}).get(f)
            if ft in ("positional", "directional"):
                self.fmemo[key] = "P" if ft == "positional" else "D"
                return self.fmemo[key]
        if _undetermined(k):
            # a stored vector / scalar: the join over what the methods of the class store into it
            self.finprog.add(key)
            try:
                out = None
                classes = [c] + [b for b in c.bases()]
                for cl in classes:
                    for m in cl.methods.values():
                        if m.self_name is None:
                            continue
                        for n in walk_local(m.node):
                            if isinstance(n, ast.Assign):
                                for t in n.targets:
                                    if isinstance(t, ast.Attribute) and isinstance(t.value, ast.Name) and t.value.id == m.self_name and t.attr == f:
                                        out = join(out, self.expr_in(m, n.value))
                            elif isinstance(n, ast.AugAssign) and isinstance(n.target, (ast.Attribute, ast.Subscript)):
                                t = n.target
                                base = t.value if isinstance(t, ast.Subscript) else t
                                if isinstance(base, ast.Attribute) and isinstance(base.value, ast.Name) and base.value.id == m.self_name and base.attr == f:
                                    if m.name != "move":
                                        out = join(out, "?")
                k = out if out is not None else "?"
                if m_is_vector_position(k):
                    k = "P"
            finally:
                self.finprog.discard(key)
        self.fmemo[key] = k if k is not None else "?"
        return self.fmemo[key]

    # ------------------------------------------------------------ functions
    def self_kind(self, fi: FunctionInfo):
        if fi.cls is None:
            return None
        return "P" if fi.cls.name == "Point" else ("O" if fi.cls.name in POSITION_CLASSES else ("VEC" if fi.cls.name == "Vector" else "?"))

    def expr_in(self, fi: FunctionInfo, e: ast.AST, argkinds: Optional[tuple] = None):
        """kind of expression e of function fi, its parameters having the kinds given (default: self as an object,
        other parameters by their E1 types)"""
        env = self.entry_env(fi, argkinds)
        it = _Interp(self, fi, env)
        it.run()
        return it.ev(e)

    def entry_env(self, fi: FunctionInfo, argkinds: Optional[tuple]):
        env = {}
        for i, p in enumerate(fi.params):
            if argkinds is not None and i < len(argkinds) and argkinds[i] is not None:
                env[p] = argkinds[i]
            elif i == 0 and fi.cls is not None and fi.self_name == p:
                sk = self.self_kind(fi)
                env[p] = sk if sk != "VEC" else "?"
            else:
                env[p] = self.param_kind(fi, p)
        return env

    def param_kind(self, fi: FunctionInfo, p: str):
        """kind of a parameter from its E1 types over all analysed contexts: Points are positions, geometry objects are
        translated as a whole, numbers / strings / None given by the caller are invariant; a Vector may be either"""
        tags = set()
        for bound, _sm in self.eng.summaries_of(fi):
            for nm, ts in bound:
                if nm == p:
                    tags |= set(ts)
        if not tags:
            return "?"
        k = self.kind_of_tags(tags)
        if k == "S":
            return "I"
        if isinstance(k, tuple) and k[0] == "c" and k[1] == "S":
            return ("c", "I")
        if k == "V" or (isinstance(k, tuple) and k[0] == "c" and k[1] == "V"):
            return "?"
        return k if k is not None else "I"

    def fn_kind(self, fi: FunctionInfo, argkinds: tuple):
        key = (fi.qual, argkinds)
        if key in self.memo:
            return self.memo[key]
        if key in self.inprog:
            return None
        self.inprog.add(key)
        try:
            it = _Interp(self, fi, self.entry_env(fi, argkinds))
            it.run()
            out = it.ret
            if out is None:
                out = "I"  # returns nothing
        finally:
            self.inprog.discard(key)
        self.memo[key] = out
        return out


def _undetermined(k) -> bool:
    """the E1 type alone does not fix the kind (a Vector may be a position or a direction, a number a coordinate or a length)"""
    if k in ("V", "S", "?", None):
        return True
    if isinstance(k, tuple) and k[0] == "c":
        return _undetermined(k[1])
    if isinstance(k, tuple) and k[0] == "t":
        return any(_undetermined(x) for x in k[1])
    return False


def m_is_vector_position(k) -> bool:
    return k == "P"


class _Interp:
    def __init__(self, T: Transl, fi: FunctionInfo, env: dict):
        self.T = T
        self.fi = fi
        self.env = dict(env)
        self.ret = None
        self.ctl = ["I"]  # kinds of the tests of the enclosing branches

    def tainted(self) -> bool:
        return any(not invariant(k) for k in self.ctl)

    def run(self):
        for _ in range(3):
            before = dict(self.env)
            self.block(self.fi.node.body)
            if before == self.env:
                break

    def bind(self, name, k):
        if self.tainted():
            k = "?"
        self.env[name] = join(self.env.get(name), k) if name in self.env and name not in self.fi.params else k
        if name in self.fi.params:
            self.env[name] = join(self.env.get(name), k)

    def assign(self, t, k):
        if isinstance(t, ast.Name):
            self.bind(t.id, k)
        elif isinstance(t, (ast.Tuple, ast.List)):
            for i, x in enumerate(t.elts):
                if isinstance(k, tuple) and k[0] == "t" and i < len(k[1]):
                    self.assign(x, k[1][i])
                elif isinstance(k, tuple) and k[0] == "c":
                    self.assign(x, k[1])
                else:
                    self.assign(x, "?")

    def block(self, stmts):
        for s in stmts:
            self.stmt(s)

    def stmt(self, s):
        if isinstance(s, ast.Return):
            k = self.ev(s.value) if s.value is not None else "I"
            if self.tainted():
                k = "?"
            self.ret = join(self.ret, k)
        elif isinstance(s, ast.Assign):
            k = self.ev(s.value)
            for t in s.targets:
                if isinstance(s.value, (ast.Tuple, ast.List)) and isinstance(t, (ast.Tuple, ast.List)) and len(t.elts) == len(s.value.elts):
                    for x, v in zip(t.elts, s.value.elts):
                        self.assign(x, self.ev(v))
                else:
                    self.assign(t, k)
        elif isinstance(s, ast.AugAssign):
            if isinstance(s.target, ast.Name):
                cur = self.env.get(s.target.id, "?")
                k = self.binop(type(s.op), cur, self.ev(s.value))
                self.env[s.target.id] = "?" if self.tainted() else k
        elif isinstance(s, ast.AnnAssign):
            if s.value is not None:
                self.assign(s.target, self.ev(s.value))
        elif isinstance(s, (ast.If, ast.While)):
            self.ctl.append(self.ev(s.test))
            self.block(s.body)
            self.block(s.orelse)
            self.ctl.pop()
        elif isinstance(s, ast.For):
            self.assign(s.target, self.elem(self.ev(s.iter)))
            self.block(s.body)
            self.block(s.body)
            self.block(s.orelse)
        elif isinstance(s, ast.Try):
            self.block(s.body)
            for h in s.handlers:
                self.block(h.body)
            self.block(s.orelse)
            self.block(s.finalbody)
        elif isinstance(s, ast.With):
            self.block(s.body)
        elif isinstance(s, ast.Expr):
            c = s.value
            # container.append / add
            if isinstance(c, ast.Call) and isinstance(c.func, ast.Attribute) and isinstance(c.func.value, ast.Name) \
                    and c.func.attr in ("append", "add", "extend", "update", "insert") and c.args:
                k = self.ev(c.args[-1])
                if c.func.attr in ("extend", "update"):
                    k = self.elem(k)
                cur = self.env.get(c.func.value.id)
                new = ("c", k if not self.tainted() else "?")
                self.env[c.func.value.id] = join(cur, new) if cur not in (None, ("c", None)) else new
            elif isinstance(c, (ast.Yield, ast.YieldFrom)):
                k = self.ev(c.value) if c.value is not None else "I"
                k = ("c", k) if isinstance(c, ast.Yield) else k
                if self.tainted():
                    k = ("c", "?")
                self.ret = join(self.ret, k)
            else:
                self.ev(c)

    @staticmethod
    def elem(k):
        if isinstance(k, tuple) and k[0] == "c":
            return k[1] if k[1] is not None else "I"
        if isinstance(k, tuple) and k[0] == "t":
            out = None
            for x in k[1]:
                out = join(out, x)
            return out or "I"
        if k == "D":
            return "I"
        return "?"

    def binop(self, op, l, r):
        if l is None or r is None:
            return l if r is None else r
        if "?" in (l, r):
            return "?"
        if op in (ast.Sub,):
            if l == "P" and r == "P":
                return "D"
            if l == "P" and r == "D":
                return "P"
            if isinstance(l, tuple) and isinstance(r, tuple) and l[0] == r[0] == "X":
                return "I" if l[1] == r[1] else "?"
            if isinstance(l, tuple) and l[0] == "X" and r == "I":
                return l
        if op in (ast.Add,):
            if (l, r) in (("P", "D"), ("D", "P")):
                return "P"
            if isinstance(l, tuple) and l[0] == "X" and r == "I":
                return l
            if isinstance(r, tuple) and r[0] == "X" and l == "I":
                return r
            if isinstance(l, tuple) and isinstance(r, tuple) and l[0] == r[0] == "c":
                return join(l, r)
        if op in (ast.Add, ast.Sub) and l == r and l in ("D", "I"):
            return l
        if op in (ast.Mult, ast.MatMult):
            if l == "D" and r == "D":
                return "I"
            if (l, r) in (("D", "I"), ("I", "D")):
                return "D"
            if isinstance(l, tuple) and l[0] == "c" and r == "I":
                return l
        if op in (ast.Div, ast.FloorDiv) and l == "D" and r == "I":
            return "D"
        if l == "I" and r == "I":
            return "I"
        return "?"

    def classes_of(self, e) -> List[str]:
        return [str(t) for t in self.T.eng.types_at(self.fi, e) if not isinstance(t, tuple) and self.T.ctx.repo.has_cls(str(t))]

    def ev(self, e):
        if e is None:
            return "I"
        T = self.T
        if isinstance(e, ast.Constant):
            return "I"
        if isinstance(e, ast.Name):
            if e.id in self.env and self.env[e.id] is not None:
                return self.env[e.id]
            b = self.fi.resolve(e.id)
            if b is not None and b.kind in ("var", "class", "func", "ext", "module"):
                return "I"
            if b is None:
                return "I" if e.id in ("True", "False", "None") else "?"
            return "?"
        if isinstance(e, ast.Attribute):
            if txt(e) in ("math.pi", "math.e", "math.inf", "math.tau"):
                return "I"
            base = self.ev(e.value)
            if base in ("O", "P"):
                out = None
                for cn in self.classes_of(e.value):
                    if self.T.ctx.repo.cls(cn).lookup(e.attr) is not None:
                        return "?"  # a bound method object
                    out = join(out, T.field_kind(cn, e.attr))
                return out if out is not None else "?"
            if base == "I":
                return "I"
            return "?"
        if isinstance(e, ast.Subscript):
            base = self.ev(e.value)
            if isinstance(e.slice, ast.Slice):
                return base if isinstance(base, tuple) and base[0] == "c" else ("?" if base not in ("I",) else "I")
            idx = self.ev(e.slice)
            if isinstance(base, tuple) and base[0] == "c":
                return base[1] if invariant(idx) and base[1] is not None else "?"
            if isinstance(base, tuple) and base[0] == "t":
                if isinstance(e.slice, ast.Constant) and isinstance(e.slice.value, int) and -len(base[1]) <= e.slice.value < len(base[1]):
                    return base[1][e.slice.value]
                return self.elem(base)
            if base == "D":
                return "I" if invariant(idx) else "?"
            if base == "P":
                if isinstance(e.slice, ast.Constant) and isinstance(e.slice.value, int):
                    return ("X", e.slice.value)
                return "?"
            if base == "I":
                return "I"
            return "?"
        if isinstance(e, ast.UnaryOp):
            k = self.ev(e.operand)
            if isinstance(e.op, ast.Not):
                return "I" if invariant(k) else "?"
            return k if k in ("D", "I") else "?"
        if isinstance(e, ast.BinOp):
            return self.binop(type(e.op), self.ev(e.left), self.ev(e.right))
        if isinstance(e, ast.BoolOp):
            ks = [self.ev(v) for v in e.values]
            if all(invariant(k) for k in ks):
                out = None
                for k in ks:
                    out = join(out, k)
                return out if out != "?" else "I"
            return "?"
        if isinstance(e, ast.Compare):
            ks = [self.ev(e.left)] + [self.ev(c) for c in e.comparators]
            if all(isinstance(o, (ast.Is, ast.IsNot)) for o in e.ops) and any(isinstance(c, ast.Constant) and c.value is None for c in [e.left] + e.comparators):
                # `x is None`: whether a value is present does not depend on the position
                return "I" if all(k != "?" or True for k in ks) else "?"
            return "I" if all(invariant(k) for k in ks) else "?"
        if isinstance(e, ast.IfExp):
            t = self.ev(e.test)
            k = join(self.ev(e.body), self.ev(e.orelse))
            return k if invariant(t) else "?"
        if isinstance(e, (ast.Tuple, ast.List, ast.Set)):
            ks = [self.ev(x) for x in e.elts]
            if not ks:
                return ("c", None)
            if all(k == ks[0] for k in ks) and not isinstance(e, ast.Tuple):
                return ("c", ks[0])
            if isinstance(e, ast.Tuple):
                return ("t", tuple(ks))
            out = None
            for k in ks:
                out = join(out, k)
            return ("c", out)
        if isinstance(e, (ast.ListComp, ast.SetComp, ast.GeneratorExp)):
            saved = dict(self.env)
            ctl = len(self.ctl)
            for g in e.generators:
                self.assign(g.target, self.elem(self.ev(g.iter)))
                for c in g.ifs:
                    self.ctl.append(self.ev(c))
            k = self.ev(e.elt)
            if self.tainted():
                k = "?"
            del self.ctl[ctl:]
            self.env = saved
            return ("c", k)
        if isinstance(e, ast.Dict):
            out = None
            for v in e.values:
                out = join(out, self.ev(v))
            return ("c", out)
        if isinstance(e, ast.JoinedStr):
            return "I"
        if isinstance(e, ast.Call):
            return self.call(e)
        return "?"

    def call(self, e: ast.Call):
        T = self.T
        fn = e.func
        name = txt(fn)
        args = [self.ev(a.value if isinstance(a, ast.Starred) else a) for a in e.args]
        if isinstance(fn, ast.Name):
            n = fn.id
            b = self.fi.resolve(n)
            if b is None:
                if n == "len" or n == "isinstance" or n == "type":
                    return "I"
                if n == "range":
                    return ("c", "I") if all(invariant(a) for a in args) else "?"
                if n in ("enumerate",) and args:
                    return ("c", ("t", ("I", self.elem(args[0]))))
                if n == "zip":
                    return ("c", ("t", tuple(self.elem(a) for a in args)))
                if n in ("list", "tuple", "set", "sorted", "frozenset", "reversed", "iter"):
                    if not args:
                        return ("c", None)
                    return args[0] if isinstance(args[0], tuple) and args[0][0] == "c" else ("c", self.elem(args[0]))
                if n == "next" and args:
                    return self.elem(args[0])
                if n == "sum" and args:
                    k = self.elem(args[0])
                    return k if k in ("I", "D") else "?"
                if n in ("all", "any") and args:
                    return "I" if invariant(self.elem(args[0])) else "?"
                if n in INV_BUILTINS:
                    if all(invariant(a) if not (isinstance(a, tuple) and a[0] == "c") else invariant(a[1]) for a in args):
                        return "I"
                    if n in ("float", "int", "round") and args and isinstance(args[0], tuple) and args[0][0] == "X":
                        return args[0] if n == "float" else "?"
                    return "?"
                return "?"
            if b.kind == "class":
                cn = b.target.name
                if cn == "Vector":
                    if len(args) == 2 and args[0] == "P" and args[1] == "P":
                        return "D"
                    if len(args) == 3:
                        if all(a == "I" for a in args):
                            return "D"
                        if all(isinstance(a, tuple) and a[0] == "X" and a[1] == i for i, a in enumerate(args)):
                            return "P"
                        return "?"
                    if len(args) == 1:
                        if args[0] in ("D", "P"):
                            return args[0]
                        if isinstance(args[0], tuple) and args[0][0] == "c" and args[0][1] == "I":
                            return "D"
                    return "?"
                if cn == "Point":
                    if len(args) == 1 and args[0] == "P":
                        return "P"
                    if len(args) == 3 and all(isinstance(a, tuple) and a[0] == "X" and a[1] == i for i, a in enumerate(args)):
                        return "P"
                    if len(args) == 1 and isinstance(args[0], tuple) and args[0][0] in ("c", "t"):
                        return "?"
                    return "?"
                if cn in POSITION_CLASSES:
                    # an object built from covariant parts (positions, objects) and invariant directions is covariant
                    flat = []
                    for a in args:
                        flat.append(a[1] if isinstance(a, tuple) and a[0] == "c" else a)
                    if flat and all(a in ("P", "O", "D", "I") for a in flat) and any(a in ("P", "O") for a in flat):
                        return "O"
                    return "?"
                return "?"
            if b.kind == "func":
                if b.target.module.name.endswith(("utils.constant", "utils.logger")):
                    return "I"
                return self.pkg_call([b.target], args, e)
            return "?"
        if isinstance(fn, ast.Attribute):
            if isinstance(fn.value, ast.Name) and fn.value.id == "math":
                return "I" if all(a == "I" for a in args) else "?"
            if name == "copy.deepcopy" or name == "copy.copy":
                return args[0] if args else "?"
            recv = self.ev(fn.value)
            a = fn.attr
            if recv == "D":
                if a in ("length", "__abs__") and not args:
                    return "I"
                if a in ("normalized", "unit") and not args:
                    return "D"
                if a in ("cross",) and args == ["D"]:
                    return "D"
                if a in ("angle", "parallel", "orthogonal") and args == ["D"]:
                    return "I"
                if a == "__neg__":
                    return "D"
                return "?"
            if recv == "P" and a == "pv" and not args:
                return "P"
            if isinstance(recv, tuple) and recv[0] == "c":
                if a in ("index", "count", "__len__"):
                    return "I" if all(invariant(x) for x in args) else "?"
                if a in ("union", "copy", "intersection", "difference"):
                    out = recv
                    for x in args:
                        out = join(out, x if isinstance(x, tuple) and x[0] == "c" else ("c", "?"))
                    return out
                if a in ("values",):
                    return recv
                return "?"
            if recv == "I" and a in ("format", "join", "get", "debug", "info", "warning", "error", "critical"):
                return "I"
            if recv in ("O", "P"):
                tg = T.eng.call_targets.get((self.fi.qual, id(e)), set())
                fs = [T.eng.fn_by_qual[q] for q in sorted(tg) if q in T.eng.fn_by_qual]
                if fs:
                    return self.pkg_call(fs, [recv] + args, e)
            return "?"
        return "?"

    def pkg_call(self, fs, args, e):
        out = None
        for f in fs:
            if f.name == "move":
                return "?"
            ks = list(args)
            k = self.T.fn_kind(f, tuple(ks[:len(f.params)]))
            if k is None:
                continue  # recursion: identity of the join
            out = join(out, k)
        return out if out is not None else "?"
