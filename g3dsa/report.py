"""Findings, obligations, known findings, evidence files and exit codes."""
from __future__ import annotations

import json
import os
import time
from typing import Any, Dict, List, Optional

VERIF = os.path.dirname(os.path.dirname(os.path.abspath(__file__)))
KNOWN_FILE = os.path.join(VERIF, "known_findings.json")

ASSUMPTIONS = [
    "A1 CPython semantics of isinstance, first-match if/elif, `in` -> __contains__, operator -> dunder dispatch",
    "A2 no monkey-patching, no user subclasses of the geometry types, no dynamic attribute injection beyond the one modelled setattr (checked on the package itself)",
    "A3 operands are valid objects built by the public constructors",
    "A5 copy.deepcopy on plain attribute objects yields a structurally independent copy (precondition checked: no copy hooks, no __slots__)",
    "only explicit raise statements are control-flow edges; implicit exceptions of calls are outside the model",
]


class Finding:
    def __init__(self, prop, rule, file, function, line, construct, message, detail=None):
        self.prop = prop
        self.rule = rule
        self.file = file
        self.function = function
        self.line = line
        self.construct = construct
        self.message = message
        self.detail = detail or {}

    def key(self):
        return (self.prop, self.rule, self.file, self.function, self.construct)

    def as_dict(self):
        return {
            "property": self.prop,
            "rule": self.rule,
            "file": self.file,
            "function": self.function,
            "line": self.line,
            "construct": self.construct,
            "message": self.message,
            "detail": self.detail,
        }

    def text(self):
        return "%s:%s: %s %s -- %s [construct: %s]" % (
            self.file, self.line, self.rule, self.function, self.message, self.construct)


class Obligation:
    __slots__ = ("rule", "where", "construct", "ok", "fact", "nontrivial")

    def __init__(self, rule, where, construct, ok, fact, nontrivial):
        self.rule = rule
        self.where = where
        self.construct = construct
        self.ok = ok
        self.fact = fact
        self.nontrivial = nontrivial

    def as_dict(self):
        return {
            "rule": self.rule,
            "where": self.where,
            "construct": self.construct,
            "verdict": "discharged" if self.ok else "VIOLATED",
            "fact": self.fact,
        }


class Result:
    """Outcome of running the rules of one property on one tree."""

    def __init__(self, prop: str):
        self.prop = prop
        self.findings: List[Finding] = []
        self.obligations: List[Obligation] = []
        self.notes: List[str] = []
        self.undecided: List[str] = []
        self.counters: Dict[str, int] = {}
        self.instances: Dict[str, int] = {}  # rule -> instances enumerated
        self.explanation: str = ""
        self.extra: Dict[str, Any] = {}

    # -- recording API used by the rules
    def ob(self, rule, where, construct, ok, fact, nontrivial=True):
        self.obligations.append(Obligation(rule, where, construct, bool(ok), fact, nontrivial))
        self.instances[rule] = self.instances.get(rule, 0) + 1
        return ok

    def violation(self, rule, fi, node, message, construct=None, detail=None, file=None, function=None):
        from .model import norm_text

        if fi is not None:
            file = fi.module.relpath
            function = fi.short
        line = getattr(node, "lineno", 0) if node is not None and not isinstance(node, int) else (node or 0)
        if construct is None:
            construct = norm_text(node) if node is not None else ""
        if len(construct) > 200:
            construct = construct[:200]
        f = Finding(self.prop, rule, file, function, line, construct, message, detail)
        if f.key() not in {x.key() for x in self.findings}:
            self.findings.append(f)
        return f

    def note(self, text):
        if text not in self.notes:
            self.notes.append(text)

    def undecided_ob(self, text):
        if text not in self.undecided:
            self.undecided.append(text)

    def count(self, name, n=1):
        self.counters[name] = self.counters.get(name, 0) + n

    def finding_keys(self):
        return {f.key() for f in self.findings}


def load_known() -> Dict[str, Any]:
    if not os.path.isfile(KNOWN_FILE):
        return {"known": [], "fixed": []}
    with open(KNOWN_FILE) as f:
        return json.load(f)


def known_match(f: Finding, known: List[Dict[str, Any]]) -> Optional[Dict[str, Any]]:
    for k in known:
        if (k.get("property"), k.get("rule"), k.get("file"), k.get("function"), k.get("construct")) == f.key():
            return k
    return None


def emit(result: Result, tier: str, seed: int, wall_s: float, evidence_dir: str,
         selftest: Optional[Dict[str, Any]] = None, quiet: bool = False) -> int:
    """Print the report, write evidence + replay files, return the exit code."""
    prop = result.prop
    known = load_known().get("known", [])
    os.makedirs(evidence_dir, exist_ok=True)
    replay_dir = os.path.join(evidence_dir, "replay")
    out: List[str] = []
    total = len(result.obligations)
    ok = sum(1 for o in result.obligations if o.ok)
    by_rule: Dict[str, List[int]] = {}
    for o in result.obligations:
        r = by_rule.setdefault(o.rule, [0, 0])
        r[0] += 1
        r[1] += 1 if o.ok else 0
    out.append("== %s (%s tier) obligations: %d, discharged: %d" % (prop, tier, total, ok))
    for r in sorted(by_rule):
        out.append("   %-8s %3d/%3d discharged" % (r, by_rule[r][1], by_rule[r][0]))
    for n in result.notes:
        out.append("NOTE: " + n)
    new = 0
    kf = 0
    # stale replay files of this property are removed first
    if os.path.isdir(replay_dir):
        for fn in os.listdir(replay_dir):
            if fn.startswith(prop + "-"):
                os.remove(os.path.join(replay_dir, fn))
    for i, f in enumerate(result.findings):
        k = known_match(f, known)
        if k is not None:
            kf += 1
            out.append("KNOWN-FINDING: property=%s %s %s: %s (%s)" % (prop, f.rule, f.function, f.message, k.get("what", "")))
            continue
        new += 1
        os.makedirs(replay_dir, exist_ok=True)
        rp = os.path.join(replay_dir, "%s-%d.json" % (prop, new))
        with open(rp, "w") as fh:
            json.dump({"finding": f.as_dict(),
                       "rerun": "/venv/bin/python -m g3dsa.check --replay %s" % rp}, fh, indent=1)
        out.append(f.text())
        for dk, dv in (f.detail or {}).items():
            if isinstance(dv, (list, tuple)):
                out.append("      %s:" % dk)
                for x in dv:
                    out.append("         %s" % (x,))
            else:
                out.append("      %s: %s" % (dk, dv))
        out.append("VIOLATION property=%s replay=%s" % (prop, rp))
    nontriv = len({(o.rule, o.where, o.construct) for o in result.obligations if o.nontrivial and o.ok})
    samples = [o.as_dict() for o in result.obligations[:: max(1, total // 12)]][:14] if total else []
    viol_samples = [o.as_dict() for o in result.obligations if not o.ok][:6]
    coverage = {
        "explanation": result.explanation,
        "obligations": total,
        "discharged": ok,
        "evaluations": max(total, 1) if total else 0,
        "distinct_nontrivial": nontriv,
        "rule": "one obligation per enumerated rule instance (construct in /repo's current source); "
                "non-trivial = discharged by a non-vacuous fact (guard found, type set narrowed, summary consulted, "
                "normal form compared); distinct = distinct (rule, location, construct)",
        "samples": samples + viol_samples,
        "rule_instances": dict(sorted(result.instances.items())),
        "counters": dict(sorted(result.counters.items())),
        "undecided": result.undecided,
        "notes": result.notes,
        "known_findings_matched": kf,
        "exhaustive": True,
        "checker_cmd": "/venv/bin/python -m g3dsa.check %s --tier %s" % (prop, tier),
        "trusted_base": ["CPython ast parser", "g3dsa engine (this repository)", "assumptions listed in `assumptions`"],
    }
    coverage.update(result.extra)
    if selftest is not None:
        coverage["selftest"] = selftest
    ev = {
        "property_id": prop,
        "tier": tier,
        "seed": seed,
        "level": "other",
        "coverage": coverage,
        "assumptions": ASSUMPTIONS,
        "wall_s": round(wall_s, 3),
        "violations": new,
    }
    with open(os.path.join(evidence_dir, prop + ".json"), "w") as fh:
        json.dump(ev, fh, indent=1, default=str)
    if not quiet:
        print("\n".join(out))
    return 1 if new else 0
