"""Cyclic coverage of index loops (shared by C06 R6.2 and C14 R14.4).

A loop `for i in range(...)` (statement or comprehension) *walks a cycle* when
the successor of `i` flows into a subscript index (directly or through a
local).  The successor is `i + 1`, or a call of a *wrap helper* -- a function
f(i, N) of the repository whose every return is 0 under `i == N - 1` and
`i + 1` otherwise, or `(i + 1) % N`.  Such a loop must
  * range over the full  range(N)  (one argument, or 0..N), and
  * pair index i with a wrap-around successor: `(i + 1) % N` with the same N,
    the idiom  `if i == N - 1: j = 0  else: j = i + 1`  with the same N, or
    the wrap helper called with the same N,
so that all N edges / fan triangles / side faces are visited, including the
closing one.  N is compared after single-definition locals are replaced by
their definitions (`count = len(self.points)`).
"""
from __future__ import annotations

import ast
from typing import Dict, List, Optional, Tuple

from .astutil import expand_locals, parents, single_defs, txt
from .model import FunctionInfo, walk_local


def _is_succ(e: ast.AST, var: str) -> bool:
    return (isinstance(e, ast.BinOp) and isinstance(e.op, ast.Add) and (
        (isinstance(e.left, ast.Name) and e.left.id == var and isinstance(e.right, ast.Constant) and e.right.value == 1) or
        (isinstance(e.right, ast.Name) and e.right.id == var and isinstance(e.left, ast.Constant) and e.left.value == 1)))


def _is_last(t: ast.AST, i: str) -> Optional[str]:
    """`i == N - 1`  ->  text of N"""
    if isinstance(t, ast.Compare) and len(t.ops) == 1 and isinstance(t.ops[0], ast.Eq):
        l, r = t.left, t.comparators[0]
        if isinstance(r, ast.Name) and r.id == i:
            l, r = r, l
        if isinstance(l, ast.Name) and l.id == i and isinstance(r, ast.BinOp) and isinstance(r.op, ast.Sub) \
                and isinstance(r.right, ast.Constant) and r.right.value == 1:
            return txt(r.left)
    return None


def wrap_helper(fn: ast.FunctionDef) -> bool:
    """f(i, N): returns 0 when i == N - 1 and i + 1 otherwise, or (i + 1) % N"""
    args = [a.arg for a in fn.args.args]
    if len(args) != 2 or fn.args.vararg or fn.args.kwarg:
        return False
    i, N = args
    body = [s for s in fn.body if not (isinstance(s, ast.Expr) and isinstance(s.value, ast.Constant))]

    def is_mod(e):
        return isinstance(e, ast.BinOp) and isinstance(e.op, ast.Mod) and _is_succ(e.left, i) and txt(e.right) == N

    def is_zero(e):
        return isinstance(e, ast.Constant) and e.value == 0 and not isinstance(e.value, bool)

    if len(body) == 1 and isinstance(body[0], ast.Return) and body[0].value is not None:
        v = body[0].value
        if is_mod(v):
            return True
        if isinstance(v, ast.IfExp) and _is_last(v.test, i) == N and is_zero(v.body) and _is_succ(v.orelse, i):
            return True
        return False
    if len(body) in (1, 2) and isinstance(body[0], ast.If) and _is_last(body[0].test, i) == N \
            and len(body[0].body) == 1 and isinstance(body[0].body[0], ast.Return) and is_zero(body[0].body[0].value):
        rest = body[0].orelse if len(body) == 1 else body[1:]
        return len(rest) == 1 and isinstance(rest[0], ast.Return) and rest[0].value is not None and _is_succ(rest[0].value, i)
    return False


def pair_generator(fn: ast.FunctionDef) -> bool:
    """a generator f(X) that yields (i, successor of i with wrap-around) -- or the elements (X[i], X[successor]) -- for
    every i in range(len(X)):      count = len(X);  for i in range(count): yield i, (i + 1) % count"""
    args = [a.arg for a in fn.args.args]
    if len(args) != 1:
        return False
    loops = [n for n in ast.walk(fn) if isinstance(n, ast.For)]
    yields = [n for n in ast.walk(fn) if isinstance(n, (ast.Yield, ast.YieldFrom))]
    if len(loops) != 1 or len(yields) != 1 or not isinstance(yields[0], ast.Yield):
        return False
    lp, y = loops[0], yields[0].value
    if not (isinstance(lp.target, ast.Name) and isinstance(lp.iter, ast.Call) and isinstance(lp.iter.func, ast.Name)
            and lp.iter.func.id == "range" and len(lp.iter.args) == 1):
        return False
    i = lp.target.id
    defs = single_defs(fn, args)

    def norm(e):
        return txt(expand_locals(fn, e, args, defs=defs))

    N = norm(lp.iter.args[0])
    if N != "len(%s)" % args[0]:
        return False
    if not (isinstance(y, ast.Tuple) and len(y.elts) == 2):
        return False
    first, s = y.elts
    # index pairs (i, (i + 1) % n)  or element pairs (X[i], X[(i + 1) % n])
    if isinstance(first, ast.Subscript) and isinstance(s, ast.Subscript) and txt(first.value) == args[0] == txt(s.value):
        first, s = first.slice, s.slice
    if not (isinstance(first, ast.Name) and first.id == i):
        return False
    return isinstance(s, ast.BinOp) and isinstance(s.op, ast.Mod) and _is_succ(s.left, i) and norm(s.right) == N


def _index_of(target, it):
    """loop variable that runs over 0 .. N-1 and the text of N:  `for i in range(N)`  /  `for i, x in enumerate(X)`"""
    if isinstance(target, ast.Name):
        return target.id, it
    if isinstance(target, ast.Tuple) and len(target.elts) == 2 and isinstance(target.elts[0], ast.Name) \
            and isinstance(it, ast.Call) and isinstance(it.func, ast.Name) and it.func.id == "enumerate" and len(it.args) == 1:
        # enumerate(X): the index ranges over range(len(X))
        rng = ast.Call(func=ast.Name(id="range", ctx=ast.Load()),
                       args=[ast.Call(func=ast.Name(id="len", ctx=ast.Load()), args=[it.args[0]], keywords=[])], keywords=[])
        return target.elts[0].id, ast.copy_location(rng, it)
    return None, it


def _loops(fi: FunctionInfo):
    """(node, index var, range call, body nodes) for statement loops and comprehension generators over range(...) / enumerate(...)"""
    for n in walk_local(fi.node):
        if isinstance(n, ast.For):
            i, it = _index_of(n.target, n.iter)
            if i is not None:
                yield n, i, it, list(n.body)
        elif isinstance(n, (ast.ListComp, ast.SetComp, ast.GeneratorExp)):
            for g in n.generators:
                i, it = _index_of(g.target, g.iter)
                if i is not None:
                    yield n, i, it, [n.elt] + list(g.ifs)


def cycle_loops(fi: FunctionInfo, ctx=None) -> List[Dict]:
    """-> one record per loop that walks a cycle, with its verdict"""
    out = []
    par = parents(fi.node)
    sdefs = single_defs(fi.node, fi.params)

    def norm(e) -> str:
        return txt(expand_locals(fi.node, e, fi.params, defs=sdefs))

    def norm_text(s: Optional[str]) -> Optional[str]:
        if s is None:
            return None
        try:
            return norm(ast.parse(s, mode="eval").body)
        except SyntaxError:
            return s

    def helper_call(n: ast.AST, i: str) -> bool:
        if not (isinstance(n, ast.Call) and isinstance(n.func, ast.Name) and len(n.args) == 2 and not n.keywords
                and isinstance(n.args[0], ast.Name) and n.args[0].id == i):
            return False
        b = fi.resolve(n.func.id)
        return b is not None and b.kind == "func" and wrap_helper(b.target.node)

    # pairing idiom:  for p, q in zip(X, X[1:] + X[:1])  -- consecutive elements of X, closing pair included
    for zl in walk_local(fi.node):
        it = zl if isinstance(zl, ast.Call) else None
        if not (isinstance(it, ast.Call) and isinstance(it.func, ast.Name) and it.func.id == "zip" and len(it.args) == 2):
            continue
        X = norm(it.args[0])
        second = expand_locals(fi.node, it.args[1], fi.params, defs=sdefs)

        def shifted(e, lo, hi):
            """X[lo:hi] with constant bounds"""
            if not (isinstance(e, ast.Subscript) and isinstance(e.slice, ast.Slice) and e.slice.step is None and txt(e.value) == X):
                return False
            def val(b):
                return None if b is None else (b.value if isinstance(b, ast.Constant) else "?")
            return val(e.slice.lower) == lo and val(e.slice.upper) == hi

        mentions = any(isinstance(x, ast.Subscript) and txt(x.value) == X and isinstance(x.slice, ast.Slice) for x in ast.walk(second))
        if not mentions:
            continue
        problems = []
        if not (isinstance(second, ast.BinOp) and isinstance(second.op, ast.Add) and shifted(second.left, 1, None)
                and shifted(second.right, None, 1)):
            problems.append("`%s` pairs the elements of `%s` with `%s`, which is not the rotation X[1:] + X[:1]: the closing pair "
                            "(last, first) or some other pair is not visited" % (txt(it), X, txt(second)))
        out.append({"loop": it, "var": "pair", "range": txt(it), "flows": 1, "problems": problems,
                    "idiom": "zip with rotation"})
    # for a, b in <pair generator>(X): the helper walks the whole closed ring of X
    for n in walk_local(fi.node):
        it = n.iter if isinstance(n, (ast.For, ast.comprehension)) else None
        if isinstance(it, ast.Call) and isinstance(it.func, ast.Name) and len(it.args) == 1 and not it.keywords:
            b = fi.resolve(it.func.id)
            if b is not None and b.kind == "func" and pair_generator(b.target.node):
                out.append({"loop": it, "var": "pair", "range": txt(it), "flows": 1, "problems": [], "idiom": "pair generator %s" % it.func.id})
    for loop, i, it, body in _loops(fi):
        if not (isinstance(it, ast.Call) and isinstance(it.func, ast.Name) and it.func.id == "range"):
            continue
        succs = [n for st in body for n in ast.walk(st) if _is_succ(n, i) or helper_call(n, i)]
        if not succs:
            continue
        # names that are used inside subscript indices within the loop
        idx_names = set()
        for st in body:
            for n in ast.walk(st):
                if isinstance(n, ast.Subscript):
                    for m in ast.walk(n.slice):
                        if isinstance(m, ast.Name):
                            idx_names.add(m.id)
        flows = []  # (succ node, N of the modulo / helper wrap, N of the if-idiom)
        for s in succs:
            wrapped_mod = None
            top = s
            if isinstance(s, ast.Call):
                wrapped_mod = txt(s.args[1])
            else:
                p = par.get(id(s))
                if isinstance(p, ast.BinOp) and isinstance(p.op, ast.Mod) and p.left is s:
                    wrapped_mod = txt(p.right)
                    top = p
            # where does the value go?
            stmt = top
            while id(stmt) in par and not isinstance(stmt, ast.stmt):
                stmt = par[id(stmt)]
            to_index = False
            local = None
            if isinstance(stmt, ast.Assign) and len(stmt.targets) == 1 and isinstance(stmt.targets[0], ast.Name) \
                    and stmt.value is top:
                local = stmt.targets[0].id
                to_index = local in idx_names
            else:
                q = top
                while id(q) in par and not isinstance(q, ast.stmt):
                    pq = par[id(q)]
                    if isinstance(pq, ast.Subscript) and (pq.slice is q or any(x is top for x in ast.walk(pq.slice))):
                        to_index = True
                    q = pq
            if not to_index:
                continue
            wrap_if = None
            if wrapped_mod is None and local is not None:
                # if-idiom: the assignment is the else arm of `if i == N - 1: local = 0`
                pif = par.get(id(stmt))
                if isinstance(pif, ast.If) and any(x is stmt for x in pif.orelse):
                    then_zero = any(isinstance(b, ast.Assign) and len(b.targets) == 1 and txt(b.targets[0]) == local
                                    and isinstance(b.value, ast.Constant) and b.value.value == 0 for b in pif.body)
                    if then_zero:
                        wrap_if = _is_last(pif.test, i)
                # reset idiom:  local = i + 1  immediately followed by  `if local == N: local = 0`  (or >=)
                if wrap_if is None:
                    blk = None
                    pp = par.get(id(stmt))
                    for fld in ("body", "orelse", "finalbody"):
                        L = getattr(pp, fld, None)
                        if isinstance(L, list) and any(x is stmt for x in L):
                            blk = L
                    if blk is not None:
                        k = [j for j, x in enumerate(blk) if x is stmt][0]
                        nxt = blk[k + 1] if k + 1 < len(blk) else None
                        if isinstance(nxt, ast.If) and not nxt.orelse and isinstance(nxt.test, ast.Compare) and len(nxt.test.ops) == 1 \
                                and isinstance(nxt.test.ops[0], (ast.Eq, ast.GtE)) and txt(nxt.test.left) == local \
                                and len(nxt.body) == 1 and isinstance(nxt.body[0], ast.Assign) and len(nxt.body[0].targets) == 1 \
                                and txt(nxt.body[0].targets[0]) == local and isinstance(nxt.body[0].value, ast.Constant) \
                                and nxt.body[0].value.value == 0:
                            wrap_if = txt(nxt.test.comparators[0])
            flows.append((s, wrapped_mod, wrap_if))
        if not flows:
            continue
        args = it.args
        full = None
        if len(args) == 1:
            full = norm(args[0])
        elif len(args) == 2 and isinstance(args[0], ast.Constant) and args[0].value == 0:
            full = norm(args[1])
        problems = []
        for s, wm, wi in flows:
            N = norm_text(wm or wi)
            if N is None:
                problems.append("successor `%s` (line %d) is used as an index without wrap-around" % (txt(s), s.lineno))
            elif full is None:
                problems.append("loop does not start at 0: `%s`" % txt(it))
            elif full != N:
                problems.append("loop ranges over `%s` but the successor wraps at `%s`: not every element is visited" % (txt(it), N))
        idiom = "wrap helper" if any(isinstance(f[0], ast.Call) for f in flows) else ("modulo" if any(f[1] for f in flows) else "if-idiom")
        out.append({"loop": loop, "var": i, "range": txt(it), "flows": len(flows), "problems": problems, "idiom": idiom})
    return out


def check_cycles(ctx, res, fi: FunctionInfo, rule: str) -> int:
    recs = cycle_loops(fi, ctx)
    # the walk over the cycle may live in private helper methods of the same object (`self._inside_all_edges(p)`)
    seen = {fi.qual}
    todo = [fi]
    while todo:
        f = todo.pop()
        for c in walk_local(f.node):
            if isinstance(c, ast.Call) and isinstance(c.func, ast.Attribute) and isinstance(c.func.value, ast.Name) \
                    and f.self_name is not None and c.func.value.id == f.self_name and f.cls is not None and c.func.attr.startswith("_"):
                callee = f.cls.lookup(c.func.attr)
                if callee is not None and callee.qual not in seen and len(seen) < 8:
                    seen.add(callee.qual)
                    todo.append(callee)
                    for r in cycle_loops(callee, ctx):
                        r["fi"] = callee
                        recs.append(r)
            # ... or in a private module-level helper (`_fan_area(self.center_point, self.points)`)
            if isinstance(c, ast.Call) and isinstance(c.func, ast.Name) and c.func.id.startswith("_"):
                b = f.resolve(c.func.id)
                if b is not None and b.kind == "func" and b.target.cls is None and b.target.qual not in seen and len(seen) < 8 \
                        and not pair_generator(b.target.node) and not wrap_helper(b.target.node):
                    callee = b.target
                    seen.add(callee.qual)
                    todo.append(callee)
                    for r in cycle_loops(callee, ctx):
                        r["fi"] = callee
                        recs.append(r)
    for r in recs:
        ok = not r["problems"]
        rf = r.get("fi", fi)
        res.ob(rule, rf.where(r["loop"]), "%s: for %s in %s" % (rf.short, r["var"], r["range"]), ok,
               "full range with wrap-around successor (%s)" % r["idiom"] if ok else "; ".join(r["problems"]))
        if not ok:
            res.violation(rule, rf, r["loop"], "the loop over the vertex cycle in %s does not close the cycle: %s" % (
                rf.short, "; ".join(r["problems"])), construct="%s: cycle loop over %s" % (rf.short, r["var"]))
    return len(recs)
