"""Cyclic coverage of index loops (shared by C06 R6.2 and C14 R14.4).

A loop `for i in range(...)` *walks a cycle* when the successor `i + 1` flows
into a subscript index (directly or through a local).  Such a loop must
  * range over the full  range(N)  (one argument, or 0..N), and
  * pair index i with a wrap-around successor: `(i + 1) % N` with the same N,
    or the idiom  `if i == N - 1: j = 0  else: j = i + 1`  with the same N,
so that all N edges / fan triangles / side faces are visited, including the
closing one.
"""
from __future__ import annotations

import ast
from typing import Dict, List, Optional, Tuple

from .astutil import parents, txt
from .model import FunctionInfo, walk_local


def _is_succ(e: ast.AST, var: str) -> bool:
    return (isinstance(e, ast.BinOp) and isinstance(e.op, ast.Add) and (
        (isinstance(e.left, ast.Name) and e.left.id == var and isinstance(e.right, ast.Constant) and e.right.value == 1) or
        (isinstance(e.right, ast.Name) and e.right.id == var and isinstance(e.left, ast.Constant) and e.left.value == 1)))


def cycle_loops(fi: FunctionInfo) -> List[Dict]:
    """-> one record per loop that walks a cycle, with its verdict"""
    out = []
    par = parents(fi.node)
    for loop in walk_local(fi.node):
        if not (isinstance(loop, ast.For) and isinstance(loop.target, ast.Name) and isinstance(loop.iter, ast.Call)
                and isinstance(loop.iter.func, ast.Name) and loop.iter.func.id == "range"):
            continue
        i = loop.target.id
        succs = [n for st in loop.body for n in ast.walk(st) if _is_succ(n, i)]
        if not succs:
            continue
        # names that are used inside subscript indices within the loop
        idx_names = set()
        direct = False
        for st in loop.body:
            for n in ast.walk(st):
                if isinstance(n, ast.Subscript):
                    for m in ast.walk(n.slice):
                        if isinstance(m, ast.Name):
                            idx_names.add(m.id)
                        if any(m is s for s in succs):
                            direct = True
        flows = []  # (succ node, how it is wrapped / not)
        for s in succs:
            # climb: is s inside `(...) % N` ?
            p = par.get(id(s))
            wrapped_mod = None
            if isinstance(p, ast.BinOp) and isinstance(p.op, ast.Mod) and p.left is s:
                wrapped_mod = txt(p.right)
                top = p
            else:
                top = s
            # where does the value go?
            stmt = top
            while id(stmt) in par and not isinstance(stmt, ast.stmt):
                stmt = par[id(stmt)]
            to_index = False
            local = None
            if isinstance(stmt, ast.Assign) and len(stmt.targets) == 1 and isinstance(stmt.targets[0], ast.Name) \
                    and stmt.value is top:
                local = stmt.targets[0].id
                to_index = local in idx_names
            else:
                q = top
                while id(q) in par and not isinstance(q, ast.stmt):
                    pq = par[id(q)]
                    if isinstance(pq, ast.Subscript) and pq.slice is q or (isinstance(pq, ast.Subscript) and any(
                            x is top for x in ast.walk(pq.slice))):
                        to_index = True
                    q = pq
            if not to_index:
                continue
            wrap_if = None
            if wrapped_mod is None and local is not None:
                # if-idiom: the assignment is the else arm of `if i == N - 1: local = 0`
                pif = par.get(id(stmt))
                if isinstance(pif, ast.If) and any(x is stmt for x in pif.orelse):
                    t = pif.test
                    then_zero = any(isinstance(b, ast.Assign) and len(b.targets) == 1 and txt(b.targets[0]) == local
                                    and isinstance(b.value, ast.Constant) and b.value.value == 0 for b in pif.body)
                    if isinstance(t, ast.Compare) and len(t.ops) == 1 and isinstance(t.ops[0], ast.Eq) and then_zero:
                        l, r = t.left, t.comparators[0]
                        if isinstance(r, ast.Name) and r.id == i:
                            l, r = r, l
                        if isinstance(l, ast.Name) and l.id == i and isinstance(r, ast.BinOp) and isinstance(r.op, ast.Sub) \
                                and isinstance(r.right, ast.Constant) and r.right.value == 1:
                            wrap_if = txt(r.left)
            flows.append((s, wrapped_mod, wrap_if))
        if not flows:
            continue
        args = loop.iter.args
        full = None
        if len(args) == 1:
            full = txt(args[0])
        elif len(args) == 2 and isinstance(args[0], ast.Constant) and args[0].value == 0:
            full = txt(args[1])
        problems = []
        for s, wm, wi in flows:
            N = wm or wi
            if N is None:
                problems.append("successor `%s` (line %d) is used as an index without wrap-around" % (txt(s), s.lineno))
            elif full is None:
                problems.append("loop does not start at 0: `%s`" % txt(loop.iter))
            elif full != N:
                problems.append("loop ranges over `%s` but the successor wraps at `%s`: not every element is visited" % (txt(loop.iter), N))
        out.append({"loop": loop, "var": i, "range": txt(loop.iter), "flows": len(flows), "problems": problems,
                    "idiom": "modulo" if any(f[1] for f in flows) else "if-idiom"})
    return out


def check_cycles(ctx, res, fi: FunctionInfo, rule: str) -> int:
    recs = cycle_loops(fi)
    for r in recs:
        ok = not r["problems"]
        res.ob(rule, fi.where(r["loop"]), "%s: for %s in %s" % (fi.short, r["var"], r["range"]), ok,
               "full range with wrap-around successor (%s)" % r["idiom"] if ok else "; ".join(r["problems"]))
        if not ok:
            res.violation(rule, fi, r["loop"], "the loop over the vertex cycle in %s does not close the cycle: %s" % (
                fi.short, "; ".join(r["problems"])), construct="%s: cycle loop over %s" % (fi.short, r["var"]))
    return len(recs)
