"""Resolution of `x in S` through __contains__ / in_ on abstract operand types.

Shared by C04 (R4.8: no NotImplementedError can come from a membership test in
the intersection code) and C05 (R5.1: each supported pair ends in a branch that
returns a boolean expression).
"""
from __future__ import annotations

import ast
from typing import Dict, List, Tuple

from .astutil import enclosing_chain_else, if_chain, txt
from .model import AnalysisError, FunctionInfo
from .types import S, TypeEngine, has_unknown


def is_type_test(test: ast.AST) -> bool:
    """isinstance(...) / class_level comparisons, combined with and/or/not"""
    if isinstance(test, ast.BoolOp):
        return all(is_type_test(v) for v in test.values)
    if isinstance(test, ast.UnaryOp) and isinstance(test.op, ast.Not):
        return is_type_test(test.operand)
    if isinstance(test, ast.Call) and isinstance(test.func, ast.Name) and test.func.id == "isinstance":
        return True
    if isinstance(test, ast.Compare):
        parts = [test.left] + list(test.comparators)
        return any(isinstance(p, ast.Attribute) and p.attr == "class_level" for p in parts)
    return False


def _terminals(fi: FunctionInfo) -> List[ast.stmt]:
    from .model import walk_local

    return sorted((n for n in walk_local(fi.node) if isinstance(n, (ast.Return, ast.Raise))),
                  key=lambda n: n.lineno)


def classify_terminal(eng: TypeEngine, fi: FunctionInfo, bound: tuple, t: ast.stmt) -> str:
    if isinstance(t, ast.Raise):
        return "raise"
    if t.value is not None:
        ty = eng.ctx_node_types.get((fi.qual, bound, id(t.value)), frozenset())
        if "Exc" in ty:
            return "returns-exception-object"
        if has_unknown(ty):
            return "unresolved-value"
    head = enclosing_chain_else(fi.node, t)
    if head is not None:
        rows, _ = if_chain(head)
        if all(is_type_test(test) for test, _ in rows):
            return "fallback-else"
    return "ok"


def resolve(eng: TypeEngine, container: str, elem: str, depth: int = 0) -> Dict:
    """-> {'ok': bool, 'terminals': [(function short, line, text, class)], 'path': [...]}"""
    if depth > 4:
        raise AnalysisError("membership resolution does not terminate for %s in %s" % (elem, container))
    c = eng.class_by_name.get(container)
    if c is None:
        return {"ok": False, "nodes": [], "terminals": [("-", 0, "container %s is not a package class" % container, "no-class")]}
    m = c.lookup("__contains__")
    if m is None:
        return {"ok": False, "nodes": [], "terminals": [(container, 0, "no __contains__", "no-method")]}
    return _resolve_fn(eng, m, (S(container), S(elem)), depth)


def _resolve_fn(eng: TypeEngine, m: FunctionInfo, args: tuple, depth: int) -> Dict:
    bound = eng._bind(m, args, {})
    sm = eng.memo.get((m.qual, bound))
    if sm is None:
        eng.solve([(m, args)])
        sm = eng.memo.get((m.qual, bound))
    out = []
    nodes = []
    ok = True
    n_reached = 0
    for t in _terminals(m):
        if id(t) not in sm.reached:
            continue
        n_reached += 1
        cls = classify_terminal(eng, m, bound, t)
        # forwarding call  other.in_(self)
        fwd = None
        if isinstance(t, ast.Return) and isinstance(t.value, ast.Call):
            tg = eng.call_targets.get((m.qual, id(t.value)), set())
            fwd = [q for q in tg if q.endswith(".in_")]
        if cls == "ok" and fwd:
            # follow with the argument types seen at the call in this context
            call = t.value
            recv = eng.ctx_node_types.get((m.qual, bound, id(call.func.value)), frozenset())
            argt = eng.ctx_node_types.get((m.qual, bound, id(call.args[0])), frozenset()) if call.args else frozenset()
            for q in fwd:
                f2 = eng.fn_by_qual[q]
                for r in recv:
                    if not eng.is_class_tag(r) or eng.class_by_name[r].lookup("in_") is not f2:
                        continue
                    for a in argt:
                        sub = _resolve_fn(eng, f2, (S(r), S(a)), depth + 1)
                        out += sub["terminals"]
                        nodes += sub["nodes"]
                        ok = ok and sub["ok"]
            continue
        out.append((m.short, t.lineno, txt(t)[:80], cls))
        nodes.append((m, t, bound, cls))
        if cls != "ok":
            ok = False
    # an AttributeError (forward to a missing in_) shows as an Unknown-valued call
    if n_reached == 0:
        ok = False
        out.append((m.short, m.node.lineno, "no terminal statement reached for %s" % (args,), "unreachable"))
    return {"ok": ok, "terminals": out, "nodes": nodes}
