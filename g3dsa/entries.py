"""Entry signatures for the type-set inference (E1).

The library has no annotations.  The public entry points are given the operand
types their docstrings / the documentation state; everything internal gets its
parameter types from the calls that reach it.  The table is cross-checked by the
rules (attributes used on a parameter must exist on the bound class; unresolved
values at depended-on sites are analysis errors).
"""
from __future__ import annotations

from typing import List, Tuple

from .model import GEOM7, FunctionInfo, Repo
from .types import BOOL, NONE, NUM, STR, S, seq, TypeEngine

PT, VEC = S("Point"), S("Vector")


def _ctor(repo: Repo, cls: str, *argsets) -> List[Tuple[FunctionInfo, tuple]]:
    init = repo.cls(cls).lookup("__init__")
    return [(init, (S(cls),) + tuple(a)) for a in argsets]


def build_entries(repo: Repo) -> List[Tuple[FunctionInfo, tuple]]:
    E: List[Tuple[FunctionInfo, tuple]] = []
    g7 = [S(t) for t in GEOM7]
    num_list = seq("list", NUM)
    # --- constructors (documented forms)
    E += _ctor(repo, "Point", (NUM, NUM, NUM), (VEC,), (num_list,))
    E += _ctor(repo, "Vector", (NUM, NUM, NUM), (PT, PT), (num_list,))
    E += _ctor(repo, "Line", (PT, PT), (PT, VEC), (VEC, VEC))
    E += _ctor(repo, "Plane", (PT, PT, PT), (PT, VEC, VEC), (PT, VEC), (NUM, NUM, NUM, NUM))
    E += _ctor(repo, "Segment", (PT, PT), (PT, VEC))
    E += _ctor(repo, "HalfLine", (PT, PT), (PT, VEC))
    # wrong operand types (C15: must raise)
    for cn in ("Segment", "HalfLine"):
        E += _ctor(repo, cn, (NUM, NUM), (PT, NUM), (VEC, PT), (VEC, VEC), (NUM, PT))
    E += _ctor(repo, "Pyramid", (PT, PT), (S("ConvexPolygon"), VEC), (NUM, PT))
    E += _ctor(repo, "ConvexPolygon", (seq("tuple", PT),), (seq("list", PT),),
               (seq("tuple", PT), BOOL, BOOL))
    E += _ctor(repo, "ConvexPolyhedron", (seq("tuple", S("ConvexPolygon")),))
    E += _ctor(repo, "Pyramid", (S("ConvexPolygon"), PT), (S("ConvexPolygon"), PT, BOOL))
    if repo.has_cls("Solution"):
        E += _ctor(repo, "Solution", (seq("list", seq("list", NUM)),))
    # --- builders
    cpg, cph = repo.cls("ConvexPolygon"), repo.cls("ConvexPolyhedron")
    ccpg, ccph = S(("cls", "ConvexPolygon")), S(("cls", "ConvexPolyhedron"))
    E.append((cpg.lookup("Parallelogram"), (ccpg, PT, VEC, VEC)))
    E.append((cpg.lookup("Circle"), (ccpg, PT, VEC, NUM, NUM)))
    for bad in ((NUM, VEC, VEC), (PT, NUM, VEC), (PT, VEC, NUM), (VEC, VEC, VEC)):
        E.append((cpg.lookup("Parallelogram"), (ccpg,) + bad))
    for bad in ((NUM, VEC, VEC, VEC), (PT, NUM, VEC, VEC), (PT, VEC, NUM, VEC), (PT, VEC, VEC, NUM), (PT, VEC, VEC, PT)):
        E.append((cph.lookup("Parallelepiped"), (ccph,) + bad))
    E.append((cph.lookup("Parallelepiped"), (ccph, PT, VEC, VEC, VEC)))
    E.append((cph.lookup("Sphere"), (ccph, PT, NUM, NUM, NUM)))
    E.append((cph.lookup("Cylinder"), (ccph, PT, NUM, VEC, NUM)))
    E.append((cph.lookup("Cone"), (ccph, PT, NUM, VEC, NUM)))
    E.append((repo.fn("get_circle_point_list"), (PT, VEC, NUM, NUM)))
    E.append((repo.fn("get_triangle_area"), (PT, PT, PT)))  # a public function of geometry/polygon.py (callers may inline it)
    for cm in ("origin",):
        E.append((repo.cls("Point").lookup(cm), (S(("cls", "Point")),)))
    for cm in ("x_axis", "y_axis", "z_axis"):
        E.append((repo.cls("Line").lookup(cm), (S(("cls", "Line")),)))
    for cm in ("xy_plane", "yz_plane", "xz_plane"):
        E.append((repo.cls("Plane").lookup(cm), (S(("cls", "Plane")),)))
    for cm in ("zero", "x_unit_vector", "y_unit_vector", "z_unit_vector"):
        E.append((repo.cls("Vector").lookup(cm), (S(("cls", "Vector")),)))
    # --- methods of the geometry classes
    other_all = g7 + [NUM]
    for cname in GEOM7 + ["Pyramid"]:
        c = repo.cls(cname)
        me = S(cname)
        seen = set()
        for k in c.mro():
            for mname, m in list(k.methods.items()) + [(a, k.methods[t]) for a, t in k.method_aliases.items()]:
                if mname in seen or m.is_classmethod or mname == "__init__":
                    continue
                seen.add(mname)
                np_ = len(m.params) - 1
                if np_ == 0:
                    E.append((m, (me,)))
                elif mname in ("__contains__", "__eq__", "intersection", "eq_with_normal"):
                    for o in other_all:
                        if mname == "eq_with_normal" or cname not in ("Segment", "HalfLine") or mname != "__eq__" or o == me:
                            E.append((m, (me, o)))
                    if mname == "__eq__" and cname in ("Point", "Line", "Plane", "ConvexPolygon", "ConvexPolyhedron"):
                        # == against foreign types (C08: False, not an exception, not a conversion)
                        for o in (VEC, STR, seq("list", NUM), S(("ftuple", (NUM, NUM, NUM))), S("None")):
                            E.append((m, (me, o)))
                elif mname == "in_":
                    for o in (S("Line"), S("Plane")):
                        E.append((m, (me, o)))
                elif mname == "move":
                    for o in (VEC, NUM, PT, STR, seq("list", NUM)):
                        E.append((m, (me, o)))
                elif mname in ("distance", "angle", "parallel", "orthogonal"):
                    if cname == "Point" and mname == "distance":
                        E.append((m, (me, PT)))
                    elif cname != "Point":
                        for o in (PT, S("Line"), S("Plane")):
                            E.append((m, (me, o)))
                elif mname == "__getitem__":
                    E.append((m, (me, NUM)))
                elif mname == "__setitem__":
                    E.append((m, (me, NUM, PT if cname == "Segment" else NUM)))
                elif mname in ("_init_pn", "_init_gf"):
                    pass  # reached through __init__
                elif mname.startswith("_") and not mname.startswith("__"):
                    pass  # a private helper with parameters is analysed with the argument types of its callers only
                elif np_ == 1:
                    # a public method this table does not know: one context per plausible operand type (its own type
                    # checks decide which of them are accepted)
                    for o in (NUM, PT, VEC, S("Line"), S("Plane")):
                        E.append((m, (me, o)))
                else:
                    E.append((m, (me,) + tuple(NUM for _ in range(np_))))
    # --- Vector methods
    v = repo.cls("Vector")
    for mname, m in list(v.methods.items()) + [(a, v.methods[t]) for a, t in v.method_aliases.items()]:
        if m.is_classmethod or mname == "__init__":
            continue
        np_ = len(m.params) - 1
        if np_ == 0:
            E.append((m, (VEC,)))
        elif mname in ("__mul__", "__rmul__"):
            E.append((m, (VEC, VEC)))
            E.append((m, (VEC, NUM)))
        elif mname == "__getitem__":
            E.append((m, (VEC, NUM)))
        elif mname == "__setitem__":
            E.append((m, (VEC, NUM, NUM)))
        elif mname.startswith("_") and not mname.startswith("__"):
            pass  # a private helper with parameters is analysed with the argument types of its callers only
        elif np_ == 1:
            E.append((m, (VEC, VEC)))
        else:
            E.append((m, (VEC, VEC) + tuple(NUM for _ in range(np_ - 1))))
    # --- calc functions
    inter = repo.fn("intersection", "calc.intersection")
    for a in g7 + [NONE]:
        for b in g7 + [NONE]:
            E.append((inter, (a, b)))
    for bad in (NUM, VEC, S("Pyramid"), STR):
        for o in (PT, S("Line"), S("ConvexPolyhedron")):
            E.append((inter, (bad, o)))
            E.append((inter, (o, bad)))
    dist = repo.fn("distance", "calc.distance")
    for a in g7 + [VEC, NUM]:
        for b in g7 + [VEC, NUM]:
            E.append((dist, (a, b)))
    for name in ("angle", "parallel", "orthogonal"):
        f = repo.fn(name, "calc.angle")
        for a in (S("Line"), S("Plane"), VEC, PT, S("Segment"), NUM):
            for b in (S("Line"), S("Plane"), VEC, PT, S("Segment"), NUM):
                E.append((f, (a, b)))
    vol = repo.fn("volume", "calc.volume")
    for a in (S("Pyramid"), S("ConvexPolyhedron"), PT, S("ConvexPolygon"), NUM):
        E.append((vol, (a,)))
    E.append((repo.fn("acute"), (NUM,)))
    ac = "calc.aux_calc"
    E.append((repo.fn("get_segment_from_point_list", ac), (seq("list", PT),)))
    E.append((repo.fn("get_projection_length", ac), (VEC, VEC)))
    E.append((repo.fn("get_relative_projection_length", ac), (VEC, VEC)))
    E.append((repo.fn("get_segment_convexpolyhedron_intersection_point_set", ac), (S("Segment"), S("ConvexPolyhedron"))))
    E.append((repo.fn("get_segment_convexpolygon_intersection_point_set", ac), (S("Segment"), S("ConvexPolygon"))))
    E.append((repo.fn("get_halfline_convexpolyhedron_intersection_point_set", ac), (S("HalfLine"), S("ConvexPolyhedron"))))
    E.append((repo.fn("points_in_a_line", ac), (seq("tuple", PT),)))
    # --- utils
    E.append((repo.fn("solve", "utils.solver"), (seq("list", seq("list", NUM)),)))
    E.append((repo.fn("null", "utils.solver"), (NUM,)))
    E.append((repo.fn("unify_types", "utils.util"), (seq("list", NUM),)))
    for n in ("set_eps", "set_sig_figures"):
        E.append((repo.fn(n, "utils.constant"), (NUM,)))
        E.append((repo.fn(n, "utils.constant"), ()))
    for n in ("get_eps", "get_sig_figures"):
        E.append((repo.fn(n, "utils.constant"), ()))
    if repo.has_cls("Solution"):
        sol = repo.cls("Solution")
        for mname, m in sol.methods.items():
            if mname == "__init__":
                continue
            if mname == "__call__":
                E.append((m, (S("Solution"),)))
                E.append((m, (S("Solution"), NUM)))
                E.append((m, (S("Solution"), NUM, NUM)))
            else:
                E.append((m, (S("Solution"),)))
    E = [(f, a) for f, a in E if f is not None]
    return E


_CACHE = {}


def solved_engine(repo: Repo) -> TypeEngine:
    k = id(repo)
    if k not in _CACHE:
        eng = TypeEngine(repo)
        eng.solve(build_entries(repo))
        _CACHE[k] = eng
    return _CACHE[k]
