"""g3dsa -- repository-specific static analyser for GouMinghao/Geometry3D.

Every verdict is computed from the source text of the target tree (parsed with
``ast``).  The library is never imported or executed.  See /verif/DESIGN.md.
"""
