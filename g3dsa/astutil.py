"""Small AST helpers shared by the rules."""
from __future__ import annotations

import ast
from typing import Dict, Iterator, List, Optional, Set, Tuple

from .model import norm_text, walk_local


def parents(fn_node: ast.AST) -> Dict[int, ast.AST]:
    p: Dict[int, ast.AST] = {}
    for n in ast.walk(fn_node):
        for c in ast.iter_child_nodes(n):
            p[id(c)] = n
    return p


def stmts_of(fn_node: ast.AST) -> Iterator[ast.stmt]:
    for n in walk_local(fn_node):
        if isinstance(n, ast.stmt):
            yield n


def txt(e: ast.AST) -> str:
    return norm_text(e)


def root_name(e: ast.AST) -> Optional[str]:
    """a.b[0].c -> 'a'"""
    while isinstance(e, (ast.Attribute, ast.Subscript, ast.Starred)):
        e = e.value
    if isinstance(e, ast.Call):
        return root_name(e.func)
    if isinstance(e, ast.Name):
        return e.id
    return None


def names_in(e: ast.AST) -> Set[str]:
    return {n.id for n in ast.walk(e) if isinstance(n, ast.Name)}


def self_attrs_in(e: ast.AST, self_name: str = "self") -> Set[str]:
    return {
        n.attr
        for n in ast.walk(e)
        if isinstance(n, ast.Attribute) and isinstance(n.value, ast.Name) and n.value.id == self_name
    }


def calls_in(e: ast.AST) -> List[ast.Call]:
    return [n for n in ast.walk(e) if isinstance(n, ast.Call)]


def call_name(c: ast.Call) -> Optional[str]:
    """'f' for f(...), 'm' for x.m(...)"""
    if isinstance(c.func, ast.Name):
        return c.func.id
    if isinstance(c.func, ast.Attribute):
        return c.func.attr
    return None


def is_call_to(c: ast.AST, name: str) -> bool:
    return isinstance(c, ast.Call) and call_name(c) == name


def if_chain(s: ast.If) -> Tuple[List[Tuple[ast.expr, List[ast.stmt]]], List[ast.stmt]]:
    """if/elif/.../else  ->  ([(test, body), ...], else_body)"""
    rows = []
    cur = s
    while True:
        rows.append((cur.test, cur.body))
        if len(cur.orelse) == 1 and isinstance(cur.orelse[0], ast.If):
            cur = cur.orelse[0]
        else:
            return rows, cur.orelse


def chain_heads(fn_node: ast.AST) -> List[ast.If]:
    """If statements that start a chain (are not the elif of another If)."""
    par = parents(fn_node)
    out = []
    for n in walk_local(fn_node):
        if isinstance(n, ast.If):
            p = par.get(id(n))
            if isinstance(p, ast.If) and len(p.orelse) == 1 and p.orelse[0] is n:
                continue
            out.append(n)
    return sorted(out, key=lambda x: x.lineno)


def enclosing_chain_else(fn_node: ast.AST, stmt: ast.stmt) -> Optional[ast.If]:
    """If `stmt` is (inside) the final else of an if/elif chain, return the chain head
    of the innermost such chain."""
    par = parents(fn_node)
    # walk up to the statement list that directly contains stmt
    cur = stmt
    while True:
        p = par.get(id(cur))
        if p is None:
            return None
        if isinstance(p, ast.If):
            # which arm?
            if any(x is cur for x in p.orelse) and not (len(p.orelse) == 1 and isinstance(p.orelse[0], ast.If) and p.orelse[0] is cur):
                # final else of p's chain: find head
                head = p
                while True:
                    pp = par.get(id(head))
                    if isinstance(pp, ast.If) and len(pp.orelse) == 1 and pp.orelse[0] is head:
                        head = pp
                    else:
                        return head
            if any(x is cur for x in p.body):
                return None
        if isinstance(p, (ast.FunctionDef, ast.For, ast.While)):
            return None
        cur = p


def const_num(e: ast.AST) -> Optional[float]:
    """constant-fold numeric literals, math.pi, + - * / and unary minus"""
    import math

    if isinstance(e, ast.Constant) and isinstance(e.value, (int, float)) and not isinstance(e.value, bool):
        return e.value
    if isinstance(e, ast.Attribute) and isinstance(e.value, ast.Name) and e.value.id == "math" and e.attr == "pi":
        return math.pi
    if isinstance(e, ast.Name) and e.id == "pi":
        return math.pi
    if isinstance(e, ast.UnaryOp) and isinstance(e.op, (ast.USub, ast.UAdd)):
        v = const_num(e.operand)
        if v is None:
            return None
        return -v if isinstance(e.op, ast.USub) else v
    if isinstance(e, ast.BinOp):
        a, b = const_num(e.left), const_num(e.right)
        if a is None or b is None:
            return None
        try:
            if isinstance(e.op, ast.Add):
                return a + b
            if isinstance(e.op, ast.Sub):
                return a - b
            if isinstance(e.op, ast.Mult):
                return a * b
            if isinstance(e.op, ast.Div):
                return a / b
            if isinstance(e.op, ast.Pow):
                return a ** b
        except (ZeroDivisionError, OverflowError):
            return None
    return None


def assigned_names(fn_node: ast.AST) -> Dict[str, List[ast.AST]]:
    """name -> list of defining nodes (Assign/AugAssign/For/With/comprehension targets)"""
    out: Dict[str, List[ast.AST]] = {}

    def tgt(t, node):
        if isinstance(t, ast.Name):
            out.setdefault(t.id, []).append(node)
        elif isinstance(t, (ast.Tuple, ast.List)):
            for x in t.elts:
                tgt(x, node)
        elif isinstance(t, ast.Starred):
            tgt(t.value, node)

    for n in walk_local(fn_node):
        if isinstance(n, ast.Assign):
            for t in n.targets:
                tgt(t, n)
        elif isinstance(n, (ast.AugAssign, ast.AnnAssign)):
            tgt(n.target, n)
        elif isinstance(n, (ast.For, ast.AsyncFor)):
            tgt(n.target, n)
        elif isinstance(n, ast.comprehension):
            tgt(n.target, n)
        elif isinstance(n, ast.NamedExpr):
            tgt(n.target, n)
        elif isinstance(n, (ast.With, ast.AsyncWith)):
            for it in n.items:
                if it.optional_vars is not None:
                    tgt(it.optional_vars, n)
    return out


def single_defs(fn_node: ast.AST, params=()) -> Dict[str, ast.AST]:
    """local name -> its unique defining expression (plain `x = e` or element-wise tuple unpacking `x, y = e1, e2`);
    names that are parameters, loop / comprehension targets, augmented or defined more than once are excluded"""
    cnt: Dict[str, int] = {}
    val: Dict[str, ast.AST] = {}
    bad: Set[str] = set(params)

    def bump(name, v):
        cnt[name] = cnt.get(name, 0) + 1
        if v is not None:
            val[name] = v
        else:
            bad.add(name)

    for n in walk_local(fn_node):
        if isinstance(n, ast.Assign):
            for t in n.targets:
                if isinstance(t, ast.Name):
                    bump(t.id, n.value)
                elif isinstance(t, (ast.Tuple, ast.List)):
                    vals = n.value.elts if isinstance(n.value, (ast.Tuple, ast.List)) and len(n.value.elts) == len(t.elts) else None
                    for i, x in enumerate(t.elts):
                        if isinstance(x, ast.Name):
                            bump(x.id, vals[i] if vals else None)
        elif isinstance(n, (ast.AugAssign, ast.AnnAssign)):
            if isinstance(n.target, ast.Name):
                bump(n.target.id, None)
        elif isinstance(n, (ast.For, ast.AsyncFor, ast.comprehension)):
            for x in ast.walk(n.target):
                if isinstance(x, ast.Name):
                    bump(x.id, None)
        elif isinstance(n, ast.NamedExpr):
            bump(n.target.id, None)
    return {k: v for k, v in val.items() if cnt.get(k) == 1 and k not in bad}


def expand_locals(fn_node: ast.AST, e: ast.AST, params=(), depth: int = 4, defs: Optional[Dict[str, ast.AST]] = None) -> ast.AST:
    """deep copy of `e` with single-definition locals replaced by their defining expressions"""
    import copy as _copy

    if defs is None:
        defs = single_defs(fn_node, params)

    class R(ast.NodeTransformer):
        def __init__(self, d):
            self.d = d

        def visit_Name(self, n):
            if isinstance(n.ctx, ast.Load) and n.id in defs and self.d > 0:
                return R(self.d - 1).visit(_copy.deepcopy(defs[n.id]))
            return n

    return R(depth).visit(_copy.deepcopy(e))


def unrolled_body(fn_node: ast.AST, params=()) -> List[ast.stmt]:
    """the function's top-level statements with every `for x in (e1, ..., ek): body` over a literal tuple of plain names
    (no own break / continue) replaced by k copies of the body in which x is replaced by e_i -- a syntactic view for
    rules that read the *order* of tests (the engines unroll such loops semantically on their own)"""
    import copy as _copy
    from .confinement import unroll_items

    class Sub(ast.NodeTransformer):
        def __init__(self, name, repl):
            self.name, self.repl = name, repl

        def visit_Name(self, n):
            if n.id == self.name and isinstance(n.ctx, ast.Load):
                return ast.copy_location(_copy.deepcopy(self.repl), n)
            return n

    out: List[ast.stmt] = []
    for st in fn_node.body:
        items = unroll_items(st, fn_node, params) if isinstance(st, ast.For) else None
        if items is not None and isinstance(st.target, ast.Name) and all(isinstance(e, ast.Name) for e in items) and not st.orelse:
            for e in items:
                for b in st.body:
                    out.append(Sub(st.target.id, e).visit(_copy.deepcopy(b)))
        else:
            out.append(st)
    return out


def inline_self_calls(cls_lookup, self_name, e: ast.AST, depth: int = 2) -> ast.AST:
    """copy of `e` in which calls  self.m(a1, ..., ak)  of single-return helper methods are replaced by the helper's return
    expression with its parameters substituted (cls_lookup: method name -> FunctionInfo or None)"""
    import copy as _copy

    class Sub(ast.NodeTransformer):
        def __init__(self, amap):
            self.amap = amap

        def visit_Name(self, n):
            if isinstance(n.ctx, ast.Load) and n.id in self.amap:
                return _copy.deepcopy(self.amap[n.id])
            return n

    class Inl(ast.NodeTransformer):
        def __init__(self, d):
            self.d = d

        def visit_Call(self, c):
            self.generic_visit(c)
            recvs = (self_name,) if isinstance(self_name, str) else tuple(self_name)
            if self.d > 0 and isinstance(c.func, ast.Attribute) and isinstance(c.func.value, ast.Name) and c.func.value.id in recvs \
                    and not c.keywords and not any(isinstance(a, ast.Starred) for a in c.args):
                m = cls_lookup(c.func.attr)
                if m is not None and m.self_name is not None and len(m.params) == len(c.args) + 1:
                    body = [s for s in m.node.body if not (isinstance(s, ast.Expr) and isinstance(s.value, ast.Constant))]
                    if len(body) == 1 and isinstance(body[0], ast.Return) and body[0].value is not None:
                        amap = dict(zip(m.params[1:], c.args))
                        amap[m.params[0]] = ast.Name(id=c.func.value.id, ctx=ast.Load())
                        return Inl(self.d - 1).visit(Sub(amap).visit(_copy.deepcopy(body[0].value)))
            return c

    return Inl(depth).visit(_copy.deepcopy(e))


def _closed_over_params(h) -> bool:
    """the helper's body mentions no name other than its parameters, its own locals and builtins (so that its text means
    the same in any module of the package)"""
    import builtins as _b
    local = set(h.params)
    for n in ast.walk(h.node):
        if isinstance(n, ast.Name) and isinstance(n.ctx, ast.Store):
            local.add(n.id)
    for n in ast.walk(h.node):
        if isinstance(n, ast.Name) and isinstance(n.ctx, ast.Load) and n.id not in local and not hasattr(_b, n.id):
            return False
    return True


def inline_module_calls(fi, e: ast.AST, depth: int = 2) -> ast.AST:
    """copy of `e` in which calls  f(a1, ..., ak)  of single-return functions of fi's module are replaced by the function's
    return expression (straight-line locals expanded) with its parameters substituted"""
    import copy as _copy

    class Sub(ast.NodeTransformer):
        def __init__(self, amap):
            self.amap = amap

        def visit_Name(self, n):
            if isinstance(n.ctx, ast.Load) and n.id in self.amap:
                return _copy.deepcopy(self.amap[n.id])
            return n

    class Inl(ast.NodeTransformer):
        def __init__(self, d):
            self.d = d

        def visit_Call(self, c):
            self.generic_visit(c)
            if self.d > 0 and isinstance(c.func, ast.Name) and not c.keywords and not any(isinstance(a, ast.Starred) for a in c.args):
                b = fi.resolve(c.func.id)
                if b is not None and b.kind == "func" and b.target.cls is None and (
                        b.target.module is fi.module or _closed_over_params(b.target)) \
                        and len(b.target.params) == len(c.args) and b.target is not fi:
                    body = [s for s in b.target.node.body if not (isinstance(s, ast.Expr) and isinstance(s.value, ast.Constant))]
                    # straight-line helper:  x = e1; y = e2; return e3   (each local assigned once) reads as its return
                    # expression with the locals expanded
                    if body and isinstance(body[-1], ast.Return) and body[-1].value is not None and all(
                            isinstance(s, ast.Assign) and len(s.targets) == 1 and isinstance(s.targets[0], ast.Name)
                            for s in body[:-1]):
                        names = [s.targets[0].id for s in body[:-1]]
                        if len(set(names)) == len(names) and not (set(names) & set(b.target.params)):
                            rv = expand_locals(b.target.node, body[-1].value, b.target.params) if names else _copy.deepcopy(body[-1].value)
                            return Inl(self.d - 1).visit(Sub(dict(zip(b.target.params, c.args))).visit(rv))
            return c

    return Inl(depth).visit(_copy.deepcopy(e))


def exchanged(fn_node: ast.AST, e: ast.AST, a: str, b: str, params=()) -> str:
    """text of `e` (single-definition locals expanded) with the names a and b exchanged -- two return expressions e1, e2
    with  txt(expanded e1) == exchanged(e2)  evaluate the same formula with the operands swapped"""
    x = expand_locals(fn_node, e, params)

    class Sw(ast.NodeTransformer):
        def visit_Name(self, n):
            if n.id == a:
                return ast.copy_location(ast.Name(id=b, ctx=n.ctx), n)
            if n.id == b:
                return ast.copy_location(ast.Name(id=a, ctx=n.ctx), n)
            return n

    return txt(Sw().visit(x))


def identity_fast_path_returns(fn_node: ast.AST, a: str, b: str) -> set:
    """ids of the `return True` statements that form the whole body of  `if a is b:` / `if b is a:`  in an __eq__: a fast
    path for the reflexive case that cannot change the answer for two distinct objects"""
    out = set()
    for n in ast.walk(fn_node):
        if isinstance(n, ast.If) and isinstance(n.test, ast.Compare) and len(n.test.ops) == 1 and isinstance(n.test.ops[0], ast.Is) \
                and {txt(n.test.left), txt(n.test.comparators[0])} == {a, b} and len(n.body) == 1 and isinstance(n.body[0], ast.Return) \
                and isinstance(n.body[0].value, ast.Constant) and n.body[0].value.value is True:
            out.add(id(n.body[0]))
            out.add(id(n.test))
    return out
